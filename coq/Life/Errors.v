(* C13 errors_exact, complete form: the error list returned by the run, entry by entry.
   The join section of at_sim_end reads the module's JoinHandles and what became of their tasks; both are
   tied to the log here: the handles of module m are its [ISpawn] records, the fate of a task is its
   [ITaskEnd] record (none: still running). *)
From Coq Require Import List NArith Bool Lia.
From DesVerif Require Import Common.Fuel Life.Model Life.Base Life.Step Life.Trace Life.Inert Life.Events Life.Panic Life.Term.
Import ListNotations.
Open Scope N_scope.

(* ---- reading handles and task ends off a log ---- *)
Definition sp1 (m : N) (i : item) : list (N * N) :=
  match i with ISpawn m' id j _ => if m' =? m then [(j, id)] else [] | _ => [] end.
Definition spawned (m : N) (l : list item) : list (N * N) := flat_map (sp1 m) l.
Definition en1 (i : item) : list (N * N * N * N) :=
  match i with ITaskEnd m id j how => [(m, j, id, how)] | _ => [] end.
Definition ended (l : list item) : list (N * N * N * N) := flat_map en1 l.

Lemma spawned_app m a b : spawned m (a ++ b) = spawned m a ++ spawned m b.
Proof. apply flat_map_app. Qed.
Lemma ended_app a b : ended (a ++ b) = ended a ++ ended b.
Proof. apply flat_map_app. Qed.

(* records that are neither *)
Definition dull (i : item) : Prop := match i with ISpawn _ _ _ _ | ITaskEnd _ _ _ _ => False | _ => True end.

Lemma spawned_other i m l : i <> m -> Own i l -> spawned m l = [].
Proof.
  intros Hi Ho. unfold spawned. induction l as [|it l IH]; [reflexivity|]. inversion Ho; subst. cbn [flat_map]. rewrite (IH H2), app_nil_r.
  destruct it; try reflexivity. cbn [item_mod] in H1. injection H1 as ->. cbn [sp1]. apply N.eqb_neq in Hi. rewrite Hi. reflexivity.
Qed.

(* ---- inside a callback of module i ---- *)
Definition JI (i : N) (s s' : xs) : Prop :=
  exists l, x_log s' = x_log s ++ l /\ w_fin (x_w s') = w_fin (x_w s) ++ ended l /\
            hnd (w_mod (x_w s') i) = hnd (w_mod (x_w s) i) ++ spawned i l.

Lemma JI_same i s s' : x_log s' = x_log s -> w_fin (x_w s') = w_fin (x_w s) ->
  hnd (w_mod (x_w s') i) = hnd (w_mod (x_w s) i) -> JI i s s'.
Proof. intros A B C. exists []. cbn [ended spawned flat_map]. rewrite !app_nil_r. auto. Qed.

Lemma JI_refl i s : JI i s s.
Proof. apply JI_same; reflexivity. Qed.

Lemma JI_trans i s1 s2 s3 : JI i s1 s2 -> JI i s2 s3 -> JI i s1 s3.
Proof.
  intros (a & A1 & A2 & A3) (b & B1 & B2 & B3). exists (a ++ b).
  rewrite B1, A1, B2, A2, B3, A3, ended_app, spawned_app, !app_assoc. auto.
Qed.

Lemma JI_say i it s : dull it -> JI i s (say it s).
Proof.
  intros H. exists [it]. cbn [say x_w x_log ended spawned flat_map]. rewrite !app_nil_r.
  destruct it; try destruct H; cbn [en1 sp1]; rewrite !app_nil_r; auto.
Qed.

Lemma JI_on_w i f s : w_fin (f (x_w s)) = w_fin (x_w s) -> hnd (w_mod (f (x_w s)) i) = hnd (w_mod (x_w s) i) -> JI i s (on_w f s).
Proof. intros A B. apply JI_same; [reflexivity|exact A|exact B]. Qed.

Ltac jf := cbv beta; repeat (unfold spend, request, buf_schedule_at, buf_push; wsimpl; rewrite ?N.eqb_refl); try reflexivity.

Lemma buf_send_at_fin k now m far d x w : w_fin (buf_send_at k now m far d x w) = w_fin w /\
  forall j, w_mod (buf_send_at k now m far d x w) j = w_mod w j.
Proof. unfold buf_send_at. destruct (d =? 0); [destruct (walk k w m far)|]; split; reflexivity. Qed.

Lemma do_act_JI k now i who a s : JI i s (do_act k now i who a s).
Proof.
  destruct a; cbn [do_act]; try apply JI_refl; try (destruct (broke i s); [apply JI_refl|]).
  - apply JI_say. exact I.
  - eapply JI_trans; [apply JI_on_w|apply JI_say; exact I]; cbv beta;
      destruct (buf_send_at_fin k now i far d x (spend i (x_w s))) as [A B]; rewrite ?A, ?B; jf.
  - eapply JI_trans; [apply JI_on_w|apply JI_say; exact I]; jf.
  - eapply JI_trans; [apply JI_on_w|apply JI_say; exact I]; jf.
  - eapply JI_trans; [apply JI_on_w|apply JI_say; exact I]; jf.
  - eapply JI_trans; [apply JI_on_w|apply JI_say; exact I]; jf.
Qed.

Lemma quiet_JI i s : JI i s (quiet i s).
Proof.
  unfold quiet. destruct (shut (w_mod (x_w s) i)); [apply JI_say; exact I|].
  eapply JI_trans; [apply JI_on_w|apply JI_say; exact I]; jf.
Qed.

Lemma run_prog_JI tk k now i who : forall p s, JI i s (fst (run_prog tk k now i who p s)).
Proof.
  induction p as [|a p IH]; intros s; cbn [run_prog fst]; [apply JI_refl|].
  destruct a; try (eapply JI_trans; [apply do_act_JI|apply IH]).
  - destruct (tk && (0 <? d)); [apply JI_refl|apply IH].
  - cbn [fst]. apply JI_say. exact I.
  - destruct tk; [apply IH|apply quiet_JI].
Qed.

Lemma end_task_JI i how s tk : JI i s (end_task i how s tk).
Proof.
  unfold end_task. exists [ITaskEnd i (tk_id tk) (tk_inc tk) how]. cbn [say on_w x_w x_log ended spawned flat_map en1 sp1 w_fin set_fin w_mod app].
  rewrite !app_nil_r. auto.
Qed.

Lemma fold_end_task_JI i : forall l s, JI i s (fold_left (end_task i 0) l s).
Proof. induction l as [|t l IH]; intros s; cbn [fold_left]; [apply JI_refl|]. eapply JI_trans; [apply end_task_JI|apply IH]. Qed.

Lemma poll1_JI k now i s tk : JI i s (poll1 k now i s tk).
Proof.
  unfold poll1.
  match goal with |- context [run_prog true k now i ?who ?p ?s0] =>
    pose proof (run_prog_JI true k now i who p s0) as H; destruct (run_prog true k now i who p s0) as [s1 r] end.
  cbn [fst] in H. assert (H0 : JI i s s1) by (eapply JI_trans; [|exact H]; apply JI_say; exact I).
  destruct r; (eapply JI_trans; [exact H0|]); try apply end_task_JI. apply JI_on_w; jf.
Qed.

Lemma fold_poll1_JI k now i : forall l s, JI i s (fold_left (poll1 k now i) l s).
Proof. induction l as [|t l IH]; intros s; cbn [fold_left]; [apply JI_refl|]. eapply JI_trans; [apply poll1_JI|apply IH]. Qed.

Lemma poll_ready_JI k now i s : JI i s (poll_ready k now i s).
Proof. unfold poll_ready. eapply JI_trans; [apply JI_on_w|apply fold_poll1_JI]; jf. Qed.

Lemma spawned_items i n ps : spawned i (spawn_items i n ps) = map (fun j => (n, N.of_nat j)) (seq 0 (length ps)) /\
  ended (spawn_items i n ps) = [].
Proof.
  unfold spawn_items, spawned, ended. generalize 0%nat. induction ps as [|p ps IH]; intros j; cbn [length seq combine map flat_map]; [auto|].
  destruct (IH (S j)) as [A B]. rewrite A, B. cbn [sp1 en1 fst]. rewrite N.eqb_refl. auto.
Qed.

Lemma exec_JI k now i c sp p s : JI i s (fst (exec k now i c sp p s)).
Proof.
  unfold exec.
  match goal with |- context [run_prog false k now i 0 p ?s0] =>
    assert (H0 : JI i s s0);
    [|pose proof (run_prog_JI false k now i 0 p s0) as H; destruct (run_prog false k now i 0 p s0) as [s2 r]] end.
  { eapply JI_trans; [apply JI_say with (it := ICall i c now (active (w_mod (x_w s) i))); exact I|].
    destruct (spawned_items i (inc (w_mod (x_w s) i)) sp) as [A B].
    exists (spawn_items i (inc (w_mod (x_w s) i)) sp). rewrite A, B, app_nil_r. unfold spawn_all. wsimpl. rewrite N.eqb_refl. wsimpl. auto. }
  cbn [fst] in H. assert (H1 : JI i s s2) by (eapply JI_trans; eauto).
  destruct r; cbn [fst]; try exact H1; eapply JI_trans; try exact H1; try apply poll_ready_JI.
  eapply JI_trans; [apply JI_on_w|apply fold_end_task_JI]; jf.
Qed.

Lemma catch_fin c i p w : w_fin (fst (catch c i p w)) = w_fin w /\ hnd (w_mod (fst (catch c i p w)) i) = hnd (w_mod w i).
Proof. unfold catch. destruct p; [|auto]. destruct (catchf (w_mod w i)); cbn [fst]; wsimpl; rewrite N.eqb_refl; auto. Qed.

Lemma exec_catch_JI k c now i cb0 sp p s :
  JI i s {| x_w := fst (catch c i (snd (exec k now i cb0 sp p s)) (x_w (fst (exec k now i cb0 sp p s))));
            x_log := x_log (fst (exec k now i cb0 sp p s)) |}.
Proof.
  pose proof (exec_JI k now i cb0 sp p s) as H. destruct (exec k now i cb0 sp p s) as [s1 pn]. cbn [fst snd] in *.
  destruct (catch_fin c i pn (x_w s1)) as [A B]. eapply JI_trans; [exact H|]. apply JI_same; [reflexivity|exact A|exact B].
Qed.

Lemma at_sim_start_JI k c now i stage s : JI i s (fst (at_sim_start k c now i stage s)).
Proof.
  unfold at_sim_start.
  assert (G : forall sp p, JI i s (fst (let '(s1, pn) := exec k now i (CbStart stage) sp p s in
                                         let '(w2, e) := catch c i pn (x_w s1) in ({| x_w := w2; x_log := x_log s1 |}, e)))).
  { intros sp p. pose proof (exec_catch_JI k c now i (CbStart stage) sp p s) as H.
    destruct (exec k now i (CbStart stage) sp p s) as [s1 pn]. cbn [fst snd] in H. destruct (catch c i pn (x_w s1)) as [w2 e]. exact H. }
  destruct (stage =? 0); apply G.
Qed.

Lemma restart_fold_JI k c now i : forall l s b,
  JI i s (fst (fold_left (fun (acc : xs * bool) stage => if snd acc then acc else restart_stage k c now i stage (fst acc)) l (s, b))).
Proof.
  induction l as [|st l IH]; intros s b; cbn [fold_left fst snd]; [apply JI_refl|].
  destruct b; [apply IH|]. unfold restart_stage. eapply JI_trans; [apply at_sim_start_JI|apply IH].
Qed.

Lemma module_restart_JI k c now i s : JI i s (module_restart k c now i s).
Proof. unfold module_restart. eapply JI_trans; [apply JI_on_w|apply restart_fold_JI]; jf. Qed.

Lemma handle_message_JI k c now i x s : JI i s (handle_message k c now i x s).
Proof.
  unfold handle_message. destruct (active (w_mod (x_w s) i)); [|apply JI_refl].
  pose proof (exec_catch_JI k c now i (CbMsg x) [] (pick_msg c x) s) as H.
  destruct (exec k now i (CbMsg x) [] (pick_msg c x) s) as [s1 pn]. exact H.
Qed.

Lemma async_wakeup_JI k now i s : JI i s (async_wakeup k now i s).
Proof. unfold async_wakeup. destruct (active (w_mod (x_w s) i)); [apply poll_ready_JI|apply JI_refl]. Qed.

(* ---- the runtime around a callback ---- *)
Definition WJ (w : world) (l : list item) (w' : world) : Prop :=
  w_fin w' = w_fin w ++ ended l /\ forall m, hnd (w_mod w' m) = hnd (w_mod w m) ++ spawned m l.

Lemma activate_fin now m w : w_fin (activate now m w) = w_fin w /\ forall j, hnd (w_mod (activate now m w) j) = hnd (w_mod w j).
Proof.
  unfold activate. destruct (split_due now (timers (w_mod w m))) as [d q]. split; [reflexivity|]. intros j. cbn [w_mod set_cur set_mod].
  destruct (j =? m) eqn:E; [|reflexivity]. apply N.eqb_eq in E. subst j. reflexivity.
Qed.

Lemma deactivate_fin m w : w_fin (deactivate m w) = w_fin w /\ forall j, hnd (w_mod (deactivate m w) j) = hnd (w_mod w j).
Proof.
  unfold deactivate. destruct (timers (w_mod w m)) as [|[t tk] r]; [split; reflexivity|].
  destruct (lt_nw t (nw (w_mod w m))); [|split; reflexivity]. split; [reflexivity|]. intros j. cbn [w_mod set_cur set_fes set_mod].
  destruct (j =? m) eqn:E; [|reflexivity]. apply N.eqb_eq in E. subst j. reflexivity.
Qed.

Lemma ended_cancelled m c x : ended (cancelled m c x) = map (fun id => (m, inc x, id, 2)) (dropped c x) /\ spawned m (cancelled m c x) = [].
Proof.
  unfold cancelled, ended, spawned. rewrite !flat_map_app.
  assert (E1 : forall l, flat_map en1 (map (ICancel m) l) = []) by (induction l as [|a l IH]; [reflexivity|exact IH]).
  assert (E2 : forall l, flat_map en1 (map (fun id => ITaskEnd m id (inc x) 2) l) = map (fun id => (m, inc x, id, 2)) l)
    by (induction l as [|a l IH]; [reflexivity|cbn [map flat_map en1 app]; rewrite IH; reflexivity]).
  assert (E3 : forall l, flat_map (sp1 m) (map (ICancel m) l) = []) by (induction l as [|a l IH]; [reflexivity|exact IH]).
  assert (E4 : forall l, flat_map (sp1 m) (map (fun id => ITaskEnd m id (inc x) 2) l) = []) by (induction l as [|a l IH]; [reflexivity|exact IH]).
  rewrite E1, E2, E3, E4. auto.
Qed.

Lemma buf_process_WJ c now m w : WJ w (snd (buf_process c now m w)) (fst (buf_process c now m w)).
Proof.
  unfold buf_process, shutdown_part. cbn [w_mod set_buf set_fes w_fin].
  destruct (shut (w_mod w m)) as [r|]; cbn [fst snd]; [|split; [cbn [ended flat_map]; rewrite app_nil_r; reflexivity|intros j; cbn [spawned flat_map]; rewrite app_nil_r; reflexivity]].
  destruct (ended_cancelled m c (w_mod w m)) as [A B].
  assert (Hrp : ended (rpanic c m) = [] /\ forall j, spawned j (rpanic c m) = []) by (unfold rpanic; destruct (c_rsend c); split; reflexivity).
  destruct Hrp as [R1 R2].
  split.
  - rewrite ifse_fin, !ended_app, A, R1. cbn [ended flat_map en1 app]. rewrite !app_nil_r. destruct r; reflexivity.
  - intros j. rewrite ifse_mod, !spawned_app, R2. cbn [spawned flat_map sp1 app]. rewrite !app_nil_r.
    assert (E : spawned j (cancelled m c (w_mod w m)) = []).
    { destruct (N.eq_dec j m) as [->|Hj]; [exact B|]. apply (spawned_other m j); [auto|apply cancelled_own]. }
    rewrite E, app_nil_r.
    destruct r; cbn [w_mod set_fes set_fin set_mod]; (destruct (j =? m) eqn:Ej; [apply N.eqb_eq in Ej; subst j; reflexivity|reflexivity]).
Qed.

Lemma around_WJ sc now i f w : CbOK i f -> (forall s, JI i s (f s)) -> WJ w (snd (around sc now i f w)) (fst (around sc now i f w)).
Proof.
  intros Hok Hji. unfold around. destruct (Hji {| x_w := activate now i w; x_log := [] |}) as (l & Hl & Hf & Hh).
  destruct (Hok {| x_w := activate now i w; x_log := [] |}) as [[Foth _ _ _ _ _] (lu & Hlu & Ulu)].
  set (s := f {| x_w := activate now i w; x_log := [] |}) in *. cbn [x_w x_log app] in Hl, Hf, Hh, Foth, Hlu.
  destruct (activate_fin now i w) as [A1 A2]. destruct (deactivate_fin i (x_w s)) as [D1 D2].
  destruct (buf_process_WJ (cfg sc i) now i (deactivate i (x_w s))) as [B1 B2].
  destruct (buf_process (cfg sc i) now i (deactivate i (x_w s))) as [w' l']. cbn [fst snd] in *.
  split.
  - rewrite B1, D1, Hf, A1, Hl, ended_app, app_assoc. reflexivity.
  - intros m. rewrite B2, D2, Hl, spawned_app, app_assoc. f_equal.
    destruct (N.eq_dec m i) as [->|Hm]; [rewrite Hh, A2; reflexivity|].
    rewrite Foth, A2 by exact Hm. rewrite (spawned_other i m l); [rewrite app_nil_r; reflexivity|auto|].
    rewrite Hl in Hlu. subst lu. apply Usr_Own, Ulu.
Qed.

Lemma WJ_nil w w' : w_fin w' = w_fin w -> (forall m, hnd (w_mod w' m) = hnd (w_mod w m)) -> WJ w [] w'.
Proof. intros A B. split; [cbn; rewrite app_nil_r; exact A|intros m; cbn; rewrite app_nil_r; apply B]. Qed.

Lemma process_WJ sc w t ev : WJ w (snd (process sc w t ev)) (fst (process sc w t ev)).
Proof.
  destruct ev as [m far x|m x|m|m]; cbn [process].
  - cbn [fst snd]. apply WJ_nil; [|intros j]; destruct (walk (nmods sc) w m far); reflexivity.
  - apply around_WJ; [apply handle_message_ok|intros s; apply handle_message_JI].
  - apply around_WJ; [apply async_wakeup_ok|intros s; apply async_wakeup_JI].
  - apply around_WJ; [apply module_restart_ok|intros s; apply module_restart_JI].
Qed.

Lemma WJ_sample w l w' t x : WJ w l w' -> WJ w (l ++ [ISample t x]) w'.
Proof. intros [A B]. split; [rewrite ended_app|intros m; rewrite spawned_app]; cbn; rewrite app_nil_r; auto. Qed.

Lemma step_WJ sc w e w' : step sc w e w' -> WJ w (e_items e) w'.
Proof.
  intros [stage m w0 _ _|w0|w0 t ev f _]; cbn [start_rec loop_rec boot_rec fst snd e_items].
  - apply around_WJ; [apply start_cb_ok|intros s; apply at_sim_start_JI].
  - apply (WJ_sample w0 [] w0). apply WJ_nil; reflexivity.
  - apply WJ_sample. exact (process_WJ sc (set_fes w0 f) t ev).
Qed.

(* the world's bookkeeping is what the trace so far says *)
Definition JW (w : world) (l : list item) : Prop := w_fin w = ended l /\ forall m, hnd (w_mod w m) = spawned m l.

Lemma JW_step w l w' l' : JW w l -> WJ w l' w' -> JW w' (l ++ l').
Proof. intros [A B] [C D]. split; [rewrite C, A, ended_app; reflexivity|intros m; rewrite D, B, spawned_app; reflexivity]. Qed.

Lemma gen_JW sc : forall w tr, Gen sc w tr -> JW w (items tr).
Proof.
  apply gen_inv.
  - split; [reflexivity|intros m; reflexivity].
  - intros w tr e w' _ H S. rewrite items_snoc. apply (JW_step w _ w' _ H (step_WJ sc w e w' S)).
Qed.

(* ---- tear-down ---- *)
Lemma at_sim_end_JI k c now i s : JI i s (at_sim_end k c now i s).
Proof.
  unfold at_sim_end. pose proof (exec_catch_JI k c now i CbEnd [] (c_end c) s) as H.
  destruct (exec k now i CbEnd [] (c_end c) s) as [s1 pn]. cbn [fst snd] in H. destruct (catch c i pn (x_w s1)) as [w2 e]. cbn [fst] in H.
  destruct e; [exact H|]. eapply JI_trans; [exact H|]. eapply JI_trans; [apply poll_ready_JI|apply JI_on_w; reflexivity].
Qed.

Lemma end_rec_WJ sc now m w : WJ w (e_items (snd (end_rec sc now m w))) (fst (end_rec sc now m w)).
Proof.
  pose proof (end_rec_oth sc now m w) as Ho. pose proof (end_rec_own sc now m w) as Hw. unfold end_rec in *. cbn [fst snd e_items] in *.
  destruct (at_sim_end_JI (nmods sc) (cfg sc m) now m {| x_w := activate now m w; x_log := [] |}) as (l & Hl & Hf & Hh).
  cbn [x_w x_log app] in Hl, Hf, Hh. destruct (activate_fin now m w) as [A1 A2]. rewrite A1 in Hf. rewrite A2 in Hh.
  match goal with |- WJ w _ (deactivate m ?W) => destruct (deactivate_fin m W) as [D1 D2] end.
  split; [rewrite D1, Hf, Hl; reflexivity|]. intros j. rewrite D2. destruct (N.eq_dec j m) as [->|Hj]; [rewrite Hh, Hl; reflexivity|].
  rewrite <- D2, (Ho j Hj), (spawned_other m j); [rewrite app_nil_r; reflexivity|auto|exact Hw].
Qed.

Lemma catch_err c m p w : w_err (fst (catch c m p w)) = w_err w ++ (if snd (catch c m p w) then [(0, m)] else []).
Proof. unfold catch. destruct p; [|cbn; rewrite app_nil_r; reflexivity]. destruct (catchf (w_mod w m)); cbn; rewrite ?app_nil_r; reflexivity. Qed.

(* what one module's at_sim_end adds to the error: the PanicError of its callback, or else its join errors *)
Lemma end_rec_err sc now m w :
  w_err (fst (end_rec sc now m w)) = w_err w ++
    match perrs sc (e_items (snd (end_rec sc now m w))) with
    | [] => join_errs (cfg sc m) m (hnd (w_mod (fst (end_rec sc now m w)) m)) (w_fin (fst (end_rec sc now m w)))
    | l => l
    end.
Proof.
  unfold end_rec. cbn [fst snd e_items]. rewrite deactivate_err.
  match goal with |- context [deactivate m ?W] => destruct (deactivate_fin m W) as [D1 D2]; rewrite D1, D2; clear D1 D2 end.
  unfold at_sim_end. set (s0 := {| x_w := activate now m w; x_log := [] |}).
  assert (H0 : PInv sc m (w_err w) s0).
  { constructor; cbn [s0 x_w x_log p0s filter perrs flat_map]; [rewrite app_nil_r; apply activate_err|intros H; contradiction]. }
  pose proof (exec_catch_PInv sc (nmods sc) now m CbEnd [] (c_end (cfg sc m)) (w_err w) s0 H0) as G.
  pose proof (exec_LogExt (nmods sc) now m CbEnd [] (c_end (cfg sc m)) s0) as (lu & Hlu & Uu).
  pose proof (exec_Fr (nmods sc) now m CbEnd [] (c_end (cfg sc m)) s0) as HF0.
  destruct (exec (nmods sc) now m CbEnd [] (c_end (cfg sc m)) s0) as [s1 pn]. cbn [fst] in Hlu, HF0. cbn [x_log s0 app] in Hlu.
  pose proof (catch_err (cfg sc m) m pn (x_w s1)) as Hce.
  destruct (catch (cfg sc m) m pn (x_w s1)) as [w2 e2] eqn:Ec. cbn [fst snd] in G, Hce. destruct G as [pe _]. cbn [x_w x_log] in pe.
  rewrite (fr_err _ _ _ HF0) in Hce. cbn [x_w s0] in Hce. rewrite activate_err in Hce. rewrite Hce in pe. apply app_inv_head in pe.
  assert (Hown : forall l, Forall (Usr m) l -> perrs sc l = perrs sc (p0s m l)).
  { intros l Hl. apply perrs_p0. intros i Hi. rewrite Forall_forall in Hl. apply (Hl i Hi). }
  destruct e2.
  - cbn [x_w x_log]. rewrite Hlu, (Hown lu Uu), <- Hlu, <- pe, Hce. reflexivity.
  - set (s2 := {| x_w := w2; x_log := x_log s1 |}).
    pose proof (poll_ready_Keep m (nmods sc) now m s2) as K. pose proof (poll_ready_Fr (nmods sc) now m s2) as HF.
    pose proof (poll_ready_LogExt (nmods sc) now m s2) as (l2 & Hl2 & U2).
    cbn [on_w x_w x_log w_err set_err w_fin w_mod]. rewrite (fr_err _ _ _ HF). cbn [x_w s2]. rewrite Hce, app_nil_r. f_equal.
    rewrite Hl2. cbn [x_log s2]. rewrite Hlu, (Hown (lu ++ l2)) by (apply Forall_app; auto).
    unfold Keep in K. rewrite Hl2 in K. cbn [x_log s2] in K. rewrite Hlu in K. rewrite K, <- Hlu, <- pe. reflexivity.
Qed.

(* entries of other modules do not matter to the handles of m *)
Lemma outcome_other fin extra m h : Forall (fun e => fst (fst (fst e)) <> m) extra -> outcome (fin ++ extra) m h = outcome fin m h.
Proof.
  intros H. unfold outcome. induction fin as [|e fin IH]; cbn [app find].
  - induction extra as [|e extra IH]; [reflexivity|]. inversion H; subst. cbn [find].
    assert (E : (fst (fst (fst e)) =? m) = false) by (apply N.eqb_neq; assumption). rewrite E. cbn [andb]. apply IH. assumption.
  - destruct ((fst (fst (fst e)) =? m) && (snd (fst (fst e)) =? fst h) && (snd (fst e) =? snd h)); [reflexivity|exact IH].
Qed.

Lemma join_errs_other c m hs fin extra : Forall (fun e => fst (fst (fst e)) <> m) extra ->
  join_errs c m hs (fin ++ extra) = join_errs c m hs fin.
Proof.
  intros H. unfold join_errs. f_equal; apply flat_map_ext; intros h; rewrite (outcome_other fin extra m h H); reflexivity.
Qed.

Lemma ended_own i m l : i <> m -> Own i l -> Forall (fun e => fst (fst (fst e)) <> m) (ended l).
Proof.
  intros Hi Ho. unfold ended. induction l as [|it l IH]; [constructor|]. inversion Ho; subst. cbn [flat_map]. apply Forall_app. split; [|apply IH; assumption].
  destruct it; try constructor; [|constructor]. cbn [item_mod] in H1. injection H1 as ->. cbn. exact Hi.
Qed.

(* ---- the tear-down sweep ---- *)
Definition ends_of (m : N) (tr : list erec) : list erec :=
  filter (fun e => match e_kind e with KEnd m' => m' =? m | _ => false end) tr.

Definition end_errs (sc : script) (m : N) (tr : list erec) : list (N * N) :=
  match perrs sc (items (ends_of m tr)) with
  | [] => join_errs (cfg sc m) m (spawned m (items tr)) (ended (items tr))
  | l => l
  end.

Lemma ends_of_app m a b : ends_of m (a ++ b) = ends_of m a ++ ends_of m b.
Proof. apply filter_app. Qed.

Lemma items_app a b : items (a ++ b) = items a ++ items b.
Proof. apply flat_map_app. Qed.

Lemma gen_no_ends sc m : forall w tr, Gen sc w tr -> ends_of m tr = [].
Proof.
  apply (gen_inv sc (fun _ tr => ends_of m tr = [])); [reflexivity|].
  intros w tr e w' _ H S. rewrite ends_of_app, H. destruct S; reflexivity.
Qed.

(* the records of the sweep over [ms]: one per module, the module's own *)
Lemma end_seq_recs sc now : forall ms w,
  Forall (fun e => exists m, In m ms /\ e_kind e = KEnd m /\ Own m (e_items e)) (snd (end_seq sc now ms w)).
Proof.
  induction ms as [|m ms IH]; intros w; cbn [end_seq]; [constructor|].
  specialize (IH (fst (end_rec sc now m w))). destruct (end_seq sc now ms (fst (end_rec sc now m w))) as [w2 es]. cbn [snd] in *.
  constructor.
  - exists m. split; [left; reflexivity|split; [reflexivity|apply end_rec_own]].
  - eapply Forall_impl; [|exact IH]. intros e (m' & Hin & Hk & Ho). exists m'. split; [right; exact Hin|auto].
Qed.

Lemma recs_foreign m es ms : ~ In m ms ->
  Forall (fun e : erec => exists m', In m' ms /\ e_kind e = KEnd m' /\ Own m' (e_items e)) es ->
  ends_of m es = [] /\ spawned m (items es) = [] /\ Forall (fun e => fst (fst (fst e)) <> m) (ended (items es)).
Proof.
  intros Hm H. induction es as [|e es IH]; [repeat split; constructor|]. inversion H as [|x y (m' & Hin & Hk & Ho) Hr]; subst.
  destruct (IH Hr) as (A & B & C). assert (Hne : m' <> m) by (intros ->; contradiction).
  split; [|split].
  - unfold ends_of in *. cbn [filter]. rewrite Hk. apply N.eqb_neq in Hne. rewrite Hne. exact A.
  - cbn [items flat_map]. fold (items es). rewrite spawned_app, B, (spawned_other m' m); auto.
  - cbn [items flat_map]. fold (items es). rewrite ended_app. apply Forall_app. split; [apply (ended_own m' m); auto|exact C].
Qed.

Lemma end_seq_errs sc now : forall ms w pre, NoDup ms -> JW w (items pre) -> (forall m, In m ms -> ends_of m pre = []) ->
  JW (fst (end_seq sc now ms w)) (items (pre ++ snd (end_seq sc now ms w))) /\
  w_err (fst (end_seq sc now ms w)) = w_err w ++ flat_map (fun m => end_errs sc m (pre ++ snd (end_seq sc now ms w))) ms.
Proof.
  induction ms as [|m ms IH]; intros w pre Hnd HJ Hpre; cbn [end_seq].
  - cbn [fst snd flat_map]. rewrite !app_nil_r. auto.
  - inversion Hnd as [|x y Hm Hnd']; subst.
    pose proof (end_rec_WJ sc now m w) as HW. pose proof (end_rec_err sc now m w) as HE.
    pose proof (end_seq_recs sc now ms (fst (end_rec sc now m w))) as HR.
    set (e := snd (end_rec sc now m w)) in *. set (w1 := fst (end_rec sc now m w)) in *.
    assert (HJ1 : JW w1 (items (pre ++ [e]))) by (rewrite items_snoc; apply (JW_step w _ w1 _ HJ HW)).
    assert (Hpre1 : forall m', In m' ms -> ends_of m' (pre ++ [e]) = []).
    { intros m' Hin. rewrite ends_of_app, (Hpre m' (or_intror Hin)). unfold ends_of, e, end_rec. cbn [filter snd e_kind].
      assert (Hne : (m =? m') = false) by (apply N.eqb_neq; intros ->; contradiction). rewrite Hne. reflexivity. }
    destruct (IH w1 (pre ++ [e]) Hnd' HJ1 Hpre1) as [J2 E2].
    destruct (end_seq sc now ms w1) as [w2 es]. cbn [fst snd] in *.
    rewrite <- app_assoc in J2, E2. cbn [app] in J2, E2. split; [exact J2|].
    rewrite E2, HE, <- app_assoc. f_equal. cbn [flat_map]. f_equal.
    destruct (recs_foreign m es ms Hm HR) as (F1 & F2 & F3). destruct HJ1 as [K1 K2].
    unfold end_errs. rewrite ends_of_app. cbn [ends_of filter]. fold (ends_of m es). rewrite (Hpre m (or_introl eq_refl)), F1.
    assert (Hk : e_kind e = KEnd m) by reflexivity. rewrite Hk, N.eqb_refl. cbn [app items flat_map]. rewrite app_nil_r.
    destruct (perrs sc (e_items e)); [|reflexivity].
    change (pre ++ e :: es) with (pre ++ [e] ++ es). rewrite app_assoc, items_app, spawned_app, ended_app, F2, app_nil_r.
    rewrite (join_errs_other _ _ _ _ _ F3), K1, K2. reflexivity.
Qed.

(* ---- C13 errors_exact, complete ---- *)
Definition body (tr : list erec) : list erec := filter (fun e => negb (is_end e)) tr.

Lemma recs_all_end ms es : Forall (fun e : erec => exists m', In m' ms /\ e_kind e = KEnd m' /\ Own m' (e_items e)) es ->
  filter (fun e => negb (is_end e)) es = [].
Proof.
  induction 1 as [|e es (m' & _ & Hk & _) _ IH]; [reflexivity|]. cbn [filter]. unfold is_end at 1. rewrite Hk. exact IH.
Qed.

Theorem errors_exact_full sc :
  r_err (run_script sc) = perrs sc (items (body (trace sc))) ++ flat_map (fun m => end_errs sc m (trace sc)) (mods sc).
Proof.
  destruct (run_decomp sc) as (w & tr & HG & [(_ & _ & now & Et & Ee)|(Hok & _ & _)]).
  - destruct (gen_PI sc w tr HG) as [He _].
    destruct (end_seq_errs sc now (mods sc) w tr (mods_nodup sc) (gen_JW sc w tr HG) (fun m _ => gen_no_ends sc m w tr HG)) as [_ E].
    rewrite Ee, Et, E, He. f_equal. unfold body. rewrite filter_app.
    assert (A : filter (fun e => negb (is_end e)) tr = tr).
    { clear - HG. induction HG as [|w tr e w' HG IH Hs]; [reflexivity|]. rewrite filter_app, IH. destruct Hs; reflexivity. }
    assert (B : filter (fun e => negb (is_end e)) (snd (end_seq sc now (mods sc) w)) = []) by (eapply recs_all_end, end_seq_recs).
    rewrite A, B, app_nil_r. reflexivity.
  - pose proof (Term.run_terminates sc). congruence.
Qed.

(* run() returns Ok exactly when no callback panicked uncaught and no module has a join error *)
Corollary ok_iff sc : r_err (run_script sc) = [] <->
  perrs sc (items (body (trace sc))) = [] /\ forall m, In m (mods sc) -> end_errs sc m (trace sc) = [].
Proof.
  rewrite errors_exact_full. split.
  - intros H. apply app_eq_nil in H. destruct H as [A B]. split; [exact A|]. intros m Hin.
    induction (mods sc) as [|x l IH]; [destruct Hin|]. cbn [flat_map] in B. apply app_eq_nil in B. destruct B as [B1 B2].
    destruct Hin as [->|Hin]; [exact B1|apply IH; assumption].
  - intros [A B]. rewrite A. cbn [app]. induction (mods sc) as [|x l IH]; [reflexivity|]. cbn [flat_map].
    rewrite (B x (or_introl eq_refl)). apply IH. intros m Hin. apply B. right. exact Hin.
Qed.

(* ---- the PanicError entries alone (the earlier form of errors_exact) ---- *)
Definition is_pe (e : N * N) : bool := fst e =? 0.

Lemma filter_perrs sc l : filter is_pe (perrs sc l) = perrs sc l.
Proof.
  induction l as [|i l IH]; [reflexivity|]. unfold perrs in *. cbn [flat_map]. rewrite filter_app, IH.
  destruct i as [| | | | | |m0 who cc| | | | | | |]; try reflexivity. destruct who; [|reflexivity]. cbn [perr]. destruct cc; reflexivity.
Qed.

Lemma filter_join_errs c m hs fin : filter is_pe (join_errs c m hs fin) = [].
Proof.
  unfold join_errs. rewrite filter_app.
  assert (G : forall f : N * N -> list (N * N), (forall h, filter is_pe (f h) = []) -> filter is_pe (flat_map f hs) = []).
  { intros f Hf. induction hs as [|h l IH]; [reflexivity|]. cbn [flat_map]. rewrite filter_app, Hf, IH. reflexivity. }
  rewrite !G; [reflexivity| |]; intros h; destruct (N.testbit (c_join c) (snd h)); try reflexivity;
    destruct (outcome fin m h) as [[|[[p|p|]|p|]]|]; reflexivity.
Qed.

Lemma end_seq_err sc now : forall ms w,
  filter is_pe (w_err (fst (end_seq sc now ms w))) = filter is_pe (w_err w) ++ perrs sc (items (snd (end_seq sc now ms w))).
Proof.
  induction ms as [|m ms IH]; intros w; cbn [end_seq]; [cbn; rewrite app_nil_r; reflexivity|].
  destruct (end_seq sc now ms (fst (end_rec sc now m w))) as [w2 es] eqn:Es. cbn [fst snd items flat_map].
  replace w2 with (fst (end_seq sc now ms (fst (end_rec sc now m w)))) by (rewrite Es; reflexivity).
  replace es with (snd (end_seq sc now ms (fst (end_rec sc now m w)))) by (rewrite Es; reflexivity).
  rewrite IH, (end_rec_err sc now m w), filter_app, perrs_app, <- app_assoc. f_equal. f_equal.
  destruct (perrs sc (e_items (snd (end_rec sc now m w)))) as [|p l] eqn:Ep; [apply filter_join_errs|].
  rewrite <- Ep. apply filter_perrs.
Qed.

Theorem errors_exact sc : filter is_pe (r_err (run_script sc)) = perrs sc (items (trace sc)).
Proof.
  destruct (run_decomp sc) as (w & tr & HG & [(_ & _ & now & Et & Ee)|(_ & Et & Ee)]); destruct (gen_PI sc w tr HG) as [He _].
  - rewrite Ee, Et, end_seq_err, He, filter_perrs. unfold items. rewrite flat_map_app, perrs_app. reflexivity.
  - rewrite Ee, Et, He, filter_perrs. reflexivity.
Qed.

Corollary ok_only_if_no_uncaught_panic sc : r_err (run_script sc) = [] -> perrs sc (items (trace sc)) = [].
Proof. intros H. rewrite <- errors_exact, H. reflexivity. Qed.
