(* C13 contained and errors_exact.  A callback panic of module m is the record IPanic m 0.
   Harness::catch deactivates m in the same event; only a restart (requested by m itself
   before it panicked) makes it active again; while it is inactive no dispatched event produces
   a record of m.  The error list returned by the run holds one PanicError per callback panic of
   a module whose stereotype does not catch, in the order of the panics. *)
From Coq Require Import List NArith Bool Lia PeanoNat.
From DesVerif Require Import Life.Model Life.Base Life.Step Life.Trace Life.Frame Life.Inert Life.Inv Life.Events.
Import ListNotations.
Open Scope N_scope.

Definition is_p0 (m : N) (i : item) : bool := match i with IPanic m' 0 _ => m' =? m | _ => false end.
Definition p0s (m : N) (l : list item) : list item := filter (is_p0 m) l.

Lemma p0s_app m a b : p0s m (a ++ b) = p0s m a ++ p0s m b.
Proof. apply filter_app. Qed.

(* no callback panic of m is added to the log *)
Definition Keep (m : N) (s s' : xs) : Prop := p0s m (x_log s') = p0s m (x_log s).

Lemma Keep_refl m s : Keep m s s.
Proof. reflexivity. Qed.

Lemma Keep_trans m s1 s2 s3 : Keep m s1 s2 -> Keep m s2 s3 -> Keep m s1 s3.
Proof. unfold Keep. congruence. Qed.

Lemma Keep_say m i s : is_p0 m i = false -> Keep m s (say i s).
Proof. intros H. unfold Keep. cbn [say x_log]. rewrite p0s_app. unfold p0s at 2. cbn [filter]. rewrite H, app_nil_r. reflexivity. Qed.

Lemma do_act_Keep m' k now m who a s : Keep m' s (do_act k now m who a s).
Proof.
  destruct a; cbn [do_act]; try reflexivity; try (destruct (broke m s); [reflexivity|]);
    (eapply Keep_trans; [|apply Keep_say; reflexivity]); reflexivity.
Qed.

Lemma quiet_Keep m' m s : Keep m' s (quiet m s).
Proof. unfold quiet. destruct (shut (w_mod (x_w s) m)); (eapply Keep_trans; [|apply Keep_say; reflexivity]); reflexivity. Qed.

(* a program adds a callback-panic record exactly when it is a callback that ends in a panic *)
Lemma run_prog_Keep m' tk k now m who : forall p s,
  (who <> 0 \/ snd (run_prog tk k now m who p s) <> RPanic) -> Keep m' s (fst (run_prog tk k now m who p s)).
Proof.
  induction p as [|a p IH]; intros s; cbn [run_prog fst snd]; [reflexivity|].
  destruct a; try (intros H; eapply Keep_trans; [apply (do_act_Keep m' k now m who)|apply IH, H]).
  - destruct (tk && (0 <? d)); cbn [fst snd]; [reflexivity|apply IH].
  - cbn [fst snd]. intros [H|H]; [|contradiction]. apply Keep_say. destruct who; [contradiction|reflexivity].
  - destruct tk; cbn [fst snd]; [apply IH|]. intros _. apply quiet_Keep.
Qed.

Lemma run_prog_panics m' tk k now m p : forall s,
  snd (run_prog tk k now m 0 p s) = RPanic ->
  p0s m' (x_log (fst (run_prog tk k now m 0 p s))) = p0s m' (x_log s) ++
    (if m =? m' then [IPanic m 0 (catchf (w_mod (x_w (fst (run_prog tk k now m 0 p s))) m))] else []).
Proof.
  induction p as [|a p IH]; intros s; cbn [run_prog fst snd]; [discriminate|].
  destruct a; try (intros H; rewrite (IH _ H); f_equal; apply (do_act_Keep m' k now m 0)).
  - destruct (tk && (0 <? d)); cbn [fst snd]; [discriminate|apply IH].
  - intros _. cbn [fst say x_log]. rewrite p0s_app. unfold p0s at 2. cbn [filter is_p0]. destruct (m =? m'); reflexivity.
  - destruct tk; cbn [fst snd]; [apply IH|discriminate].
Qed.

Lemma end_task_Keep m' m how s tk : Keep m' s (end_task m how s tk).
Proof. unfold end_task. eapply Keep_trans; [|apply Keep_say; reflexivity]. reflexivity. Qed.

Lemma fold_end_task_Keep m' m : forall l s, Keep m' s (fold_left (end_task m 0) l s).
Proof. induction l as [|tk l IH]; intros s; cbn [fold_left]; [reflexivity|]. eapply Keep_trans; [apply end_task_Keep|apply IH]. Qed.

Lemma spawn_items_p0 m' m i ps : p0s m' (spawn_items m i ps) = [].
Proof. unfold spawn_items. induction (combine (seq 0 (length ps)) ps) as [|x l IH]; [reflexivity|exact IH]. Qed.

Lemma poll1_Keep m' k now m s tk : Keep m' s (poll1 k now m s tk).
Proof.
  unfold poll1.
  match goal with |- context [run_prog true k now m ?who ?p ?s0] =>
    pose proof (run_prog_Keep m' true k now m who p s0) as H; destruct (run_prog true k now m who p s0) as [s1 r] end.
  cbn [fst] in H.
  assert (H0 : Keep m' s s1).
  { eapply Keep_trans; [|apply H; left; lia]. apply Keep_say. destruct (tk_new tk); reflexivity. }
  destruct r; try exact H0; (eapply Keep_trans; [exact H0|apply end_task_Keep]).
Qed.

Lemma poll_ready_Keep m' k now m s : Keep m' s (poll_ready k now m s).
Proof.
  unfold poll_ready. generalize (ready (w_mod (x_w s) m)). intros l.
  assert (G : forall l s0, Keep m' s0 (fold_left (poll1 k now m) l s0)).
  { clear. induction l as [|tk l IH]; intros s0; cbn [fold_left]; [reflexivity|].
    eapply Keep_trans; [apply poll1_Keep|apply IH]. }
  eapply Keep_trans; [|apply G]. reflexivity.
Qed.

(* Harness::exec: the result flag says whether a callback-panic record was added *)
Lemma exec_p0 m' k now m c sp p s :
  p0s m' (x_log (fst (exec k now m c sp p s))) =
  p0s m' (x_log s) ++ (if snd (exec k now m c sp p s) && (m =? m')
                       then [IPanic m 0 (catchf (w_mod (x_w (fst (exec k now m c sp p s))) m))] else []).
Proof.
  unfold exec.
  match goal with |- context [run_prog false k now m 0 p ?s0] =>
    pose proof (run_prog_Keep m' false k now m 0 p s0) as HK; pose proof (run_prog_panics m' false k now m p s0) as HP;
    destruct (run_prog false k now m 0 p s0) as [s2 r] end.
  cbn [fst snd] in *.
  assert (H0 : forall s', Keep m' s2 s' -> r <> RPanic -> p0s m' (x_log s') = p0s m' (x_log s) ++ []).
  { intros s' K Hr. rewrite app_nil_r, K, HK by (right; exact Hr). cbn [on_w say say_all x_log]. rewrite !p0s_app, spawn_items_p0. unfold p0s at 2. cbn [filter is_p0].
    rewrite !app_nil_r. reflexivity. }
  destruct r; cbn [fst snd andb].
  - apply H0; [apply poll_ready_Keep|discriminate].
  - rewrite (HP eq_refl). cbn [on_w say say_all x_log]. rewrite !p0s_app, spawn_items_p0. unfold p0s at 2. cbn [filter is_p0]. rewrite !app_nil_r. reflexivity.
  - apply H0; [|discriminate]. eapply Keep_trans; [|apply fold_end_task_Keep]. reflexivity.
  - apply H0; [apply poll_ready_Keep|discriminate].
Qed.

(* ---- the callbacks: error list and active flag follow the panic records ---- *)
Definition perr (sc : script) (i : item) : list (N * N) :=
  match i with IPanic m 0 c => if c then [] else [(0, m)] | IResetPanic m => [(0, m)] | _ => [] end.
Definition perrs (sc : script) (l : list item) : list (N * N) := flat_map (perr sc) l.

Lemma perrs_app sc a b : perrs sc (a ++ b) = perrs sc a ++ perrs sc b.
Proof. apply flat_map_app. Qed.

Lemma perrs_p0 sc l m : (forall i, In i l -> Usr m i) -> perrs sc l = perrs sc (p0s m l).
Proof.
  intros H. induction l as [|i l IH]; [reflexivity|]. cbn [perrs flat_map p0s filter].
  assert (Hu : Usr m i) by (apply H; left; reflexivity). destruct Hu as [Hi Hs].
  assert (IH' : perrs sc l = perrs sc (p0s m l)) by (apply IH; intros j Hj; apply H; right; exact Hj).
  unfold perrs in *. destruct i as [| | | | | |m0 who cc| | | | | | |]; cbn [is_p0 perr app]; try exact IH'; try discriminate.
  destruct who; cbn [perr app]; [|exact IH'].
  cbn [item_mod] in Hi. injection Hi as ->. rewrite N.eqb_refl. cbn [flat_map perr]. rewrite IH'. reflexivity.
Qed.

(* [PInv e0 s]: the error list is e0 followed by the uncaught callback panics of the log, and
   the module is inactive once its callback has panicked *)
Record PInv (sc : script) (m : N) (e0 : list (N * N)) (s : xs) : Prop := {
  pi_err : w_err (x_w s) = e0 ++ perrs sc (p0s m (x_log s));
  pi_dead : p0s m (x_log s) <> [] -> active (w_mod (x_w s) m) = false }.

Lemma PInv_keep sc m e0 s s' : Keep m s s' -> w_err (x_w s') = w_err (x_w s) ->
  active (w_mod (x_w s') m) = active (w_mod (x_w s) m) -> PInv sc m e0 s -> PInv sc m e0 s'.
Proof. intros K He Ha [a b]. constructor; rewrite K, ?He, ?Ha; assumption. Qed.

Lemma exec_catch_PInv sc k now m c sp p e0 s : PInv sc m e0 s ->
  let '(s1, pn) := exec k now m c sp p s in
  PInv sc m e0 {| x_w := fst (catch (cfg sc m) m pn (x_w s1)); x_log := x_log s1 |}.
Proof.
  intros [a b]. pose proof (exec_p0 m k now m c sp p s) as HP. pose proof (exec_Fr k now m c sp p s) as HF.
  destruct (exec k now m c sp p s) as [s1 pn]. cbn [fst snd] in *. rewrite N.eqb_refl, andb_true_r in HP.
  unfold catch. destruct pn; cbn [fst].
  - constructor; cbn [x_w x_log].
    + rewrite HP, perrs_app. cbn [perrs flat_map perr app]. destruct (catchf (w_mod (x_w s1) m)); cbn [fst w_err set_err set_mod].
      * rewrite (fr_err _ _ _ HF), a, app_nil_r. reflexivity.
      * rewrite (fr_err _ _ _ HF), a, app_assoc. reflexivity.
    + intros _. destruct (catchf (w_mod (x_w s1) m)); cbn [fst w_mod set_err]; rewrite mod_same; reflexivity.
  - constructor; cbn [x_w x_log]; rewrite HP, app_nil_r.
    + rewrite (fr_err _ _ _ HF). exact a.
    + rewrite (fr_active _ _ _ HF). exact b.
Qed.

Lemma at_sim_start_PInv sc k now m stage e0 s : k = nmods sc -> PInv sc m e0 s ->
  PInv sc m e0 (fst (at_sim_start k (cfg sc m) now m stage s)).
Proof.
  intros -> H. unfold at_sim_start.
  assert (G : forall sp p, let '(s1, pn) := exec (nmods sc) now m (CbStart stage) sp p s in
              PInv sc m e0 {| x_w := fst (catch (cfg sc m) m pn (x_w s1)); x_log := x_log s1 |})
    by (intros sp p; apply exec_catch_PInv, H).
  destruct (stage =? 0).
  - specialize (G (c_spawn (cfg sc m)) (pick_start (cfg sc m) (inc (w_mod (x_w s) m)))).
    destruct (exec (nmods sc) now m (CbStart stage) _ _ s) as [s1 pn]. destruct (catch (cfg sc m) m pn (x_w s1)) as [w2 e2]. exact G.
  - specialize (G [] []).
    destruct (exec (nmods sc) now m (CbStart stage) _ _ s) as [s1 pn]. destruct (catch (cfg sc m) m pn (x_w s1)) as [w2 e2]. exact G.
Qed.

Lemma restart_fold_PInv sc now m e0 : forall l s e, PInv sc m e0 s ->
  PInv sc m e0 (fst (fold_left (fun (acc : xs * bool) stage => if snd acc then acc else restart_stage (nmods sc) (cfg sc m) now m stage (fst acc)) l (s, e))).
Proof.
  induction l as [|st l IH]; intros s e H; cbn [fold_left fst snd]; [exact H|].
  destruct e; [apply IH, H|].
  pose proof (at_sim_start_PInv sc (nmods sc) now m st e0 s eq_refl H) as H1. unfold restart_stage.
  destruct (at_sim_start (nmods sc) (cfg sc m) now m st s) as [s1 e1]. apply IH, H1.
Qed.

Lemma module_restart_PInv sc now m s : x_log s = [] ->
  PInv sc m (w_err (x_w s)) (module_restart (nmods sc) (cfg sc m) now m s).
Proof.
  intros Hl. unfold module_restart. apply restart_fold_PInv.
  constructor; cbn [on_w x_w x_log]; rewrite Hl; cbn [p0s filter perrs flat_map].
  - rewrite app_nil_r. reflexivity.
  - intros H. contradiction.
Qed.

Lemma handle_message_PInv sc now m x s : x_log s = [] ->
  PInv sc m (w_err (x_w s)) (handle_message (nmods sc) (cfg sc m) now m x s).
Proof.
  intros Hl.
  assert (H0 : PInv sc m (w_err (x_w s)) s).
  { constructor; rewrite Hl; cbn [p0s filter perrs flat_map]; [rewrite app_nil_r; reflexivity|intros H; contradiction]. }
  unfold handle_message. destruct (active (w_mod (x_w s) m)); [|exact H0].
  pose proof (exec_catch_PInv sc (nmods sc) now m (CbMsg x) [] (pick_msg (cfg sc m) x) _ s H0) as G.
  destruct (exec (nmods sc) now m (CbMsg x) [] (pick_msg (cfg sc m) x) s) as [s1 pn]. exact G.
Qed.

Lemma async_wakeup_PInv sc now m s : x_log s = [] ->
  PInv sc m (w_err (x_w s)) (async_wakeup (nmods sc) now m s).
Proof.
  intros Hl.
  assert (H0 : PInv sc m (w_err (x_w s)) s).
  { constructor; rewrite Hl; cbn [p0s filter perrs flat_map]; [rewrite app_nil_r; reflexivity|intros H; contradiction]. }
  unfold async_wakeup. destruct (active (w_mod (x_w s) m)); [|exact H0].
  pose proof (poll_ready_Fr (nmods sc) now m s) as HF.
  eapply PInv_keep; [apply poll_ready_Keep|apply (fr_err _ _ _ HF)|apply (fr_active _ _ _ HF)|exact H0].
Qed.

Lemma start_cb_PInv sc stage m s : x_log s = [] -> PInv sc m (w_err (x_w s)) (start_cb sc stage m s).
Proof.
  intros Hl. unfold start_cb. apply at_sim_start_PInv; [reflexivity|].
  constructor; rewrite Hl; cbn [p0s filter perrs flat_map]; [rewrite app_nil_r; reflexivity|intros H; contradiction].
Qed.

(* ---- one module event ---- *)
(* runtime records: no callback panic among them; the only error they stand for is that of a panicking Module::reset *)
Definition no_rp (i : item) : Prop := match i with IResetPanic _ => False | _ => True end.

Lemma sys_perrs sc l : Forall (fun i => is_sys i = true) l -> (Forall no_rp l -> perrs sc l = []) /\ forall m, p0s m l = [].
Proof.
  induction 1 as [|i l Hi _ [IH1 IH2]]; [split; reflexivity|]. split.
  - intros Hn. inversion Hn; subst. unfold perrs in *. cbn [flat_map]. rewrite IH1 by assumption. destruct i; try discriminate; try reflexivity. contradiction.
  - intros m. unfold p0s in *. cbn [filter]. rewrite IH2. destruct i; try discriminate; reflexivity.
Qed.

Lemma around_items sc now m f w :
  exists lsys, snd (around sc now m f w) = x_log (f {| x_w := activate now m w; x_log := [] |}) ++ lsys /\
               Forall (fun i => is_sys i = true) lsys /\
               perrs sc lsys = rerr (cfg sc m) m (deactivate m (x_w (f {| x_w := activate now m w; x_log := [] |}))).
Proof.
  unfold around. set (s := f {| x_w := activate now m w; x_log := [] |}).
  unfold buf_process, shutdown_part, rerr. cbn [w_mod set_buf set_fes]. destruct (shut _); cbn [snd]; eexists; (split; [reflexivity|]).
  - assert (Hc : Forall (fun i => is_sys i = true) (cancelled m (cfg sc m) (w_mod (deactivate m (x_w s)) m)) /\
                 Forall no_rp (cancelled m (cfg sc m) (w_mod (deactivate m (x_w s)) m))).
    { split; apply Forall_forall; intros i Hi; destruct (cancelled_in _ _ _ _ Hi) as [(id & ->)|(id & ->)]; try reflexivity; exact I. }
    destruct Hc as [Hc1 Hc2]. split.
    + apply Forall_app. split; [exact Hc1|constructor; [reflexivity|apply rpanic_sys]].
    + rewrite perrs_app, (proj1 (sys_perrs sc _ Hc1) Hc2). cbn [app perrs flat_map perr]. unfold rpanic.
      destruct (c_rsend (cfg sc m)); reflexivity.
  - split; [constructor|reflexivity].
Qed.

Lemma shutdown_part_active c now m w : active (w_mod (fst (shutdown_part c now m w)) m) = true -> active (w_mod w m) = true.
Proof.
  unfold shutdown_part. destruct (shut (w_mod w m)) as [[t|]|]; cbn [fst]; rewrite ?ifse_mod; wsimpl; rewrite ?N.eqb_refl; cbn [active]; try discriminate.
  exact (fun H => H).
Qed.

Lemma around_active sc now m f w : active (w_mod (fst (around sc now m f w)) m) = true ->
  active (w_mod (x_w (f {| x_w := activate now m w; x_log := [] |})) m) = true.
Proof.
  unfold around. set (s := f {| x_w := activate now m w; x_log := [] |}). unfold buf_process.
  match goal with |- context [shutdown_part ?c ?n ?mm ?ww] =>
    pose proof (shutdown_part_active c n mm ww) as Hsp; destruct (shutdown_part c n mm ww) as [w' l'] end.
  cbn [fst] in *. intros H. apply Hsp in H. cbn [w_mod set_buf set_fes] in H.
  destruct (deactivate_mod m (x_w s)) as (n & Hd). rewrite Hd in H. exact H.
Qed.

Lemma around_panic sc now m f w : CbOK m f ->
  (forall s, x_log s = [] -> PInv sc m (w_err (x_w s)) (f s)) ->
  w_err (fst (around sc now m f w)) = w_err w ++ perrs sc (snd (around sc now m f w)) /\
  (p0s m (snd (around sc now m f w)) <> [] -> active (w_mod (fst (around sc now m f w)) m) = false).
Proof.
  intros Hok Hf. destruct (around_items sc now m f w) as (lsys & El & Hsys & Ps).
  destruct (sys_perrs sc lsys Hsys) as [_ Ps0].
  pose proof (Hf {| x_w := activate now m w; x_log := [] |} eq_refl) as [pe pd]. cbn [x_w] in pe, pd.
  destruct (Hok {| x_w := activate now m w; x_log := [] |}) as [_ (lu & Hlu & Uu)]. cbn [x_log app] in Hlu.
  split.
  - rewrite El, perrs_app, Ps, app_assoc.
    rewrite (perrs_p0 sc _ m) by (rewrite Hlu; intros i Hi; rewrite Forall_forall in Uu; apply (Uu i Hi)).
    rewrite <- (activate_err now m w), <- pe.
    unfold around. destruct (buf_process_glob (cfg sc m) now m (deactivate m (x_w (f {| x_w := activate now m w; x_log := [] |})))) as (_ & _ & He).
    destruct (buf_process _ _ _ _) as [w' l']. cbn [fst] in *. rewrite He, deactivate_err. reflexivity.
  - rewrite El, p0s_app, Ps0, app_nil_r. intros Hp. specialize (pd Hp).
    destruct (active (w_mod (fst (around sc now m f w)) m)) eqn:Ea; [|reflexivity].
    apply around_active in Ea. congruence.
Qed.

(* ---- the trace ---- *)
Definition panics (m : N) (e : erec) : bool := existsb (is_p0 m) (e_items e).
Definition dead_step (m : N) (d : bool) (e : erec) : bool :=
  if panics m e then true else if starts m e then false else d.
(* after the trace [tr] a callback of m has panicked and m was not (re)started since *)
Definition dead_after (m : N) (tr : list erec) : bool := fold_left (dead_step m) tr false.

Lemma dead_after_snoc m tr e : dead_after m (tr ++ [e]) = dead_step m (dead_after m tr) e.
Proof. unfold dead_after. rewrite fold_left_app. reflexivity. Qed.

Lemma panics_p0s m e : panics m e = true <-> p0s m (e_items e) <> [].
Proof.
  unfold panics, p0s. induction (e_items e) as [|i l IH]; cbn [existsb filter]; [split; [discriminate|intros H; contradiction]|].
  destruct (is_p0 m i); cbn [orb]; [split; [discriminate|reflexivity]|exact IH].
Qed.

Definition PI (sc : script) (w : world) (tr : list erec) : Prop :=
  w_err w = perrs sc (items tr) /\ forall m, dead_after m tr = true -> active (w_mod w m) = false.

Lemma own_p0s_other m1 m l : Own m1 l -> m1 <> m -> p0s m l = [].
Proof.
  intros Ho Hn. unfold p0s. induction l as [|i l IH]; [reflexivity|]. inversion Ho; subst. cbn [filter].
  rewrite (IH H2). destruct i as [| | | | | |m0 who cc| | | | | | |]; try reflexivity. destruct who; [|reflexivity].
  cbn [item_mod] in H1. injection H1 as ->. cbn [is_p0]. apply N.eqb_neq in Hn. rewrite Hn. reflexivity.
Qed.

(* one module event seen by the panic bookkeeping; [st]: the record starts m1 *)
Lemma mod_event_PI sc w tr now m1 f knd smp (st : bool) :
  let l := snd (around sc now m1 f w) in
  let e := {| e_kind := knd; e_time := now; e_items := l ++ smp |} in
  PI sc w tr -> CbOK m1 f ->
  (forall s, x_log s = [] -> PInv sc m1 (w_err (x_w s)) (f s)) ->
  Forall (fun i => is_sys i = true /\ no_rp i) smp ->
  (forall m, starts m e = if m =? m1 then st else false) ->
  (st = false -> active (w_mod (fst (around sc now m1 f w)) m1) = true -> active (w_mod w m1) = true) ->
  PI sc (fst (around sc now m1 f w)) (tr ++ [e]).
Proof.
  intros l e [He Hd] Hok Hf Hsmp0 Hst Hact.
  assert (Hsmp : Forall (fun i => is_sys i = true) smp) by (eapply Forall_impl; [|exact Hsmp0]; intros i [H _]; exact H).
  assert (Hnrp : Forall no_rp smp) by (eapply Forall_impl; [|exact Hsmp0]; intros i [_ H]; exact H).
  destruct (around_panic sc now m1 f w Hok Hf) as [A1 A2]. fold l in A1, A2.
  destruct (sys_perrs sc smp Hsmp) as [Ps0' Ps0]. pose proof (Ps0' Hnrp) as Ps.
  pose proof (around_own sc now m1 f w Hok) as Ho. fold l in Ho.
  split.
  - rewrite items_snoc, perrs_app. cbn [e_items e]. rewrite perrs_app, Ps, app_nil_r, A1, He. reflexivity.
  - intros m. rewrite dead_after_snoc. unfold dead_step.
    assert (Hp : panics m e = true <-> p0s m l <> []).
    { rewrite panics_p0s. cbn [e_items e]. rewrite p0s_app, Ps0, app_nil_r. reflexivity. }
    rewrite Hst. destruct (N.eq_dec m m1) as [->|Hn].
    + rewrite N.eqb_refl. destruct (panics m1 e) eqn:Ep; [intros _; apply A2, Hp; reflexivity|].
      destruct st; [discriminate|]. intros Hdd. specialize (Hd m1 Hdd).
      destruct (active (w_mod (fst (around sc now m1 f w)) m1)) eqn:Ea; [|reflexivity].
      rewrite (Hact eq_refl eq_refl) in Hd. discriminate.
    + apply N.eqb_neq in Hn as Hn'. rewrite Hn'.
      assert (Ep : panics m e = false).
      { apply not_true_is_false. intros Ep. apply Hp in Ep. apply Ep. apply (own_p0s_other m1 m l Ho). auto. }
      rewrite Ep. intros Hdd. rewrite around_oth by (try exact Hok; exact Hn). apply Hd, Hdd.
Qed.

Lemma exec_active k now m c sp p s : active (w_mod (x_w (fst (exec k now m c sp p s))) m) = active (w_mod (x_w s) m).
Proof. apply (fr_active _ _ _ (exec_Fr k now m c sp p s)). Qed.

Lemma catch_active c m p w : active (w_mod (fst (catch c m p w)) m) = true -> active (w_mod w m) = true.
Proof.
  unfold catch. destruct p; cbn [fst]; [|exact (fun H => H)].
  destruct (catchf (w_mod w m)); cbn [fst w_mod set_err]; rewrite mod_same; discriminate.
Qed.

Lemma at_sim_start_active k c now m stage s :
  active (w_mod (x_w (fst (at_sim_start k c now m stage s))) m) = true -> active (w_mod (x_w s) m) = true.
Proof.
  unfold at_sim_start.
  set (e := if stage =? 0 then exec k now m (CbStart stage) (c_spawn c) (pick_start c (inc (w_mod (x_w s) m))) s
            else exec k now m (CbStart stage) [] [] s).
  assert (He : active (w_mod (x_w (fst e)) m) = active (w_mod (x_w s) m)) by (unfold e; destruct (stage =? 0); apply exec_active).
  destruct e as [s1 p]. cbn [fst] in He. pose proof (catch_active c m p (x_w s1)) as Hc.
  destruct (catch c m p (x_w s1)) as [w2 e2]. cbn [fst x_w] in *. intros H. rewrite <- He. auto.
Qed.

Lemma handle_message_active k c now m x s :
  active (w_mod (x_w (handle_message k c now m x s)) m) = true -> active (w_mod (x_w s) m) = true.
Proof.
  unfold handle_message. destruct (active (w_mod (x_w s) m)) eqn:Ea; [reflexivity|]. rewrite Ea. exact (fun H => H).
Qed.

Lemma async_wakeup_active k now m s :
  active (w_mod (x_w (async_wakeup k now m s)) m) = true -> active (w_mod (x_w s) m) = true.
Proof.
  unfold async_wakeup. destruct (active (w_mod (x_w s) m)) eqn:Ea; [reflexivity|]. rewrite Ea. exact (fun H => H).
Qed.

Lemma step_PI sc w tr e w' : PI sc w tr -> step sc w e w' -> PI sc w' (tr ++ [e]).
Proof.
  intros HP Hs. destruct Hs as [stage m1 w Hfresh Hactive|w|w t ev f Hf].
  - unfold start_rec. cbn [fst snd].
    pose proof (mod_event_PI sc w tr 0 m1 (start_cb sc stage m1) (KStart stage m1) [] (stage =? 0)) as L.
    cbn zeta in L. rewrite app_nil_r in L. apply L; clear L; try assumption; try apply start_cb_ok.
    + intros s Hl. apply start_cb_PInv, Hl.
    + constructor.
    + intros m. unfold starts. cbn [e_kind]. rewrite (N.eqb_sym m1 m). destruct (m =? m1); [rewrite andb_true_r|rewrite andb_false_r]; reflexivity.
    + intros _ Ha. apply around_active in Ha. unfold start_cb in Ha. apply at_sim_start_active in Ha. cbn [x_w] in Ha.
      rewrite activate_active in Ha. exact Ha.
  - destruct HP as [He Hd]. split.
    + rewrite items_snoc. cbn [boot_rec e_items]. rewrite perrs_app. cbn. rewrite app_nil_r. exact He.
    + intros m. rewrite dead_after_snoc. unfold dead_step, panics, starts. cbn. apply Hd.
  - unfold loop_rec. cbn [fst snd].
    assert (HP' : PI sc (set_fes w f) tr) by exact HP.
    assert (Hsmp : forall k, Forall (fun i => is_sys i = true /\ no_rp i) [ISample t k]) by (intros k; constructor; [split; [reflexivity|exact I]|constructor]).
    destruct ev as [m1 far x|m1 x|m1|m1]; unfold process.
    + destruct HP as [He Hd]. cbn [fst snd app]. split.
      * rewrite items_snoc. cbn [e_items]. rewrite perrs_app. cbn. rewrite app_nil_r.
        destruct (walk (nmods sc) (set_fes w f) m1 far); exact He.
      * intros m. rewrite dead_after_snoc. unfold dead_step, panics, starts. cbn. intros H.
        destruct (walk (nmods sc) (set_fes w f) m1 far); apply Hd, H.
    + pose proof (mod_event_PI sc (set_fes w f) tr t m1 (handle_message (nmods sc) (cfg sc m1) t m1 x) (KLoop (EvDeliver m1 x))
                    [ISample t (mask sc (fst (around sc t m1 (handle_message (nmods sc) (cfg sc m1) t m1 x) (set_fes w f))))] false) as L.
      cbn zeta in L. apply L; clear L; try assumption; try apply handle_message_ok; try apply Hsmp.
      * intros s Hl. apply handle_message_PInv, Hl.
      * intros m. unfold starts. cbn [e_kind]. destruct (m =? m1); reflexivity.
      * intros _ Ha. apply around_active, handle_message_active in Ha. cbn [x_w] in Ha. rewrite activate_active in Ha. exact Ha.
    + pose proof (mod_event_PI sc (set_fes w f) tr t m1 (async_wakeup (nmods sc) t m1) (KLoop (EvWake m1))
                    [ISample t (mask sc (fst (around sc t m1 (async_wakeup (nmods sc) t m1) (set_fes w f))))] false) as L.
      cbn zeta in L. apply L; clear L; try assumption; try apply async_wakeup_ok; try apply Hsmp.
      * intros s Hl. apply async_wakeup_PInv, Hl.
      * intros m. unfold starts. cbn [e_kind]. destruct (m =? m1); reflexivity.
      * intros _ Ha. apply around_active, async_wakeup_active in Ha. cbn [x_w] in Ha. rewrite activate_active in Ha. exact Ha.
    + pose proof (mod_event_PI sc (set_fes w f) tr t m1 (module_restart (nmods sc) (cfg sc m1) t m1) (KLoop (EvRestart m1))
                    [ISample t (mask sc (fst (around sc t m1 (module_restart (nmods sc) (cfg sc m1) t m1) (set_fes w f))))] true) as L.
      cbn zeta in L. apply L; clear L; try assumption; try apply module_restart_ok; try apply Hsmp.
      * intros s Hl. apply module_restart_PInv, Hl.
      * intros m. unfold starts. cbn [e_kind]. rewrite (N.eqb_sym m1 m). destruct (m =? m1); reflexivity.
      * discriminate.
Qed.

Lemma gen_PI sc : forall w tr, Gen sc w tr -> PI sc w tr.
Proof.
  apply (gen_inv sc (PI sc)).
  - split; [reflexivity|discriminate].
  - intros w tr e w' _ HP Hs. apply (step_PI sc w tr e w' HP Hs).
Qed.

(* ---- C13 contained ----
   After a callback of module m has panicked, no start-up stage and no dispatched event produces
   any record of m (no handler, no wake-up, no task step, no send) until an event that restarts m --
   which only exists if m itself had requested shutdow_and_restart before it panicked. *)
Theorem contained sc m pre e post :
  trace sc = pre ++ e :: post -> dead_after m pre = true -> starts m e = false -> is_end e = false ->
  forallb (fun i => negb (of_mod m i)) (e_items e) = true.
Proof.
  intros E Hd Hst Hk.
  destruct (trace_cases sc pre e post E) as [(w1 & w2 & HG & Hs)|(w & tr & now & ms1 & m1 & ms2 & _ & _ & _ & _ & ->)]; [|discriminate].
  destruct (gen_PI sc w1 pre HG) as [_ Hdead]. specialize (Hdead m Hd).
  destruct (gen_WI sc w1 pre HG m) as [(_ & _ & Hshut) _].
  destruct Hs as [stage m1 w Hfresh Hactive|w|w t ev f Hf].
  { (* a start-up stage: the sweep skips inactive modules, so it is a stage of another module *)
    unfold start_rec. cbn [snd e_items]. destruct (N.eq_dec m1 m) as [->|Hn]; [congruence|].
    apply (own_not_of_mod m1 m); [apply around_own, start_cb_ok|exact Hn]. }
  { reflexivity. }
  unfold loop_rec in *. cbn [snd e_items e_kind] in *.
  assert (Hdn : forall fcb, (forall s, active (w_mod (x_w s) m) = false -> fcb s = s) ->
                 snd (around sc t m fcb (set_fes w f)) = []).
  { intros fcb Hid. unfold around. rewrite Hid by (cbn [x_w]; rewrite activate_active; exact Hdead). cbn [x_w x_log app].
    unfold buf_process, shutdown_part. cbn [w_mod set_buf set_fes].
    destruct (deactivate_mod m (activate t m (set_fes w f))) as (n & ->). cbn [shut set_nw].
    unfold activate. destruct (split_due t (timers (w_mod (set_fes w f) m))). wsimpl. rewrite N.eqb_refl. wsimpl. rewrite Hshut. reflexivity. }
  destruct (ev_mod ev) as [m1|] eqn:Em.
  - destruct (N.eq_dec m1 m) as [->|Hn].
    + destruct (ev_mod_starts m ev t _ Em Hst) as (x & [->| ->]); unfold process.
      * rewrite Hdn; [reflexivity|]. intros s Ha. unfold handle_message. rewrite Ha. reflexivity.
      * rewrite Hdn; [reflexivity|]. intros s Ha. unfold async_wakeup. rewrite Ha. reflexivity.
    + pose proof (process_own sc (set_fes w f) t ev) as Ho. rewrite Em in Ho.
      rewrite forallb_app, (own_not_of_mod m1 m _ Ho Hn). reflexivity.
  - pose proof (process_own sc (set_fes w f) t ev) as Ho. rewrite Em in Ho. rewrite Ho. reflexivity.
Qed.

