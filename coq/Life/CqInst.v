(* The event-set instances of the generic life-cycle event loop (Life/ModelCq.v):
     - the two-list specification of des-cqueue (CQueue/Spec.v [sp]) with an event store,
     - the concrete calendar queue (CQueue/Model.v [cq]) with an event store,
   both simulate the event set [fes] of Life/Sim.v (for the calendar queue through the refinement
   relation R of C01: R_add, R_fetch, R_len, R_new_at).  Hence the life-cycle run over the calendar
   queue produces the result of the run over the specification, for all n, t >= 1, and every
   theorem of C09 / C13 about [run_script] holds for the run over the calendar queue itself.
   (The relation between [fes] and [sp] is the one of Proc/CqInst.v, restated for the events of
   this model.) *)
From Coq Require Import List Arith NArith PArith Bool Lia Permutation.
From DesVerif Require Import Common.Fuel CQueue.Model CQueue.Spec CQueue.ListX CQueue.Refine
  Life.Model Life.ModelCq Life.CqSim.
Import ListNotations.
Open Scope N_scope.

(* ---- the specification [sp] with an event store, seen as a [fes] ---- *)
Definition view (st : list fev) (x : ev) : N * fev := (etime x, nth (N.to_nat (epay x)) st (EvWake 0)).

Record SpRel (s : sp) (st : list fev) (f : fes) : Prop := {
  SR_tcur : s_tcur s = f_tcur f;
  SR_zero : map (view st) (s_zero s) = f_zero f;
  SR_rest : map (view st) (s_rest s) = f_rest f;
  SR_ids : Forall (fun x => eid x < s_next s) (s_rest s);
  SR_pay : Forall (fun x => epay x < N.of_nat (length st)) (s_zero s ++ s_rest s) }.

Lemma view_ext st e x : epay x < N.of_nat (length st) -> view (st ++ [e]) x = view st x.
Proof. intros H. unfold view. rewrite app_nth1 by lia. reflexivity. Qed.

Lemma map_view_ext st e l : Forall (fun x => epay x < N.of_nat (length st)) l -> map (view (st ++ [e])) l = map (view st) l.
Proof. intros H. apply map_ext_in. intros x Hx. apply view_ext. exact (proj1 (Forall_forall _ _) H x Hx). Qed.

Lemma view_new st e t i : view (st ++ [e]) {| etime := t; eid := i; epay := N.of_nat (length st) |} = (t, e).
Proof. unfold view. cbn [etime epay]. rewrite Nat2N.id, nth_middle. reflexivity. Qed.

(* an entry with the largest id goes behind all entries that are not later: what [fes_ins] does *)
Lemma sins_view st e l : Forall (fun x => eid x < eid e) l ->
  map (view st) (sins e l) = fes_ins (etime e) (snd (view st e)) (map (view st) l).
Proof.
  induction 1 as [|x l Hx Hl IH]; cbn [sins map fes_ins]; [reflexivity|].
  unfold key_lt. assert (E : eid e <? eid x = false) by (apply N.ltb_ge; lia).
  rewrite E, andb_false_r, orb_false_r. cbn [fst view]. destruct (etime e <? etime x); cbn [map]; [reflexivity|].
  rewrite IH. reflexivity.
Qed.

Lemma sp_add_rel s st f t e :
  SpRel s st f -> f_tcur f <= t ->
  SpRel (fst (fst (sp_add s t (N.of_nat (length st))))) (st ++ [e]) (fes_add t e f).
Proof.
  intros [Ht Hz Hr Hi Hp] Hge. unfold sp_add, fes_add. rewrite Ht.
  assert (E : t <? f_tcur f = false) by (apply N.ltb_ge; exact Hge). rewrite E.
  apply Forall_app in Hp. destruct Hp as [Hpz Hpr].
  set (x := {| etime := t; eid := s_next s; epay := N.of_nat (length st) |}).
  assert (Hlen : N.of_nat (length (st ++ [e])) = N.of_nat (length st) + 1) by (rewrite app_length; cbn [length]; lia).
  assert (Hw : forall l, Forall (fun y => epay y < N.of_nat (length st)) l -> Forall (fun y => epay y < N.of_nat (length (st ++ [e]))) l)
    by (intros l; apply Forall_impl; intros y Hy; lia).
  assert (Hx : epay x < N.of_nat (length (st ++ [e]))) by (unfold x; cbn [epay]; lia).
  destruct (t =? f_tcur f); cbn [fst]; constructor; cbn [s_tcur s_zero s_rest s_next f_tcur f_zero f_rest].
  - reflexivity.
  - rewrite map_app, (map_view_ext st e _ Hpz), Hz. cbn [map]. unfold x. rewrite view_new. reflexivity.
  - rewrite (map_view_ext st e _ Hpr). exact Hr.
  - eapply Forall_impl; [|exact Hi]. intros y Hy. cbn beta in Hy |- *. lia.
  - rewrite <- app_assoc. apply Forall_app; split; [apply Hw, Hpz|]. cbn [app]. constructor; [exact Hx|apply Hw, Hpr].
  - reflexivity.
  - rewrite (map_view_ext st e _ Hpz). exact Hz.
  - rewrite sins_view by (exact Hi). rewrite (map_view_ext st e _ Hpr), Hr.
    unfold x. rewrite view_new. reflexivity.
  - apply (Permutation_Forall (Permutation_sym (sins_perm x (s_rest s)))). constructor; [unfold x; cbn [eid]; lia|].
    eapply Forall_impl; [|exact Hi]. intros y Hy. cbn beta in Hy |- *. lia.
  - apply Forall_app; split; [apply Hw, Hpz|].
    apply (Permutation_Forall (Permutation_sym (sins_perm x (s_rest s)))). constructor; [exact Hx|apply Hw, Hpr].
Qed.

Lemma sp_fetch_rel s st f :
  SpRel s st f ->
  match fes_fetch f with
  | Some (t, e, f') => exists x s', sp_fetch s = (s', OFetched (epay x) (etime x)) /\ (t, e) = view st x /\ SpRel s' st f'
  | None => s_zero s = [] /\ s_rest s = []
  end.
Proof.
  intros [Ht Hz Hr Hi Hp]. unfold fes_fetch, sp_fetch. apply Forall_app in Hp. destruct Hp as [Hpz Hpr].
  destruct (s_zero s) as [|x z] eqn:Ez; cbn [map] in Hz; rewrite <- Hz.
  - destruct (s_rest s) as [|x r] eqn:Er; cbn [map] in Hr; rewrite <- Hr; [split; reflexivity|].
    exists x. eexists. split; [reflexivity|]. split; [reflexivity|].
    inversion Hi; subst. inversion Hpr; subst.
    constructor; cbn [s_tcur s_zero s_rest s_next f_tcur f_zero f_rest fst view map app]; auto.
  - exists x. eexists. split; [reflexivity|]. split; [reflexivity|].
    inversion Hpz; subst. constructor; cbn [s_tcur s_zero s_rest s_next f_tcur f_zero f_rest]; auto.
    apply Forall_app; split; assumption.
Qed.

Lemma SpRel_new : SpRel (sp_new_at 0) [] {| f_tcur := 0; f_zero := []; f_rest := [] |}.
Proof. constructor; cbn; auto. Qed.

(* ---- instance 1: the specification of des-cqueue ---- *)
Definition sps := (sp * list fev)%type.
Definition spq_add (t : N) (e : fev) (qs : sps) : sps :=
  (fst (fst (sp_add (fst qs) t (N.of_nat (length (snd qs))))), snd qs ++ [e]).
Definition spq_fetch (qs : sps) : option (N * fev * sps) :=
  if sp_len (fst qs) =? 0 then None
  else match sp_fetch (fst qs) with
       | (s', OFetched p t) => Some (t, nth (N.to_nat p) (snd qs) (EvWake 0), (s', snd qs))
       | _ => None
       end.
Definition RQs (f : fes) (qs : sps) : Prop := SpRel (fst qs) (snd qs) f.

Lemma sp_len_zero s : (sp_len s =? 0) = true <-> s_zero s = [] /\ s_rest s = [].
Proof.
  unfold sp_len. rewrite N.eqb_eq. split.
  - intros H. destruct (s_zero s), (s_rest s); cbn [length] in H; try lia. split; reflexivity.
  - intros [-> ->]. reflexivity.
Qed.

Lemma spq_add_sim f qs t e : RQs f qs -> f_tcur f <= t -> RQs (fes_add t e f) (spq_add t e qs).
Proof. destruct qs as [s st]. unfold RQs, spq_add. cbn [fst snd]. apply sp_add_rel. Qed.

Lemma spq_fetch_sim f qs : RQs f qs ->
  match fes_fetch f with
  | Some (t, e, f') => exists q', spq_fetch qs = Some (t, e, q') /\ RQs f' q'
  | None => spq_fetch qs = None
  end.
Proof.
  destruct qs as [s st]. unfold RQs, spq_fetch. cbn [fst snd]. intros HR.
  pose proof (sp_fetch_rel s st f HR) as H. destruct (fes_fetch f) as [[[t e] f']|].
  - destruct H as (x & s' & Hf & Hv & HR').
    assert (E : sp_len s =? 0 = false).
    { destruct (sp_len s =? 0) eqn:E; [|reflexivity]. apply sp_len_zero in E. destruct E as [Ez Er].
      unfold sp_fetch in Hf. rewrite Ez, Er in Hf. discriminate. }
    rewrite E, Hf. unfold view in Hv. injection Hv as -> ->. eexists. split; [reflexivity|exact HR'].
  - rewrite (proj2 (sp_len_zero s) H). reflexivity.
Qed.

Definition run_script_sp (sc : script) : result := grun_script sps spq_add spq_fetch (sp_new_at 0, []) sc.

Theorem run_over_sp_eq sc : run_script_sp sc = run_script sc.
Proof. apply (run_script_sim sps spq_add spq_fetch RQs spq_add_sim spq_fetch_sim). exact SpRel_new. Qed.

(* ---- instance 2: the calendar queue, through the refinement relation of C01 ---- *)
Definition RQc (f : fes) (qs : cqs) : Prop := exists s hs, R (fst qs) s hs /\ SpRel s (snd qs) f.

Lemma qlen_sp_len q s hs : R q s hs -> qlen q = sp_len s.
Proof.
  intros HR. rewrite (R_len _ _ _ HR). unfold sp_len, Refine.pend.
  rewrite (R_zero _ _ _ HR), !app_length, (Permutation_length (R_perm _ _ _ HR)). reflexivity.
Qed.

Lemma cq_add_sim f qs t e : RQc f qs -> f_tcur f <= t -> RQc (fes_add t e f) (cq_add t e qs).
Proof.
  destruct qs as [q st]. unfold RQc, cq_add. cbn [fst snd]. intros (s & hs & HR & HS) Hge.
  assert (Hq : tcur q <= t) by (rewrite (R_tcur _ _ _ HR), (SR_tcur _ _ _ HS); exact Hge).
  pose proof (R_add q s hs t (N.of_nat (length st)) HR Hq) as A.
  pose proof (sp_add_rel s st f t e HS Hge) as B.
  destruct (add q t (N.of_nat (length st))) as [[q' h] o]. destruct (sp_add s t (N.of_nat (length st))) as [[s' h'] o'].
  destruct A as (_ & _ & hd & _ & HR'). cbn [fst] in *. exists s', (hs ++ [hd]). split; assumption.
Qed.

Lemma cq_fetch_sim f qs : RQc f qs ->
  match fes_fetch f with
  | Some (t, e, f') => exists q', cq_fetch qs = Some (t, e, q') /\ RQc f' q'
  | None => cq_fetch qs = None
  end.
Proof.
  destruct qs as [q st]. unfold RQc, cq_fetch. cbn [fst snd]. intros (s & hs & HR & HS).
  pose proof (sp_fetch_rel s st f HS) as H. rewrite (qlen_sp_len _ _ _ HR).
  destruct (fes_fetch f) as [[[t e] f']|].
  - destruct H as (x & s' & Hf & Hv & HS').
    assert (E : sp_len s =? 0 = false).
    { destruct (sp_len s =? 0) eqn:E; [|reflexivity]. apply sp_len_zero in E. destruct E as [Ez Er].
      unfold sp_fetch in Hf. rewrite Ez, Er in Hf. discriminate. }
    rewrite E. pose proof (R_fetch q s hs HR) as F. destruct (fetch_next q) as [q' o]. rewrite Hf in F. destruct F as [-> HR'].
    unfold view in Hv. injection Hv as -> ->. eexists. split; [reflexivity|]. exists s', hs. split; assumption.
  - rewrite (proj2 (sp_len_zero s) H). reflexivity.
Qed.

Lemma RQc_init n t : n <> 0 -> t <> 0 -> RQc {| f_tcur := 0; f_zero := []; f_rest := [] |} (cq_init n t).
Proof. intros Hn Ht. exists (sp_new_at 0), []. split; [apply R_new_at; assumption|exact SpRel_new]. Qed.

(* every trace, and the termination flag, whatever calendar-queue parameters are chosen *)
Theorem run_script_over_cqueue n t sc : n <> 0 -> t <> 0 -> run_script_cq n t sc = run_script sc.
Proof.
  intros Hn Ht. apply (run_script_sim cqs cq_add cq_fetch RQc cq_add_sim cq_fetch_sim). apply RQc_init; assumption.
Qed.

Theorem run_over_cqueue n t input : n <> 0 -> t <> 0 -> run_cq n t input = Life.Model.run input.
Proof. intros Hn Ht. unfold run_cq, Life.Model.run. rewrite !run_script_over_cqueue by assumption.
  destruct (variant input); [rewrite run_script_over_cqueue by assumption|]; reflexivity. Qed.

Theorem flat_log_over_cqueue n t sc : n <> 0 -> t <> 0 -> flat_log_cq n t sc = flat_log sc.
Proof. intros Hn Ht. unfold flat_log_cq, flat_log, trace_cq, trace. rewrite run_script_over_cqueue by assumption. reflexivity. Qed.

Theorem trace_over_cqueue n t sc : n <> 0 -> t <> 0 -> trace_cq n t sc = trace sc.
Proof. intros Hn Ht. unfold trace_cq, trace. rewrite run_script_over_cqueue by assumption. reflexivity. Qed.
