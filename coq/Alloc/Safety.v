(* C15, memory half: the statements about every reachable allocator state and
   every history, derived from the invariant (Inv.v) and the trace lemmas
   (Hist.v); and the instances the runners use (ListNode 16/8, pages at
   (i+1) * 2^40). *)
From Coq Require Import List Arith NArith Lia Bool ZifyBool Permutation.
From DesVerif Require Import Alloc.Model Alloc.Arith Alloc.Inv Alloc.Hist.
Import ListNotations.
Open Scope N_scope.

Section Safety.
Variable base : N -> N.
Variables nsz nal page : N.
Hypothesis Hpar : params_ok nsz nal page.
Hypothesis Hora : oracle_ok base page.

Local Notation size_align := (size_align nsz nal).
Local Notation lrange := (lrange nsz nal).
Local Notation reach := (reach base nsz nal page).
Local Notation Inv := (Inv base nsz nal page).
Local Notation req_ok := (req_ok nsz nal page).
Local Notation op_ok := (op_ok nsz nal page).
Local Notation lranges := (lranges nsz nal).
Local Notation run_ops := (run_ops base nsz nal).
Local Notation reach_inv := (reach_inv base nsz nal page Hpar Hora).

Theorem live_disjoint s : reach s -> PD (lranges s).
Proof. intros H. apply reach_inv in H. eapply PD_app_r. apply (I_pd _ _ _ _ _ H). Qed.

Theorem aligned s : reach s -> forall p l, In (p, l) (live s) ->
  (snd l | p) /\ (nal | p) /\ (snd (size_align l) | p).
Proof.
  intros H p l Hin. apply reach_inv in H. pose proof (I_live _ _ _ _ _ H) as HL.
  rewrite Forall_forall in HL. destruct (HL _ Hin) as [H1 [H2 [H3 _]]]. cbn [fst snd] in *. tauto.
Qed.

Theorem inside_owned_page s : reach s ->
  pages s = map (fun i => base (N.of_nat i)) (seq 0 (length (pages s))) /\
  forall p l, In (p, l) (live s) ->
    exists b, In b (pages s) /\ b <= p /\ p + fst (size_align l) <= b + page.
Proof.
  intros H. apply reach_inv in H. split; [apply (I_pages _ _ _ _ _ H)|]. intros p l Hin.
  pose proof (I_live _ _ _ _ _ H) as HL. rewrite Forall_forall in HL.
  destruct (HL _ Hin) as [_ [_ [_ [b [Hb Hs]]]]]. exists b. split; [exact Hb|].
  unfold sub, rend in Hs. cbn [Model.lrange fst snd] in Hs. exact Hs.
Qed.

Theorem free_list_disjoint_from_live s : reach s ->
  PD (free s) /\
  (forall r e, In r (free s) -> In e (live s) -> disj r (lrange e)) /\
  (forall r, In r (free s) -> exists b, In b (pages s) /\ b <= fst r /\ fst r + snd r <= b + page).
Proof.
  intros H. apply reach_inv in H. pose proof (I_pd _ _ _ _ _ H) as HP. unfold ranges in HP. split; [|split].
  - eapply PD_app_l. exact HP.
  - intros r e Hr He. eapply PD_In_disj; [exact HP|exact Hr|]. unfold Inv.lranges. apply in_map. exact He.
  - intros r Hr. pose proof (I_free _ _ _ _ _ H) as HF. rewrite Forall_forall in HF.
    destruct (HF _ Hr) as [_ [_ [b [Hb Hs]]]]. exists b. split; [exact Hb|]. unfold sub, rend in Hs. cbn [fst snd] in Hs. lia.
Qed.

Theorem allocated_mem_formula s : reach s -> allocated_mem s = sum_sizes nsz nal (live s).
Proof. intros H. apply reach_inv in H. apply (I_mem _ _ _ _ _ H). Qed.

(* allocate terminates with ANY non-zero fuel (so the unbounded recursion of the
   Rust code returns) with the same result, does not panic and adds at most one
   page; a request larger than a page is refused without any effect *)
Theorem alloc_total s l : reach s -> req_ok l ->
  (page < fst (size_align l) /\ forall f, allocate_f base nsz nal f s l = AErr) \/
  (exists s' p, (forall f, allocate_f base nsz nal (S f) s l = AOk s' p) /\ reach s' /\
                (length (pages s') <= S (length (pages s)))%nat).
Proof.
  intros H Hok. pose proof (reach_inv _ H) as HI.
  destruct (allocate_ok base nsz nal page Hpar Hora s l HI Hok) as [[H1 H2]|[_ [s' [p [E [_ [_ [Hpg _]]]]]]]].
  - left. split; assumption.
  - right. exists s', p. split; [exact E|]. split.
    + pose proof (reach_step base nsz nal page s (OAlloc (fst l) (snd l)) H) as Hr.
      cbn [Hist.op_ok] in Hr. rewrite <- surjective_pairing in Hr. specialize (Hr Hok).
      cbn [Model.step] in Hr. destruct Hok as [Hp2 _]. rewrite (is_pow2_complete _ Hp2) in Hr. cbn [negb] in Hr.
      rewrite <- surjective_pairing in Hr. unfold allocate in Hr. change FUEL with (S 3) in Hr.
      rewrite E in Hr. exact Hr.
    + destruct Hpg as [->| ->]; [lia|]. rewrite app_length. cbn [length]. lia.
Qed.

(* deallocate of a live block does not panic *)
Theorem dealloc_total s k : reach s -> (k < length (live s))%nat ->
  exists s' p size, deallocate nsz nal s k = DOk s' p size /\ reach s'.
Proof.
  intros H Hk. pose proof (reach_inv _ H) as HI.
  destruct (nth_error (live s) k) as [[p l]|] eqn:En; [|apply nth_error_None in En; lia].
  destruct (deallocate_ok base nsz nal page Hpar Hora s k p l HI En) as [s' [E _]].
  exists s', p, (fst (size_align l)). split; [exact E|].
  pose proof (reach_step base nsz nal page s (OFree (N.of_nat k)) H I) as Hr. cbn [Model.step] in Hr.
  destruct (live s) as [|e0 lv] eqn:El; [cbn in Hk; lia|]. rewrite <- El in *.
  assert (Hm : N.to_nat (N.of_nat k mod N.of_nat (length (live s))) = k).
  { rewrite N.mod_small by lia. apply Nat2N.id. }
  rewrite Hm, E in Hr. exact Hr.
Qed.

(* no history that respects the guard panics or runs out of fuel: the run is as
   long as the script and every intermediate state is reachable-invariant *)
Theorem history_total s0 ops : init base nsz nal page = Some s0 -> Forall op_ok ops ->
  length (run_ops s0 ops) = length ops /\
  Forall (fun x => halting (fst x) = false /\ Inv (snd x)) (run_ops s0 ops).
Proof.
  intros Hi Hok. apply (run_ops_total base nsz nal page Hpar Hora); [|exact Hok].
  apply reach_inv. apply reach_init. exact Hi.
Qed.

(* memory is reused only after it was released: if two allocate calls of a
   history return overlapping blocks, the first block was deallocated in between *)
Theorem reuse_only_after_free s0 ops : init base nsz nal page = Some s0 -> Forall op_ok ops ->
  forall pre p1 s1 a1 st1 mid p2 s2 a2 st2 post,
    run_ops s0 ops = pre ++ (RAlloc p1 s1 a1, st1) :: mid ++ (RAlloc p2 s2 a2, st2) :: post ->
    In (RFree p1 s1) (map fst mid) \/ disj (p1, s1) (p2, s2).
Proof.
  intros Hi Hok. apply (reuse_only_after_free_from base nsz nal page Hpar Hora); [|exact Hok].
  apply reach_inv. apply reach_init. exact Hi.
Qed.

Theorem init_total : exists s0, init base nsz nal page = Some s0 /\ reach s0.
Proof.
  destruct (init_ok base nsz nal page Hpar Hora) as [s0 [E _]]. exists s0. split; [exact E|]. apply reach_init. exact E.
Qed.

End Safety.

(* ---- the instances used by the runners ---- *)
Lemma params_ok_16_8 page : pow2 page -> 64 <= page -> params_ok 16 8 page.
Proof.
  intros Hp Hle. constructor; try lia; try assumption.
  - exists 3. reflexivity.
  - exists 2. reflexivity.
Qed.

Lemma sym_oracle_ok page : pow2 page -> page <= 2 ^ 40 -> oracle_ok sym_base page.
Proof.
  intros Hp Hle. assert (Hd : (page | 2 ^ 40)) by (apply pow2_divide; [assumption|exists 40; reflexivity|assumption]).
  constructor; unfold sym_base.
  - intros i. apply N.divide_mul_r. exact Hd.
  - intros i j Hne. set (B := 2 ^ 40) in *. nia.
Qed.
