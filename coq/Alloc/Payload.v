(* C15, payload half, on the model side: corollaries of C01's accounting
   theorem (CQueue/SpecProps.v: exactly_once, fetched_are_ghost) and of the
   refinement theorem (CQueue/Sim.v), phrased as statements about destructor
   runs.  A payload's destructor runs in exactly three places: in the caller,
   for a payload that fetch returned (linked_list.rs pop_min moves the value
   out of the node); inside cancel (the node is dropped with its value); and
   when the queue is dropped, for everything still pending (Drop for
   DualLinkedList pops every node; the VecDeque of the zero bucket drops its
   elements).  The drop log of a history followed by the drop of the queue is
   therefore fetched ++ cancelled ++ pending. *)
From Coq Require Import List NArith Permutation.
From DesVerif Require Import CQueue.Model CQueue.Spec CQueue.Sim CQueue.SpecProps.
Import ListNotations.
Open Scope N_scope.

Definition drop_log (a : sst) (g : ghost) : list ev := g_fetched g ++ g_cancelled g ++ spend (ss a).

(* every payload moved into the queue is dropped exactly once, and nothing else is dropped *)
Theorem payload_dropped_exactly_once ts ops :
  let a := fst (ghost_run (sp_init_at ts) g0 ops) in
  let g := snd (ghost_run (sp_init_at ts) g0 ops) in
  (forall e, In e (g_added g) <-> In e (drop_log a g)) /\
  (forall e, In e (g_added g) -> count_occ N.eq_dec (map eid (drop_log a g)) (eid e) = 1%nat) /\
  NoDup (map eid (g_added g)).
Proof.
  cbn zeta. destruct (exactly_once ts ops) as [P ND]. fold (drop_log (fst (ghost_run (sp_init_at ts) g0 ops)) (snd (ghost_run (sp_init_at ts) g0 ops))) in *.
  split; [|split].
  - intros e. split; apply Permutation_in; [exact P|symmetry; exact P].
  - intros e He. apply NoDup_count_occ'; [exact ND|]. apply in_map. eapply Permutation_in; eassumption.
  - eapply Permutation_NoDup; [apply Permutation_map; symmetry; exact P|exact ND].
Qed.

(* what fetch returns is, in order, the payload and the scheduling time of an
   event that was inserted (same id, same payload value, same time): payloads
   come back as inserted; stated of the calendar-queue model for every n, t *)
Theorem payload_returned_as_inserted n t ts ops : n <> 0 -> t <> 0 ->
  let g := snd (ghost_run (sp_init_at ts) g0 ops) in
  fetched_outs (run_ops_at true n t ts ops) = map (fun x => (epay x, etime x)) (g_fetched g) /\
  (forall e, In e (g_fetched g) -> In e (g_added g)).
Proof.
  intros Hn Ht. cbn zeta. rewrite (cq_refines_at n t ts ops Hn Ht). split; [apply fetched_are_ghost|].
  intros e He. destruct (exactly_once ts ops) as [P _]. eapply Permutation_in; [symmetry; exact P|].
  apply in_or_app. left. exact He.
Qed.
