(* The representation invariant of the allocator model and its preservation by
   add_page, allocate and deallocate, for every page size that is a power of
   two, every node size/alignment, and every page oracle that hands out
   page-aligned pairwise disjoint pages. *)
From Coq Require Import List Arith NArith Lia Bool ZifyBool Permutation.
From DesVerif Require Import Alloc.Model Alloc.Arith.
Import ListNotations.
Open Scope N_scope.

(* the excluded corner: a fresh page leaves a tail of 1 .. nsz-1 bytes *)
Definition in_band (nsz page s : N) : Prop := s < page /\ page < s + nsz.

(* the parameters: page size and node alignment are powers of two, a node fits a page *)
Record params_ok (nsz nal page : N) : Prop := {
  P_page : pow2 page;
  P_nal : pow2 nal;
  P_nal_le : nal <= page;
  P_nsz_pos : 0 < nsz;
  P_nsz_al : (nal | nsz);
  P_nsz_le : nsz <= page
}.

(* the oracle assumption: the system allocator hands out page-aligned, pairwise disjoint pages *)
Record oracle_ok (base : N -> N) (page : N) : Prop := {
  O_aligned : forall i, (page | base i);
  O_disjoint : forall i j, i <> j -> base i + page <= base j \/ base j + page <= base i
}.

Section Inv.
Variable base : N -> N.
Variables nsz nal page : N.

Local Notation size_align := (size_align nsz nal).
Local Notation lrange := (lrange nsz nal).
Local Notation add_free_region := (add_free_region nsz nal).
Local Notation add_page := (add_page base nsz nal).
Local Notation alloc_from_region := (alloc_from_region nsz).
Local Notation scan := (scan nsz).
Local Notation find_region := (find_region base nsz nal).
Local Notation allocate_f := (allocate_f base nsz nal).
Local Notation deallocate := (deallocate nsz nal).

Definition in_page (ps : list N) (r : region) : Prop := exists p, In p ps /\ sub r (p, page).
Definition lranges (s : st) : list region := map lrange (live s).
Definition ranges (s : st) : list region := free s ++ lranges s.
Definition sum_sizes (l : list (N * layout)) : N := fold_right (fun e acc => snd (lrange e) + acc) 0 l.

Record Inv (s : st) : Prop := {
  I_psz : page_size s = page;
  I_pages : pages s = map (fun i => base (N.of_nat i)) (seq 0 (length (pages s)));
  I_free : Forall (fun r => (nal | fst r) /\ nsz <= snd r /\ in_page (pages s) r) (free s);
  I_live : Forall (fun e => (snd (size_align (snd e)) | fst e) /\ (snd (snd e) | fst e) /\ (nal | fst e) /\
                            in_page (pages s) (lrange e)) (live s);
  I_pd : PD (ranges s);
  I_mem : allocated_mem s = sum_sizes (live s)
}.

(* the guard on a request: power-of-two alignment that a page can satisfy, and
   an adjusted size outside the band (larger than a page is fine: refused) *)
Definition req_ok (l : layout) : Prop :=
  pow2 (snd l) /\ snd l <= page /\ ~ in_band nsz page (fst (size_align l)).

Hypothesis Hpage : pow2 page.
Hypothesis Hnal : pow2 nal.
Hypothesis Hnal_le : nal <= page.
Hypothesis Hnsz_pos : 0 < nsz.
Hypothesis Hnsz_al : (nal | nsz).
Hypothesis Hnsz_le : nsz <= page.
Hypothesis Hbase_al : forall i, (page | base i).
Hypothesis Hbase_disj : forall i j, i <> j -> base i + page <= base j \/ base j + page <= base i.

Lemma perm_snoc {A} (x : A) t X L : Permutation (x :: t ++ X ++ L) ((t ++ X) ++ L ++ [x]).
Proof. rewrite (app_assoc (t ++ X) L [x]), (app_assoc t X L). apply Permutation_cons_append. Qed.

Lemma in_page_mono ps ps' r : incl ps ps' -> in_page ps r -> in_page ps' r.
Proof. intros Hi [p [Hp Hs]]. exists p. split; [apply Hi, Hp|exact Hs]. Qed.

Lemma in_page_sub ps r r' : sub r' r -> in_page ps r -> in_page ps r'.
Proof. intros Hs [p [Hp Hr]]. exists p. split; [exact Hp|eapply sub_trans; eassumption]. Qed.

Lemma ranges_in_page s : Inv s -> Forall (in_page (pages s)) (ranges s).
Proof.
  intros HI. unfold ranges, lranges. apply Forall_app. split.
  - eapply Forall_impl; [|apply (I_free _ HI)]. cbn beta. tauto.
  - apply Forall_map. eapply Forall_impl; [|apply (I_live _ HI)]. cbn beta. tauto.
Qed.

Lemma sum_sizes_app l1 l2 : sum_sizes (l1 ++ l2) = sum_sizes l1 + sum_sizes l2.
Proof. induction l1 as [|x l1 IH]; cbn [app sum_sizes fold_right]; [reflexivity|]. fold (sum_sizes (l1 ++ l2)). fold (sum_sizes l1). lia. Qed.

Lemma sum_sizes_cons e l : sum_sizes (e :: l) = snd (lrange e) + sum_sizes l.
Proof. reflexivity. Qed.

Lemma add_free_region_ok s a sz : (nal | a) -> nsz <= sz ->
  add_free_region s a sz = Some (set_free s ((a, sz) :: free s)).
Proof.
  intros Ha Hs. unfold Model.add_free_region. rewrite (align_up_fix _ _ Hnal Ha), N.eqb_refl. cbn [negb].
  destruct (sz <? nsz) eqn:E; [lia|reflexivity].
Qed.

(* ---- add_page ---- *)
Lemma add_page_spec s : Inv s ->
  let b := base (N.of_nat (length (pages s))) in
  exists s', add_page s = Some s' /\ Inv s' /\ free s' = (b, page) :: free s /\ pages s' = pages s ++ [b] /\
             live s' = live s /\ allocated_mem s' = allocated_mem s.
Proof.
  intros HI b. unfold Model.add_page. fold b. rewrite (I_psz _ HI).
  assert (Hb : (nal | b)).
  { eapply N.divide_trans; [|apply Hbase_al]. apply pow2_divide; assumption. }
  rewrite add_free_region_ok by assumption. eexists. split; [reflexivity|].
  cbn [set_free set_pages free pages live allocated_mem page_size]. split; [|repeat split].
  assert (Hincl : incl (pages s) (pages s ++ [b])) by (intros x Hx; apply in_or_app; left; exact Hx).
  constructor; cbn [set_free set_pages free pages live allocated_mem page_size].
  - apply (I_psz _ HI).
  - rewrite app_length. cbn [length]. rewrite Nat.add_1_r, seq_S, map_app. cbn [map Nat.add].
    rewrite <- (I_pages _ HI). reflexivity.
  - constructor.
    + cbn [fst snd]. split; [exact Hb|]. split; [exact Hnsz_le|].
      exists b. split; [apply in_or_app; right; left; reflexivity|]. unfold sub, rend. cbn [fst snd]. lia.
    + eapply Forall_impl; [|apply (I_free _ HI)]. cbn beta. intros r [H1 [H2 H3]].
      split; [exact H1|]. split; [exact H2|]. eapply in_page_mono; eassumption.
  - eapply Forall_impl; [|apply (I_live _ HI)]. cbn beta. intros e [H1 [H2 [H3 H4]]].
    repeat split; try assumption. eapply in_page_mono; eassumption.
  - unfold ranges, lranges. cbn [free live app PD]. split; [|apply (I_pd _ HI)].
    eapply Forall_impl; [|apply (ranges_in_page _ HI)]. cbn beta. intros r [p [Hp Hs]].
    rewrite (I_pages _ HI) in Hp. apply in_map_iff in Hp. destruct Hp as [i [<- Hi]]. apply in_seq in Hi.
    assert (Hne : N.of_nat (length (pages s)) <> N.of_nat i) by lia.
    specialize (Hbase_disj _ _ Hne). fold b in Hbase_disj.
    unfold disj, sub, rend in *. cbn [fst snd] in *. lia.
  - apply (I_mem _ HI).
Qed.

(* ---- scan / alloc_from_region ---- *)
Lemma scan_spec l size al r a rest : scan l size al = Some (r, a, rest) ->
  exists l1 l2, l = l1 ++ r :: l2 /\ rest = l1 ++ l2 /\ alloc_from_region r size al = Some a.
Proof.
  revert r a rest. induction l as [|x l IH]; intros r a rest; cbn [Model.scan]; [discriminate|].
  destruct (alloc_from_region x size al) as [a0|] eqn:E.
  - intros [= <- <- <-]. exists [], l. repeat split. exact E.
  - destruct (scan l size al) as [[[r' a'] t']|] eqn:Es; [|discriminate].
    intros [= <- <- <-]. destruct (IH _ _ _ eq_refl) as [l1 [l2 [-> [-> H]]]].
    exists (x :: l1), l2. repeat split. exact H.
Qed.

Lemma afr_spec r size al a : pow2 al -> alloc_from_region r size al = Some a ->
  a = align_up (fst r) al /\ fst r <= a /\ a + size <= rend r /\ (al | a) /\
  (rend r - (a + size) = 0 \/ nsz <= rend r - (a + size)).
Proof.
  intros Hal. unfold Model.alloc_from_region, rend.
  destruct (align_up_spec (fst r) al Hal) as [H1 [H2 H3]].
  destruct (fst r + snd r <? align_up (fst r) al + size) eqn:E1; [discriminate|].
  destruct ((0 <? fst r + snd r - (align_up (fst r) al + size)) && (fst r + snd r - (align_up (fst r) al + size) <? nsz)) eqn:E2;
    [discriminate|].
  intros [= <-]. repeat split; try assumption; lia.
Qed.

Lemma afr_fresh b size al : (page | b) -> pow2 al -> al <= page -> size <= page -> ~ in_band nsz page size ->
  alloc_from_region (b, page) size al = Some b.
Proof.
  intros Hb Hal Hle Hs Hband. unfold Model.alloc_from_region. cbn [fst snd].
  assert (Hd : (al | b)) by (apply (N.divide_trans _ page); [apply pow2_divide; assumption|exact Hb]).
  rewrite (align_up_fix _ _ Hal Hd). unfold in_band in Hband.
  destruct (b + page <? b + size) eqn:E1; [lia|].
  destruct ((0 <? b + page - (b + size)) && (b + page - (b + size) <? nsz)) eqn:E2; [lia|reflexivity].
Qed.

Lemma find_region_found f s size al r a rest : scan (free s) size al = Some (r, a, rest) ->
  find_region f s size al = Found (set_free s rest) r a.
Proof. intros H. destruct f; cbn [Model.find_region]; rewrite H; reflexivity. Qed.

(* find_region terminates with any non-zero fuel, adding at most one page *)
Lemma find_region_spec s size al : Inv s -> pow2 al -> al <= page -> size <= page -> ~ in_band nsz page size ->
  exists s0 l1 r l2 a,
    (forall f, find_region (S f) s size al = Found (set_free s0 (l1 ++ l2)) r a) /\ Inv s0 /\ free s0 = l1 ++ r :: l2 /\
    alloc_from_region r size al = Some a /\ live s0 = live s /\ allocated_mem s0 = allocated_mem s /\
    (pages s0 = pages s \/ pages s0 = pages s ++ [base (N.of_nat (length (pages s)))]).
Proof.
  intros HI Hal Hle Hs Hband.
  destruct (scan (free s) size al) as [[[r a] rest]|] eqn:Es.
  - destruct (scan_spec _ _ _ _ _ _ Es) as [l1 [l2 [E1 [-> Ha]]]].
    exists s, l1, r, l2, a. repeat apply conj; try assumption; try reflexivity.
    + intros f. apply find_region_found. exact Es.
    + left. reflexivity.
  - destruct (add_page_spec s HI) as [s0 [E0 [HI0 [Hf0 [Hp0 [Hl0 Hm0]]]]]].
    set (b := base (N.of_nat (length (pages s)))) in *.
    assert (Hfit : alloc_from_region (b, page) size al = Some b) by (apply afr_fresh; try assumption; apply Hbase_al).
    assert (Es0 : scan (free s0) size al = Some ((b, page), b, free s)).
    { rewrite Hf0. cbn [Model.scan]. rewrite Hfit. reflexivity. }
    exists s0, [], (b, page), (free s), b. cbn [app].
    repeat apply conj; try assumption; try reflexivity.
    + intros f. cbn [Model.find_region]. rewrite Es, E0. apply find_region_found. exact Es0.
    + right. exact Hp0.
Qed.

(* ---- allocate ---- *)
Lemma allocate_f_unfold fuel s l :
  allocate_f fuel s l =
  let size := fst (size_align l) in
  let align := snd (size_align l) in
  if page_size s <? size then AErr else
  match find_region fuel s size align with
  | FPanic => APanic
  | FOutOfFuel s' => AOutOfFuel s'
  | Found s1 r alloc_start =>
    let excess_size := fst r + snd r - (alloc_start + size) in
    match (if (0 <? excess_size) && negb (excess_size <? size)
           then add_free_region s1 (alloc_start + size) excess_size else Some s1) with
    | None => APanic
    | Some s2 => AOk (set_mem s2 (allocated_mem s2 + size) (live s2 ++ [(alloc_start, l)])) alloc_start
    end
  end.
Proof. unfold Model.allocate_f. destruct (size_align l) as [size al]. reflexivity. Qed.

(* the state after the block [a, a+size) was carved out of the free region r,
   with the tail [tl] (empty, or the one region behind the block) put back *)
Lemma Inv_carve s0 l1 r l2 a l tl :
  Inv s0 -> free s0 = l1 ++ r :: l2 ->
  let size := fst (size_align l) in
  fst r <= a -> a + size <= rend r ->
  (snd (size_align l) | a) -> (snd l | a) -> (nal | a) -> nsz <= size ->
  (tl = [] \/ (tl = [(a + size, rend r - (a + size))] /\ (nal | a + size) /\ nsz <= rend r - (a + size))) ->
  Inv {| free := tl ++ l1 ++ l2; pages := pages s0; page_size := page_size s0;
         allocated_mem := allocated_mem s0 + size; live := live s0 ++ [(a, l)] |} /\
  Forall (disj (a, size)) (lranges s0).
Proof.
  intros HI Hfree size Hlo Hhi Hal Hreq Hnala Hsz Htl.
  pose proof (I_free _ HI) as HF. rewrite Hfree in HF.
  pose proof (Forall_elt _ _ _ HF) as [Hr1 [Hr2 Hr3]].
  assert (HF' : Forall (fun r => (nal | fst r) /\ nsz <= snd r /\ in_page (pages s0) r) (l1 ++ l2)).
  { apply Forall_app in HF. destruct HF as [HF1 HF2]. inversion HF2; subst. apply Forall_app. split; assumption. }
  pose proof (I_pd _ HI) as HP. unfold ranges in HP. rewrite Hfree in HP.
  assert (HP' : PD (r :: (l1 ++ l2) ++ lranges s0)).
  { eapply PD_perm; [|exact HP]. rewrite <- !app_assoc. cbn [app]. symmetry. apply Permutation_middle. }
  cbn [PD] in HP'. destruct HP' as [HrX HX].
  set (N0 := (a, size)).
  assert (HsubN : sub N0 r) by (unfold sub, rend, N0 in *; cbn [fst snd]; lia).
  assert (HNX : Forall (disj N0) ((l1 ++ l2) ++ lranges s0)) by (eapply Forall_disj_sub; eassumption).
  split.
  - constructor; cbn [free pages page_size allocated_mem live].
    + apply (I_psz _ HI).
    + apply (I_pages _ HI).
    + apply Forall_app. split; [|exact HF'].
      destruct Htl as [->|[-> [Ht1 Ht2]]]; constructor; [|constructor]. cbn [fst snd].
      split; [exact Ht1|]. split; [exact Ht2|]. eapply in_page_sub; [|exact Hr3].
      unfold sub, rend in *. cbn [fst snd]. lia.
    + apply Forall_app. split; [apply (I_live _ HI)|]. constructor; [|constructor]. cbn [fst snd].
      repeat split; try assumption. eapply in_page_sub; [|exact Hr3]. exact HsubN.
    + unfold ranges, lranges. cbn [free live]. rewrite map_app. cbn [map]. change (lrange (a, l)) with N0.
      fold (lranges s0).
      apply PD_perm with (l := N0 :: tl ++ (l1 ++ l2) ++ lranges s0); [apply perm_snoc|].
      destruct Htl as [->|[-> [Ht1 Ht2]]]; cbn [app].
      * cbn [PD]. split; assumption.
      * set (T := (a + size, rend r - (a + size))).
        assert (HsubT : sub T r) by (unfold sub, T, rend in *; cbn [fst snd]; lia).
        cbn [PD]. split; [constructor; [|exact HNX]|split; [eapply Forall_disj_sub; eassumption|exact HX]].
        unfold disj, N0, T, rend. cbn [fst snd]. lia.
    + rewrite sum_sizes_app. cbn [sum_sizes fold_right]. change (snd (lrange (a, l))) with size.
      rewrite (I_mem _ HI). lia.
  - apply Forall_app in HNX. apply HNX.
Qed.

Lemma size_align_al_le l : snd l <= page -> snd (size_align l) <= page.
Proof. cbn [Model.size_align snd]. lia. Qed.

Theorem allocate_spec s l : Inv s -> req_ok l ->
  let size := fst (size_align l) in
  (page < size /\ forall f, allocate_f f s l = AErr) \/
  (size <= page /\ exists s' p,
     (forall f, allocate_f (S f) s l = AOk s' p) /\ Inv s' /\ live s' = live s ++ [(p, l)] /\
     (pages s' = pages s \/ pages s' = pages s ++ [base (N.of_nat (length (pages s)))]) /\
     Forall (disj (p, size)) (lranges s)).
Proof.
  intros HI [Hp2 [Hle Hband]] size.
  destruct (size_align_spec nsz nal Hnal Hnsz_al l Hp2) as (Hal2 & Hnal_al & Hreq_al & Hs_ge & Hs_req & Hs_nal).
  fold size in Hs_ge, Hs_req, Hs_nal, Hband.
  destruct (page <? size) eqn:Epg.
  { left. split; [lia|]. intros f. rewrite allocate_f_unfold. cbn zeta. fold size. rewrite (I_psz _ HI), Epg. reflexivity. }
  right. split; [lia|].
  assert (Hsz : size <= page) by lia.
  destruct (find_region_spec s size _ HI Hal2 (size_align_al_le l Hle) Hsz Hband)
    as (s0 & l1 & r & l2 & a & Hfind & HI0 & Hfree0 & Hafr & Hlive0 & Hmem0 & Hpages0).
  destruct (afr_spec _ _ _ _ Hal2 Hafr) as (_ & Hlo & Hhi & Hala & Hex).
  assert (Hnala : (nal | a)) by (exact (N.divide_trans _ _ _ Hnal_al Hala)).
  assert (Hreqa : (snd l | a)) by (exact (N.divide_trans _ _ _ Hreq_al Hala)).
  assert (Hunf : forall f, allocate_f (S f) s l =
    match (if (0 <? fst r + snd r - (a + size)) && negb (fst r + snd r - (a + size) <? size)
           then add_free_region (set_free s0 (l1 ++ l2)) (a + size) (fst r + snd r - (a + size))
           else Some (set_free s0 (l1 ++ l2))) with
    | None => APanic
    | Some s2 => AOk (set_mem s2 (allocated_mem s2 + size) (live s2 ++ [(a, l)])) a
    end).
  { intros f. rewrite allocate_f_unfold. cbn zeta. fold size. rewrite (I_psz _ HI), Epg, Hfind. reflexivity. }
  unfold rend in *.
  destruct ((0 <? fst r + snd r - (a + size)) && negb (fst r + snd r - (a + size) <? size)) eqn:Etail.
  - assert (Hna : (nal | a + size)) by (apply N.divide_add_r; assumption).
    rewrite add_free_region_ok in Hunf by (try assumption; lia).
    cbn [set_free set_mem free pages page_size allocated_mem live] in Hunf.
    destruct (Inv_carve s0 l1 r l2 a l [(a + size, fst r + snd r - (a + size))] HI0 Hfree0) as [HI' Hd];
      try assumption; try (unfold rend; lia).
    { right. unfold rend. repeat split; try assumption. lia. }
    eexists _, a. split; [exact Hunf|]. split; [exact HI'|].
    cbn [set_free set_mem live pages]. rewrite Hlive0. split; [reflexivity|]. split; [exact Hpages0|].
    unfold lranges in *. rewrite <- Hlive0. exact Hd.
  - cbn [set_free set_mem free pages page_size allocated_mem live] in Hunf.
    destruct (Inv_carve s0 l1 r l2 a l [] HI0 Hfree0) as [HI' Hd];
      try assumption; try (unfold rend; lia).
    { left. reflexivity. }
    eexists _, a. split; [exact Hunf|]. split; [exact HI'|].
    cbn [set_free set_mem live pages]. rewrite Hlive0. split; [reflexivity|]. split; [exact Hpages0|].
    unfold lranges in *. rewrite <- Hlive0. exact Hd.
Qed.

(* ---- deallocate ---- *)
Theorem deallocate_spec s k p l : Inv s -> nth_error (live s) k = Some (p, l) ->
  exists s', deallocate s k = DOk s' p (fst (size_align l)) /\ Inv s' /\
             live s' = remove_nth k (live s) /\ pages s' = pages s.
Proof.
  intros HI Hk. unfold Model.deallocate. rewrite Hk.
  destruct (remove_nth_split _ _ _ Hk) as [la [lb [Ela Erm]]].
  pose proof (I_live _ HI) as HL. rewrite Ela in HL.
  pose proof (Forall_elt _ _ _ HL) as [He1 [He2 [He3 He4]]]. cbn [fst snd] in He1, He2, He3.
  set (size := fst (size_align l)) in *.
  assert (Hmem : allocated_mem s = sum_sizes (la ++ lb) + size).
  { rewrite (I_mem _ HI), Ela, !sum_sizes_app, sum_sizes_cons. change (snd (lrange (p, l))) with size. lia. }
  destruct (allocated_mem s <? size) eqn:E; [lia|].
  assert (Hsz : nsz <= size) by (unfold size; cbn [Model.size_align fst]; lia).
  rewrite add_free_region_ok by assumption. eexists. split; [reflexivity|].
  cbn [set_free set_mem free pages page_size allocated_mem live]. split; [|split; reflexivity].
  constructor; cbn [set_free set_mem free pages page_size allocated_mem live].
  - apply (I_psz _ HI).
  - apply (I_pages _ HI).
  - constructor; [|apply (I_free _ HI)]. cbn [fst snd]. repeat split; assumption.
  - rewrite Erm. apply Forall_app in HL. destruct HL as [HL1 HL2]. inversion HL2; subst. apply Forall_app. split; assumption.
  - pose proof (I_pd _ HI) as HP. unfold ranges, lranges in *. cbn [set_free set_mem free live]. rewrite Erm.
    rewrite Ela in HP. rewrite map_app in *. cbn [map] in HP. change (lrange (p, l)) with (p, size) in HP.
    eapply PD_perm; [|exact HP]. cbn [app].
    rewrite app_assoc. rewrite (app_assoc (free s)). symmetry. apply Permutation_middle.
  - rewrite Erm. lia.
Qed.

(* ---- with_page_size ---- *)
Theorem init_spec : exists s, init base nsz nal page = Some s /\ Inv s /\ live s = [] /\ length (pages s) = 1%nat.
Proof.
  set (e := {| free := []; pages := []; page_size := page; allocated_mem := 0; live := [] |}).
  assert (HIe : Inv e).
  { constructor; cbn; try constructor; reflexivity. }
  destruct (add_page_spec e HIe) as [s [E [HI [_ [Hp [Hl _]]]]]].
  exists s. unfold Model.init. fold e. split; [exact E|]. split; [exact HI|]. split; [exact Hl|]. rewrite Hp. reflexivity.
Qed.

End Inv.

(* the same statements under the two bundled assumptions *)
Section Bundled.
Variable base : N -> N.
Variables nsz nal page : N.
Hypothesis Hpar : params_ok nsz nal page.
Hypothesis Hora : oracle_ok base page.

Lemma allocate_ok s l : Inv base nsz nal page s -> req_ok nsz nal page l ->
  let size := fst (size_align nsz nal l) in
  (page < size /\ forall f, allocate_f base nsz nal f s l = AErr) \/
  (size <= page /\ exists s' p,
     (forall f, allocate_f base nsz nal (S f) s l = AOk s' p) /\ Inv base nsz nal page s' /\ live s' = live s ++ [(p, l)] /\
     (pages s' = pages s \/ pages s' = pages s ++ [base (N.of_nat (length (pages s)))]) /\
     Forall (disj (p, size)) (lranges nsz nal s)).
Proof. destruct Hpar, Hora. apply allocate_spec; assumption. Qed.

Lemma deallocate_ok s k p l : Inv base nsz nal page s -> nth_error (live s) k = Some (p, l) ->
  exists s', deallocate nsz nal s k = DOk s' p (fst (size_align nsz nal l)) /\ Inv base nsz nal page s' /\
             live s' = remove_nth k (live s) /\ pages s' = pages s.
Proof. destruct Hpar, Hora. apply deallocate_spec; assumption. Qed.

Lemma init_ok : exists s, init base nsz nal page = Some s /\ Inv base nsz nal page s /\ live s = [] /\ length (pages s) = 1%nat.
Proof. destruct Hpar, Hora. apply init_spec; assumption. Qed.
End Bundled.
