(* Address arithmetic of the allocator model: powers of two, align_up,
   size_align, regions (disjointness, inclusion) and pairwise disjointness of
   region lists up to permutation. *)
From Coq Require Import List NArith Lia Bool ZifyBool Permutation.
From DesVerif Require Import Alloc.Model.
Import ListNotations.
Open Scope N_scope.

Definition pow2 (x : N) : Prop := exists k, x = 2 ^ k.

Lemma pow2_pos x : pow2 x -> 0 < x.
Proof. intros [k ->]. apply N.neq_0_lt_0. apply N.pow_nonzero. discriminate. Qed.

Lemma pow2_divide a b : pow2 a -> pow2 b -> a <= b -> (a | b).
Proof.
  intros [i ->] [j ->] Hle. apply N.pow_le_mono_r_iff in Hle; [|lia].
  exists (2 ^ (j - i)). rewrite <- N.pow_add_r. f_equal. lia.
Qed.

Lemma pow2_max a b : pow2 a -> pow2 b -> pow2 (N.max a b).
Proof. intros Ha Hb. destruct (N.max_spec a b) as [[_ ->]|[_ ->]]; assumption. Qed.

Lemma is_pow2_sound x : is_pow2 x = true -> pow2 x.
Proof.
  unfold is_pow2. intros H. apply andb_prop in H. destruct H as [_ H].
  apply N.eqb_eq in H. exists (N.log2 x). exact H.
Qed.

Lemma is_pow2_complete x : pow2 x -> is_pow2 x = true.
Proof.
  intros [k ->]. unfold is_pow2. rewrite N.log2_pow2 by lia. rewrite N.eqb_refl.
  assert (2 ^ k <> 0) by (apply N.pow_nonzero; discriminate).
  destruct (N.eqb_spec (2 ^ k) 0); [contradiction|reflexivity].
Qed.

(* ---- align_up ---- *)
Lemma align_up_eq a k : align_up a (2 ^ k) = ((a + 2 ^ k - 1) / 2 ^ k) * 2 ^ k.
Proof.
  unfold align_up.
  replace (2 ^ k - 1) with (N.ones k) by (rewrite N.ones_equiv, N.pred_sub; reflexivity).
  rewrite N.ldiff_ones_r, N.shiftl_mul_pow2, N.shiftr_div_pow2. reflexivity.
Qed.

Lemma align_up_spec a al : pow2 al -> a <= align_up a al /\ align_up a al < a + al /\ (al | align_up a al).
Proof.
  intros [k ->]. rewrite align_up_eq.
  assert (Hd : 2 ^ k <> 0) by (apply N.pow_nonzero; discriminate).
  set (d := 2 ^ k) in *. set (x := a + d - 1).
  pose proof (N.mul_div_le x d Hd) as H1. pose proof (N.mul_succ_div_gt x d Hd) as H2.
  set (q := x / d) in *. split; [|split].
  - unfold x in *. nia.
  - unfold x in *. nia.
  - exists q. reflexivity.
Qed.

Lemma align_up_fix a al : pow2 al -> (al | a) -> align_up a al = a.
Proof.
  intros [k ->] [z ->]. rewrite align_up_eq.
  assert (Hd : 2 ^ k <> 0) by (apply N.pow_nonzero; discriminate).
  set (d := 2 ^ k) in *. f_equal. symmetry. apply N.div_unique with (r := d - 1); lia.
Qed.

Lemma align_up_fix_inv a al : pow2 al -> align_up a al = a -> (al | a).
Proof. intros Hp H. rewrite <- H. apply align_up_spec. exact Hp. Qed.

(* ---- size_align ---- *)
Section SizeAlign.
Variables nsz nal : N.
Hypothesis Hnal : pow2 nal.
Hypothesis Hnsz_al : (nal | nsz).

Lemma size_align_spec l : pow2 (snd l) ->
  let s := fst (size_align nsz nal l) in
  let al := snd (size_align nsz nal l) in
  pow2 al /\ (nal | al) /\ (snd l | al) /\ nsz <= s /\ fst l <= s /\ (nal | s).
Proof.
  intros Hl. cbn [size_align fst snd].
  assert (Hm : pow2 (N.max (snd l) nal)) by (apply pow2_max; assumption).
  destruct (align_up_spec (fst l) _ Hm) as [H1 [_ H3]].
  split; [exact Hm|]. split; [apply pow2_divide; [assumption|assumption|lia]|].
  split; [apply pow2_divide; [assumption|assumption|lia]|].
  split; [lia|]. split; [lia|].
  assert (Hd : (nal | align_up (fst l) (N.max (snd l) nal))).
  { eapply N.divide_trans; [|exact H3]. apply pow2_divide; [assumption|assumption|lia]. }
  destruct (N.max_spec (align_up (fst l) (N.max (snd l) nal)) nsz) as [[_ ->]|[_ ->]]; assumption.
Qed.
End SizeAlign.

(* ---- regions ---- *)
Definition rend (r : region) : N := fst r + snd r.
Definition disj (r1 r2 : region) : Prop := rend r1 <= fst r2 \/ rend r2 <= fst r1.
Definition sub (r1 r2 : region) : Prop := fst r2 <= fst r1 /\ rend r1 <= rend r2.

Lemma disj_sym r1 r2 : disj r1 r2 -> disj r2 r1.
Proof. unfold disj. tauto. Qed.

Lemma disj_sub r r' x : sub r' r -> disj r x -> disj r' x.
Proof. unfold sub, disj. lia. Qed.

Lemma sub_trans a b c : sub a b -> sub b c -> sub a c.
Proof. unfold sub. lia. Qed.

Lemma Forall_disj_sub r r' X : sub r' r -> Forall (disj r) X -> Forall (disj r') X.
Proof. intros Hs. apply Forall_impl. intros x. apply disj_sub. exact Hs. Qed.

(* pairwise disjointness *)
Fixpoint PD (l : list region) : Prop :=
  match l with
  | [] => True
  | r :: t => Forall (disj r) t /\ PD t
  end.

Lemma PD_perm l l' : Permutation l l' -> PD l -> PD l'.
Proof.
  induction 1 as [|x l l' Hp IH|x y l|l l' l'' _ IH1 _ IH2]; cbn [PD]; intros H.
  - exact I.
  - destruct H as [H1 H2]. split; [|apply IH; exact H2].
    eapply Permutation_Forall; eassumption.
  - destruct H as [H1 [H2 H3]]. inversion H1 as [|? ? Hyx H1']; subst.
    split; [constructor; [apply disj_sym; exact Hyx|exact H2]|]. split; assumption.
  - apply IH2, IH1, H.
Qed.

Lemma PD_app_r l1 l2 : PD (l1 ++ l2) -> PD l2.
Proof. induction l1 as [|x l1 IH]; cbn [app PD]; [tauto|]. intros [_ H]. apply IH, H. Qed.

Lemma PD_app_l l1 l2 : PD (l1 ++ l2) -> PD l1.
Proof.
  induction l1 as [|x l1 IH]; cbn [app PD]; [tauto|]. intros [H1 H2]. split; [|apply IH, H2].
  apply Forall_app in H1. apply H1.
Qed.

Lemma PD_In_disj l1 l2 x y : PD (l1 ++ l2) -> In x l1 -> In y l2 -> disj x y.
Proof.
  induction l1 as [|z l1 IH]; cbn [app PD In]; [tauto|]. intros [H1 H2] [->|Hx] Hy.
  - rewrite Forall_forall in H1. apply H1. apply in_or_app. right. exact Hy.
  - apply IH; assumption.
Qed.

(* ---- list helpers ---- *)
Lemma remove_nth_split {A} (l : list A) k e :
  nth_error l k = Some e -> exists la lb, l = la ++ e :: lb /\ remove_nth k l = la ++ lb.
Proof.
  revert k. induction l as [|x l IH]; intros [|k]; cbn [nth_error remove_nth]; try discriminate.
  - intros [= ->]. exists [], l. split; reflexivity.
  - intros H. destruct (IH k H) as [la [lb [-> E]]]. exists (x :: la), lb. cbn [app]. rewrite E. split; reflexivity.
Qed.
