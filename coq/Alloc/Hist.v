(* Histories of the allocator: every reachable state satisfies the invariant,
   no operation panics or runs out of fuel (allocate terminates adding at most
   one page), and along every trace a block that overlaps an earlier block is
   handed out only after the earlier one was released. *)
From Coq Require Import List Arith NArith Lia Bool ZifyBool Permutation.
From DesVerif Require Import Alloc.Model Alloc.Arith Alloc.Inv.
Import ListNotations.
Open Scope N_scope.

Section Hist.
Variable base : N -> N.
Variables nsz nal page : N.

Local Notation size_align := (size_align nsz nal).
Local Notation lrange := (lrange nsz nal).
Local Notation step := (step base nsz nal).
Local Notation run_ops := (run_ops base nsz nal).
Local Notation allocate_f := (allocate_f base nsz nal).
Local Notation Inv := (Inv base nsz nal page).
Local Notation req_ok := (req_ok nsz nal page).
Local Notation lranges := (lranges nsz nal).

(* the guard on histories: every allocate request satisfies [req_ok] *)
Definition op_ok (o : op) : Prop :=
  match o with OAlloc size align => req_ok (size, align) | _ => True end.

Inductive reach : st -> Prop :=
| reach_init s : init base nsz nal page = Some s -> reach s
| reach_step s o : reach s -> op_ok o -> reach (snd (step s o)).

Hypothesis Hpar : params_ok nsz nal page.
Hypothesis Hora : oracle_ok base page.

Local Notation allocate_spec := (allocate_ok base nsz nal page Hpar Hora).
Local Notation deallocate_spec := (deallocate_ok base nsz nal page Hpar Hora).

Lemma step_facts s o : Inv s -> op_ok o ->
  let x := fst (step s o) in
  let s' := snd (step s o) in
  Inv s' /\ halting x = false /\
  (forall r1, In r1 (lranges s) -> In r1 (lranges s') \/ x = RFree (fst r1) (snd r1)) /\
  (forall p sz al, x = RAlloc p sz al -> Forall (disj (p, sz)) (lranges s) /\ In (p, sz) (lranges s')) /\
  (length (pages s') <= S (length (pages s)))%nat.
Proof.
  intros HI Hok. destruct o as [size align|k|]; cbn [Model.step].
  - cbn [op_ok] in Hok. pose proof Hok as [Hp2 _]. cbn [snd] in Hp2.
    rewrite (is_pow2_complete _ Hp2). cbn [negb]. unfold allocate. change FUEL with (S 3).
    destruct (allocate_spec s (size, align) HI Hok) as [[_ E]|[_ [s' [p [E [HI' [Hl [Hpg Hd]]]]]]]]; rewrite E; cbn [fst snd].
    + repeat apply conj; try assumption; try reflexivity; try lia.
      * intros r1 H. left. exact H.
      * intros p sz al [=].
    + repeat apply conj; try assumption; try reflexivity.
      * intros r1 H. left. unfold Inv.lranges in *. rewrite Hl, map_app. apply in_or_app. left. exact H.
      * intros p0 sz al [= <- <- <-]. split; [exact Hd|].
        unfold Inv.lranges. rewrite Hl, map_app. apply in_or_app. right. left. reflexivity.
      * destruct Hpg as [->| ->]; [lia|]. rewrite app_length. cbn [length]. lia.
  - destruct (live s) as [|e0 lv] eqn:El.
    + cbn [fst snd]. repeat apply conj; try assumption; try reflexivity; try lia.
      * intros r1 H. left. exact H.
      * intros p sz al [=].
    + rewrite <- El. set (idx := N.to_nat (k mod N.of_nat (length (live s)))).
      assert (Hidx : (idx < length (live s))%nat).
      { assert (Hn : N.of_nat (length (live s)) <> 0) by (rewrite El; cbn [length]; lia).
        pose proof (N.mod_lt k _ Hn). unfold idx. lia. }
      destruct (nth_error (live s) idx) as [[p l]|] eqn:En; [|apply nth_error_None in En; lia].
      destruct (deallocate_spec s idx p l HI En) as [s' [-> [HI' [Hl Hpg]]]]. cbn [fst snd].
      destruct (remove_nth_split _ _ _ En) as [la [lb [Ela Erm]]].
      repeat apply conj; try assumption; try reflexivity.
      * intros r1 H. unfold Inv.lranges in *. rewrite Hl, Erm. rewrite Ela in H. rewrite map_app in *. cbn [map] in H.
        apply in_app_or in H. destruct H as [H|[<-|H]].
        -- left. apply in_or_app. left. exact H.
        -- right. reflexivity.
        -- left. apply in_or_app. right. exact H.
      * intros p0 sz al [=].
      * rewrite Hpg. lia.
  - cbn [fst snd]. repeat apply conj; try assumption; try reflexivity; try lia.
    + intros r1 H. left. exact H.
    + intros p sz al [=].
Qed.

Theorem reach_inv s : reach s -> Inv s.
Proof.
  induction 1 as [s Hi|s o _ IH Hok].
  - destruct (init_ok base nsz nal page Hpar Hora) as [s0 [E [HI _]]].
    rewrite Hi in E. injection E as ->. exact HI.
  - apply (step_facts s o IH Hok).
Qed.

Lemma run_ops_cons s o ops : Inv s -> op_ok o -> run_ops s (o :: ops) = step s o :: run_ops (snd (step s o)) ops.
Proof.
  intros HI Hok. cbn [Model.run_ops]. destruct (step_facts s o HI Hok) as [_ [Hh _]].
  destruct (step s o) as [x s']. cbn [fst snd] in *. rewrite Hh. reflexivity.
Qed.

(* nothing halts: the run is as long as the script, every state satisfies the invariant *)
Theorem run_ops_total ops : forall s, Inv s -> Forall op_ok ops ->
  length (run_ops s ops) = length ops /\
  Forall (fun x => halting (fst x) = false /\ Inv (snd x)) (run_ops s ops).
Proof.
  induction ops as [|o ops IH]; intros s HI Hok; [split; [reflexivity|constructor]|].
  inversion Hok as [|? ? Ho Hops]; subst. rewrite run_ops_cons by assumption.
  destruct (step_facts s o HI Ho) as [HI' [Hh _]].
  destruct (IH _ HI' Hops) as [H1 H2]. cbn [length]. split; [rewrite H1; reflexivity|].
  constructor; [split; assumption|exact H2].
Qed.

(* a block live at the start of a run is disjoint from every block handed out
   during the run, unless it was released before *)
Lemma run_live ops : forall s, Inv s -> Forall op_ok ops ->
  forall mid p2 s2 a2 st2 post, run_ops s ops = mid ++ (RAlloc p2 s2 a2, st2) :: post ->
  forall r1, In r1 (lranges s) -> In (RFree (fst r1) (snd r1)) (map fst mid) \/ disj r1 (p2, s2).
Proof.
  induction ops as [|o ops IH]; intros s HI Hok mid p2 s2 a2 st2 post E r1 Hr1.
  - cbn in E. destruct mid; discriminate.
  - inversion Hok as [|? ? Ho Hops]; subst. rewrite run_ops_cons in E by assumption.
    destruct (step_facts s o HI Ho) as [HI' [_ [Hlive [Halloc _]]]].
    destruct mid as [|m mid]; cbn [app] in E; injection E as E1 E2.
    + right. apply disj_sym. assert (Hx : fst (step s o) = RAlloc p2 s2 a2) by (rewrite E1; reflexivity).
      destruct (Halloc _ _ _ Hx) as [Hd _]. rewrite Forall_forall in Hd. apply Hd, Hr1.
    + cbn [map In]. destruct (Hlive _ Hr1) as [Hin|Hfree].
      * destruct (IH _ HI' Hops _ _ _ _ _ _ E2 _ Hin) as [H|H]; [left; right; exact H|right; exact H].
      * left. left. rewrite <- E1. exact Hfree.
Qed.

Theorem reuse_only_after_free_from ops : forall s, Inv s -> Forall op_ok ops ->
  forall pre p1 s1 a1 st1 mid p2 s2 a2 st2 post,
    run_ops s ops = pre ++ (RAlloc p1 s1 a1, st1) :: mid ++ (RAlloc p2 s2 a2, st2) :: post ->
    In (RFree p1 s1) (map fst mid) \/ disj (p1, s1) (p2, s2).
Proof.
  induction ops as [|o ops IH]; intros s HI Hok pre p1 s1 a1 st1 mid p2 s2 a2 st2 post E.
  - cbn in E. destruct pre; discriminate.
  - inversion Hok as [|? ? Ho Hops]; subst. rewrite run_ops_cons in E by assumption.
    destruct (step_facts s o HI Ho) as [HI' [_ [_ [Halloc _]]]].
    destruct pre as [|m pre]; cbn [app] in E; injection E as E1 E2.
    + assert (Hx : fst (step s o) = RAlloc p1 s1 a1) by (rewrite E1; reflexivity).
      destruct (Halloc _ _ _ Hx) as [_ Hin].
      exact (run_live ops _ HI' Hops _ _ _ _ _ _ E2 _ Hin).
    + exact (IH _ HI' Hops _ _ _ _ _ _ _ _ _ _ _ E2).
Qed.

End Hist.
