(* Concrete model of des-cqueue/src/stable/alloc.rs (the page allocator of the
   calendar queue) and of the way boxed.rs / linked_list.rs / mod.rs use it.
   Pure address arithmetic; function names and branch structure follow the
   Rust code.  The addresses `alloc_zeroed` returns for new pages are an
   ORACLE input [base : page index -> address]; everything else is computed.
   `size_of::<ListNode>()` and `align_of::<ListNode>()` are the parameters
   [nsz] and [nal] (16 and 8 on the pinned target, reported by the harness).
   No proofs in this file. *)
From Coq Require Import List NArith Bool.
From DesVerif Require Import Common.Codec.
From DesVerif Require CQueue.Model.
Import ListNotations.
Open Scope N_scope.

Definition region := (N * N)%type.            (* start address, size in bytes *)
Definition layout := (N * N)%type.            (* Layout: size, align *)

Record st := {
  free : list region;          (* head.next chain of ListNodes, front first *)
  pages : list N;              (* Vec<*mut u8>, in acquisition order *)
  page_size : N;
  allocated_mem : N;
  live : list (N * layout)     (* ghost: (ptr, requested layout) of every allocation not yet
                                  deallocated, in allocation order; this is what the holders of
                                  the pointers (LocalBox, the harness) know *)
}.

Definition set_free (s : st) (f : list region) : st :=
  {| free := f; pages := pages s; page_size := page_size s; allocated_mem := allocated_mem s; live := live s |}.
Definition set_pages (s : st) (p : list N) : st :=
  {| free := free s; pages := p; page_size := page_size s; allocated_mem := allocated_mem s; live := live s |}.
Definition set_mem (s : st) (m : N) (l : list (N * layout)) : st :=
  {| free := free s; pages := pages s; page_size := page_size s; allocated_mem := m; live := l |}.

(* fn align_up(addr, align) = (addr + align - 1) & !(align - 1) *)
Definition align_up (addr align : N) : N := N.ldiff (addr + align - 1) (align - 1).

Fixpoint remove_nth {A} (k : nat) (l : list A) : list A :=
  match l, k with
  | [], _ => []
  | _ :: t, O => t
  | x :: t, S k' => x :: remove_nth k' t
  end.

(* the watchdog bound shared with harness/src/bin/alloc.rs: find_region gives up
   (model: OutOfFuel; harness: the observer aborts the call) after this many
   pages were added within one allocate call.  Alloc/Total.v: one suffices. *)
Definition FUEL : nat := 4.

Section Alloc.
Variable base : N -> N.      (* oracle: address of the i-th page handed out by the system allocator *)
Variables nsz nal : N.       (* size_of::<ListNode>(), align_of::<ListNode>() *)

(* size_align: layout.align_to(align_of ListNode).pad_to_align(), size.max(size_of ListNode) *)
Definition size_align (l : layout) : N * N :=
  let al := N.max (snd l) nal in
  (N.max (align_up (fst l) al) nsz, al).

(* add_free_region: push at the FRONT of the list; None = one of its two assertions failed *)
Definition add_free_region (s : st) (addr size : N) : option st :=
  if negb (align_up addr nal =? addr) then None
  else if size <? nsz then None
  else Some (set_free s ((addr, size) :: free s)).

Definition add_page (s : st) : option st :=
  let block := base (N.of_nat (length (pages s))) in
  add_free_region (set_pages s (pages s ++ [block])) block (page_size s).

(* alloc_from_region (checked_add overflow is outside the model: addresses are unbounded) *)
Definition alloc_from_region (r : region) (size align : N) : option N :=
  let alloc_start := align_up (fst r) align in
  let alloc_end := alloc_start + size in
  if fst r + snd r <? alloc_end then None
  else
    let excess_size := fst r + snd r - alloc_end in
    if (0 <? excess_size) && (excess_size <? nsz) then None
    else Some alloc_start.

(* the `while let` of find_region: first region that fits is unlinked, order of the others kept *)
Fixpoint scan (l : list region) (size align : N) : option (region * N * list region) :=
  match l with
  | [] => None
  | r :: t =>
    match alloc_from_region r size align with
    | Some a => Some (r, a, t)
    | None => match scan t size align with
              | Some (r', a, t') => Some (r', a, r :: t')
              | None => None
              end
    end
  end.

Inductive found := Found (s : st) (r : region) (alloc_start : N) | FPanic | FOutOfFuel (s : st).

(* find_region: nothing fits -> add_page and try again (the Rust code recurses without bound) *)
Fixpoint find_region (fuel : nat) (s : st) (size align : N) : found :=
  match scan (free s) size align with
  | Some (r, a, rest) => Found (set_free s rest) r a
  | None =>
    match fuel with
    | O => FOutOfFuel s
    | S f => match add_page s with
             | Some s' => find_region f s' size align
             | None => FPanic
             end
    end
  end.

Inductive ares := AOk (s : st) (ptr : N) | AErr | APanic | AOutOfFuel (s : st).

(* CQueueLLAllocator::allocate *)
Definition allocate_f (fuel : nat) (s : st) (l : layout) : ares :=
  let '(size, align) := size_align l in
  if page_size s <? size then AErr else
  match find_region fuel s size align with
  | FPanic => APanic
  | FOutOfFuel s' => AOutOfFuel s'
  | Found s1 r alloc_start =>
    let alloc_end := alloc_start + size in
    let excess_size := fst r + snd r - alloc_end in
    let s2 := if (0 <? excess_size) && negb (excess_size <? size)
              then add_free_region s1 alloc_end excess_size   (* tail kept only if >= size *)
              else Some s1 in
    match s2 with
    | None => APanic
    | Some s2 => AOk (set_mem s2 (allocated_mem s2 + size) (live s2 ++ [(alloc_start, l)])) alloc_start
    end
  end.
Definition allocate := allocate_f FUEL.

Inductive dres := DOk (s : st) (ptr size : N) | DNone | DPanic.

(* CQueueLLAllocator::deallocate(ptr, layout) applied to the k-th live allocation *)
Definition deallocate (s : st) (k : nat) : dres :=
  match nth_error (live s) k with
  | None => DNone
  | Some (ptr, l) =>
    let size := fst (size_align l) in
    if allocated_mem s <? size then DPanic        (* `allocated_mem -= size` underflow (debug build) *)
    else match add_free_region (set_mem s (allocated_mem s - size) (remove_nth k (live s))) ptr size with
         | Some s' => DOk s' ptr size
         | None => DPanic
         end
  end.

(* CQueueLLAllocatorInner::with_page_size *)
Definition init (page : N) : option st :=
  add_page {| free := []; pages := []; page_size := page; allocated_mem := 0; live := [] |}.

(* ---- histories of the allocator (mode 1) ---- *)
Inductive op := OAlloc (size align : N) | OFree (k : N) | ODump.

Inductive rec :=
| RAlloc (ptr size align : N)     (* allocate returned ptr; adjusted size and alignment *)
| RFree (ptr size : N)            (* deallocate of that block *)
| RErr                            (* allocate returned Err: larger than a page *)
| RNoHandle                       (* free with nothing live: no call *)
| RBadLayout                      (* Layout::from_size_align rejects: no call *)
| RDump
| RPanic
| RFuel.

Definition is_pow2 (x : N) : bool := negb (x =? 0) && (x =? 2 ^ N.log2 x).

Definition halting (r : rec) : bool := match r with RPanic | RFuel => true | _ => false end.

Definition step (s : st) (o : op) : rec * st :=
  match o with
  | OAlloc size align =>
    if negb (is_pow2 align) then (RBadLayout, s) else
    match allocate s (size, align) with
    | AOk s' p => (RAlloc p (fst (size_align (size, align))) (snd (size_align (size, align))), s')
    | AErr => (RErr, s)
    | APanic => (RPanic, s)
    | AOutOfFuel s' => (RFuel, s')
    end
  | OFree k =>
    match live s with
    | [] => (RNoHandle, s)
    | _ => match deallocate s (N.to_nat (k mod N.of_nat (length (live s)))) with
           | DOk s' p sz => (RFree p sz, s')
           | DNone => (RNoHandle, s)
           | DPanic => (RPanic, s)
           end
    end
  | ODump => (RDump, s)
  end.

(* stops after a panic / fuel exhaustion, like the harness *)
Fixpoint run_ops (s : st) (ops : list op) : list (rec * st) :=
  match ops with
  | [] => []
  | o :: r => let '(x, s') := step s o in
              (x, s') :: (if halting x then [] else run_ops s' r)
  end.

(* ---- output: addresses relative to the pages of the run ---- *)
Fixpoint locate (ps : list N) (psz a i : N) : N * N :=
  match ps with
  | [] => (999999, a)
  | p :: t => if (p <=? a) && (a <? p + psz) then (i, a - p) else locate t psz a (i + 1)
  end.

Definition loc (s : st) (a : N) : list N := let '(i, off) := locate (pages s) (page_size s) a 0 in [i; off].

Definition tail1 (s : st) : list N :=
  [N.of_nat (length (pages s)); allocated_mem s; N.of_nat (length (free s))].

Definition lrange (e : N * layout) : region := (fst e, fst (size_align (snd e))).

Definition enc_rec (x : rec * st) : list N :=
  let s := snd x in
  match fst x with
  | RAlloc p size align => 1 :: loc s p ++ [size; align] ++ tail1 s
  | RFree p size => 2 :: loc s p ++ [size] ++ tail1 s
  | RErr => [3]
  | RNoHandle => [4]
  | RBadLayout => [6]
  | RDump => 5 :: N.of_nat (length (free s)) :: flat_map (fun r => loc s (fst r) ++ [snd r]) (free s)
               ++ N.of_nat (length (live s)) :: flat_map (fun e => loc s (fst e) ++ [snd (lrange e)]) (live s)
  | RPanic => [9]
  | RFuel => [8]
  end.

Definition dec_op (l : list N) : option (op * list N) :=
  match l with
  | 1 :: size :: align :: r => Some (OAlloc size align, r)
  | 2 :: k :: r => Some (OFree k, r)
  | 3 :: r => Some (ODump, r)
  | _ => None
  end.

Definition run1 (page : N) (ops : list op) : list N :=
  if negb (is_pow2 page) || (page <? nsz) then [7] else
  match init page with
  | None => [9]
  | Some s => flat_map enc_rec (run_ops s ops)
  end.

(* ---- mode 2: CQueue<P> whose bucket lists keep their nodes in this allocator ---- *)
Section Queue.
Variable nl : layout.        (* Layout::new::<EventNode<P>>() *)
Variable hasdrop : bool.     (* P has a destructor the harness can count *)

Record qst := {
  qq : CQueue.Model.cq;
  qa : st;
  qsent : list (N * N);      (* per bucket: head and tail sentinel node *)
  qnodes : list (N * N);     (* event id -> node, for the events that sit in bucket lists *)
  qhandles : list (N * N)    (* EventHandle: (time, id) *)
}.

Fixpoint index_of (p : N) (l : list (N * layout)) : nat :=
  match l with
  | [] => O
  | e :: t => if fst e =? p then O else S (index_of p t)
  end.

Fixpoint lookup (id : N) (m : list (N * N)) : option N :=
  match m with
  | [] => None
  | (i, p) :: t => if i =? id then Some p else lookup id t
  end.

Fixpoint remove_key (id : N) (m : list (N * N)) : list (N * N) :=
  match m with
  | [] => []
  | (i, p) :: t => if i =? id then t else (i, p) :: remove_key id t
  end.

(* LocalBox::new_in / Drop for LocalBox *)
Definition alloc_node (a : st) : option (st * N) :=
  match allocate a nl with AOk a' p => Some (a', p) | _ => None end.
Definition free_node (a : st) (p : N) : option st :=
  match deallocate a (index_of p (live a)) with DOk a' _ _ => Some a' | _ => None end.

(* CQueue::new: DualLinkedList::new per bucket = EventNode::empty twice (head, tail) *)
Fixpoint new_buckets (k : nat) (a : st) : option (st * list (N * N) * list (N * N)) :=
  match k with
  | O => Some (a, [], [])
  | S k' =>
    match alloc_node a with None => None | Some (a1, h) =>
    match alloc_node a1 with None => None | Some (a2, t) =>
    match new_buckets k' a2 with None => None | Some (a3, sent, evs) =>
      Some (a3, (h, t) :: sent, (1, h) :: (1, t) :: evs)
    end end end
  end.

Definition enc_evs (a : st) (evs : list (N * N)) : list N :=
  N.of_nat (length evs) :: flat_map (fun e => fst e :: loc a (snd e)) evs.

Definition tail2 (q : qst) : list N :=
  [allocated_mem (qa q); N.of_nat (length (pages (qa q))); 1 (* links_ok *); CQueue.Model.qlen (qq q)].

Inductive qop := QAdd (dt : N) | QCancel (k : N) | QFetch.

(* None = the allocator refused / panicked / ran out of fuel: the run is abandoned *)
Definition qstep (q : qst) (o : qop) : option (qst * list N) :=
  match o with
  | QAdd dt =>
    let time := CQueue.Model.tcur (qq q) + dt in
    let id := CQueue.Model.next_id (qq q) in
    let '(cq', h, _) := CQueue.Model.add (qq q) time id in
    let hs := match h with Some h => qhandles q ++ [h] | None => qhandles q end in
    if dt =? 0 then   (* zero_event_bucket: a VecDeque on the global heap *)
      let q' := {| qq := cq'; qa := qa q; qsent := qsent q; qnodes := qnodes q; qhandles := hs |} in
      Some (q', 1 :: enc_evs (qa q) [] ++ tail2 q' ++ [0])
    else
      match alloc_node (qa q) with
      | None => None
      | Some (a', p) =>
        let q' := {| qq := cq'; qa := a'; qsent := qsent q; qnodes := (id, p) :: qnodes q; qhandles := hs |} in
        Some (q', 1 :: enc_evs a' [(1, p)] ++ tail2 q' ++ [0])
      end
  | QCancel k =>
    match CQueue.Model.pick_handle (qhandles q) k with
    | None => Some (q, 5 :: enc_evs (qa q) [] ++ tail2 q ++ [0])
    | Some (time, id) =>
      let cq' := CQueue.Model.cancel true (qq q) time id in
      let removed := CQueue.Model.qlen cq' <? CQueue.Model.qlen (qq q) in
      let drops := if removed && hasdrop then [1; id] else [0] in
      if removed && Nat.eqb (length (CQueue.Model.zero cq')) (length (CQueue.Model.zero (qq q))) then
        match lookup id (qnodes q) with
        | None => None
        | Some p =>
          match free_node (qa q) p with
          | None => None
          | Some a' =>
            let q' := {| qq := cq'; qa := a'; qsent := qsent q; qnodes := remove_key id (qnodes q); qhandles := qhandles q |} in
            Some (q', 5 :: enc_evs a' [(2, p)] ++ tail2 q' ++ drops)
          end
        end
      else
        let q' := {| qq := cq'; qa := qa q; qsent := qsent q; qnodes := qnodes q; qhandles := qhandles q |} in
        Some (q', 5 :: enc_evs (qa q) [] ++ tail2 q' ++ drops)
    end
  | QFetch =>
    if CQueue.Model.qlen (qq q) =? 0 then Some (q, [9]) else
    match CQueue.Model.zero (qq q), CQueue.Model.fetch_next (qq q) with
    | _ :: _, (cq', CQueue.Model.OFetched pay time) =>
      let q' := {| qq := cq'; qa := qa q; qsent := qsent q; qnodes := qnodes q; qhandles := qhandles q |} in
      Some (q', 2 :: pay :: time :: 1 :: enc_evs (qa q) [] ++ tail2 q' ++ [0])
    | [], (cq', CQueue.Model.OFetched pay time) =>
      match lookup pay (qnodes q) with
      | None => None
      | Some p =>
        match free_node (qa q) p with
        | None => None
        | Some a' =>
          let q' := {| qq := cq'; qa := a'; qsent := qsent q; qnodes := remove_key pay (qnodes q); qhandles := qhandles q |} in
          Some (q', 2 :: pay :: time :: 1 :: enc_evs a' [(2, p)] ++ tail2 q' ++ [0])
        end
      end
    | _, _ => None
    end
  end.

Fixpoint qrun (q : qst) (ops : list qop) : option (qst * list N) :=
  match ops with
  | [] => Some (q, [])
  | o :: r => match qstep q o with
              | None => None
              | Some (q', out) => match qrun q' r with
                                  | None => None
                                  | Some (q'', out') => Some (q'', out ++ out')
                                  end
              end
  end.

(* Drop for CQueue: the bucket lists are dropped in order (pop_min until empty,
   then the head and the tail sentinel), then the allocator, then the VecDeque *)
Fixpoint free_all (a : st) (ps : list N) : option st :=
  match ps with
  | [] => Some a
  | p :: r => match free_node a p with None => None | Some a' => free_all a' r end
  end.

Fixpoint bucket_ptrs (bs : list (list CQueue.Model.ev)) (sent : list (N * N)) (nodes : list (N * N)) : option (list N) :=
  match bs, sent with
  | b :: bs', (h, t) :: sent' =>
    match bucket_ptrs bs' sent' nodes with
    | None => None
    | Some r =>
      (fix evs (b : list CQueue.Model.ev) : option (list N) :=
         match b with
         | [] => Some (h :: t :: r)
         | e :: b' => match lookup (CQueue.Model.eid e) nodes, evs b' with
                      | Some p, Some l => Some (p :: l)
                      | _, _ => None
                      end
         end) b
    end
  | [], [] => Some []
  | _, _ => None
  end.

Fixpoint insert_n (x : N) (l : list N) : list N :=
  match l with [] => [x] | y :: t => if x <=? y then x :: l else y :: insert_n x t end.
Definition sort_n (l : list N) : list N := fold_right insert_n [] l.

Definition qdrop (q : qst) : option (list N) :=
  match bucket_ptrs (CQueue.Model.buckets (qq q)) (qsent q) (qnodes q) with
  | None => None
  | Some ps =>
    match free_all (qa q) ps with
    | None => None
    | Some a' =>
      let ids := sort_n (map CQueue.Model.eid (CQueue.Model.zero (qq q) ++ concat (CQueue.Model.buckets (qq q)))) in
      Some (10 :: enc_evs a' (map (fun p => (2, p)) ps) ++ [allocated_mem a'; N.of_nat (length (live a'))]
               ++ (if hasdrop then N.of_nat (length ids) :: ids else [0]) ++ [11; 1; 1; 1])
    end
  end.

Definition dec_qop (l : list N) : option (qop * list N) :=
  match l with
  | 1 :: dt :: r => Some (QAdd dt, r)
  | 2 :: k :: r => Some (QCancel k, r)
  | 3 :: r => Some (QFetch, r)
  | _ => None
  end.

Definition run2 (page n t : N) (ops : list qop) : list N :=
  if negb (is_pow2 page) || (page <? nsz) || (n =? 0) || (t =? 0) then [7] else
  match init page with
  | None => [8]
  | Some a0 =>
    match new_buckets (N.to_nat n) a0 with
    | None => [8]
    | Some (a, sent, evs) =>
      let q0 := {| qq := CQueue.Model.cq_new n t; qa := a; qsent := sent; qnodes := []; qhandles := [] |} in
      match qrun q0 ops with
      | None => [8]
      | Some (q, out) =>
        match qdrop q with
        | None => [8]
        | Some d => (20 :: enc_evs a evs ++ tail2 q0) ++ out ++ d
        end
      end
    end
  end.
End Queue.
End Alloc.

(* the oracle used by the runners: page i sits at (i+1) * 2^40.  Both runners print
   addresses as (page index, offset), so any page-aligned disjoint placement gives
   the same output (Alloc/Oracle.v). *)
Definition sym_base (i : N) : N := (i + 1) * 2 ^ 40.

(* script:  1 page nsz nal op*                       op = 1 size align | 2 k | 3
            2 ptype hasdrop page nsz nal nsize nalign n t op*    op = 1 dt | 2 k | 3 *)
Definition run (input : list N) : list N :=
  match input with
  | 1 :: page :: nsz :: nal :: r =>
      if (nsz =? 0) || negb (is_pow2 nal) then [7] else run1 sym_base nsz nal page (decode_all dec_op r)
  | 2 :: _ :: hd :: page :: nsz :: nal :: nsize :: nalign :: n :: t :: r =>
      if (nsz =? 0) || negb (is_pow2 nal) || negb (is_pow2 nalign) then [7]
      else run2 sym_base nsz nal (nsize, nalign) (n2b hd) page n t (decode_all dec_qop r)
  | _ => [7]
  end.
