(* Binary-positive fuel iterator: [iter_until p f a] applies the step function
   [f] at most [p] times, stopping at the first [inr].  It is structural on the
   binary representation of [p], so astronomically large fuel costs nothing to
   write down, and it is proved equal to the naive unary iterator. *)
From Coq Require Import List NArith PArith Lia.

Fixpoint iter_until {A B} (p : positive) (f : A -> A + B) (a : A) : A + B :=
  match p with
  | xH => f a
  | xO p' => match iter_until p' f a with inl a' => iter_until p' f a' | r => r end
  | xI p' => match f a with
             | inl a' => match iter_until p' f a' with inl a'' => iter_until p' f a'' | r => r end
             | r => r end
  end.

Fixpoint iter_nat {A B} (k : nat) (f : A -> A + B) (a : A) : A + B :=
  match k with
  | O => inl a
  | S k' => match f a with inl a' => iter_nat k' f a' | r => r end
  end.

Lemma iter_nat_add {A B} (f : A -> A + B) a k1 k2 :
  iter_nat (k1 + k2) f a = match iter_nat k1 f a with inl a' => iter_nat k2 f a' | r => r end.
Proof.
  revert a; induction k1 as [|k1 IH]; intros a; cbn [iter_nat Nat.add]; [reflexivity|].
  destruct (f a) as [a'|b]; [apply IH|reflexivity].
Qed.

Lemma iter_until_nat {A B} (f : A -> A + B) p a :
  iter_until p f a = iter_nat (Pos.to_nat p) f a.
Proof.
  revert a; induction p as [p IH|p IH|]; intros a; cbn [iter_until].
  - rewrite Pos2Nat.inj_xI. change (S (2 * Pos.to_nat p)) with (1 + (2 * Pos.to_nat p))%nat.
    rewrite iter_nat_add. cbn [iter_nat]. destruct (f a) as [a'|b]; [|reflexivity].
    replace (2 * Pos.to_nat p)%nat with (Pos.to_nat p + Pos.to_nat p)%nat by lia.
    rewrite iter_nat_add, <- IH. destruct (iter_until p f a'); [apply IH|reflexivity].
  - rewrite Pos2Nat.inj_xO. replace (2 * Pos.to_nat p)%nat with (Pos.to_nat p + Pos.to_nat p)%nat by lia.
    rewrite iter_nat_add, <- IH. destruct (iter_until p f a); [apply IH|reflexivity].
  - rewrite Pos2Nat.inj_1. cbn [iter_nat]. destruct (f a); reflexivity.
Qed.

Lemma iter_nat_mono {A B} (f : A -> A + B) k1 k2 a r :
  (k1 <= k2)%nat -> iter_nat k1 f a = inr r -> iter_nat k2 f a = inr r.
Proof.
  intros Hle H. replace k2 with (k1 + (k2 - k1))%nat by lia. rewrite iter_nat_add, H. reflexivity.
Qed.
