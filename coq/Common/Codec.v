(* Scripts and results cross the model/implementation boundary as flat lists of
   natural numbers (one line of decimal integers per script).  These helpers
   decode such lists totally: a truncated script decodes to a shorter one. *)
From Coq Require Import List NArith.
Import ListNotations.
Open Scope N_scope.

(* generic op-list decoder: [dec1] consumes one operation from the front and
   must return a strictly shorter remainder; fuel = length makes it total. *)
Fixpoint decode_with {A} (fuel : nat) (dec1 : list N -> option (A * list N)) (l : list N) : list A :=
  match fuel with
  | O => []
  | S f => match l with
           | [] => []
           | _ => match dec1 l with
                  | Some (a, r) => a :: decode_with f dec1 r
                  | None => []
                  end
           end
  end.

Definition decode_all {A} (dec1 : list N -> option (A * list N)) (l : list N) : list A :=
  decode_with (length l) dec1 l.

(* take [k] numbers *)
Fixpoint take_n (k : nat) (l : list N) : list N * list N :=
  match k, l with
  | O, _ => ([], l)
  | S k', [] => ([], [])
  | S k', x :: r => let '(a, b) := take_n k' r in (x :: a, b)
  end.

(* length-prefixed sub-list: [len; x1 .. xlen; rest] *)
Definition take_lp (l : list N) : list N * list N :=
  match l with
  | [] => ([], [])
  | k :: r => take_n (N.to_nat k) r
  end.

Definition b2n (b : bool) : N := if b then 1 else 0.
Definition n2b (n : N) : bool := negb (n =? 0).
