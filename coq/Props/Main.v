(* C17 assembled: capture = specification (under the executable guards), foreign
   entries, include order. *)
From Coq Require Import List NArith Bool Lia Permutation.
From DesVerif Require Import Props.Spec Props.Model Props.Bytes Props.Den Props.Loops Props.Capture Props.Complete
     Props.Route Props.Comp Props.Generic.
Import ListNotations.
Open Scope N_scope.

(* ---- executable guards ---- *)
Definition wf_ksegb (s : str) : bool := negb (is_nil s) && (str_eqb s ANY || negb (contains_any s)).
Definition wf_keyb (k : str) : bool :=
  forallb wf_ksegb (split_dot k) && negb (str_eqb (last (split_dot k) []) ANY).
Definition wf_cfgb (cfg : list (str * N)) : bool := nodupb (map fst cfg) && forallb wf_keyb (map fst cfg).

Fixpoint lprefixb (a b : list str) : bool :=
  match a, b with
  | [], _ => true
  | x :: a', y :: b' => str_eqb x y && lprefixb a' b'
  | _ :: _, [] => false
  end.
Definition known_pairb (k1 k2 : str) : bool := lprefixb (split_dot k1 ++ [ANY]) (split_dot k2).
Definition known_classb (cfg : list (str * N)) : bool :=
  existsb (fun k1 => existsb (known_pairb k1) (map fst cfg)) (map fst cfg).

Definition dotfreeb (s : str) : bool := negb (existsb (N.eqb DOT) s).
Definition wf_segb (s : str) : bool := dotfreeb s && negb (str_eqb s ANY).
Definition wf_pathb (p : list str) : bool := forallb wf_segb p.

Lemma is_nil_true s : is_nil s = true <-> s = [].
Proof. destruct s; split; (reflexivity || discriminate). Qed.

Lemma wf_ksegb_ok s : wf_ksegb s = true <-> wf_kseg s.
Proof.
  unfold wf_ksegb, wf_kseg. rewrite andb_true_iff, negb_true_iff, orb_true_iff, str_eqb_eq, negb_true_iff. split.
  - intros [A B]. split; [|exact B]. intros ->. discriminate.
  - intros [A B]. split; [|exact B]. destruct s; [contradiction|reflexivity].
Qed.

Lemma wf_keyb_ok k : wf_keyb k = true <-> wf_key k.
Proof.
  unfold wf_keyb, wf_key. rewrite andb_true_iff, forallb_forall, Forall_forall, negb_true_iff, str_eqb_neq.
  split; intros [A B]; (split; [|exact B]); intros x Hx; apply wf_ksegb_ok; apply A; exact Hx.
Qed.

Lemma nodupb_ok l : nodupb l = true <-> NoDup l.
Proof.
  induction l as [|x l IH]; cbn [nodupb].
  - split; [constructor|reflexivity].
  - rewrite andb_true_iff, negb_true_iff, IH. split.
    + intros [A B]. constructor; [|exact B]. intros X. assert (existsb (str_eqb x) l = true) as Y; [|congruence].
      apply existsb_exists. exists x. split; [exact X|apply str_eqb_refl].
    + intros H. inversion H as [|? ? A B]; subst. split; [|exact B].
      apply not_true_is_false. intros Y. apply existsb_exists in Y. destruct Y as [y [Hy E]].
      apply str_eqb_eq in E. subst. contradiction.
Qed.

Lemma wf_cfgb_ok cfg : wf_cfgb cfg = true <-> wf_cfg cfg.
Proof.
  unfold wf_cfgb, wf_cfg. rewrite andb_true_iff, nodupb_ok, forallb_forall, Forall_forall.
  split; intros [A B]; (split; [exact A|]); intros x Hx; apply wf_keyb_ok; apply B; exact Hx.
Qed.

Lemma lprefixb_ok a b : lprefixb a b = true <-> exists r, b = a ++ r.
Proof.
  revert b; induction a as [|x a IH]; intros b; cbn [lprefixb].
  - split; [intros _; exists b; reflexivity|reflexivity].
  - destruct b as [|y b]; [split; [discriminate|intros [r E]; discriminate]|].
    rewrite andb_true_iff, str_eqb_eq, IH. split.
    + intros [-> [r ->]]. exists r. reflexivity.
    + intros [r E]. injection E as -> ->. split; [reflexivity|exists r; reflexivity].
Qed.

Lemma known_classb_ok cfg : known_classb cfg = true <-> KnownClass cfg.
Proof.
  unfold known_classb, KnownClass. rewrite existsb_exists. split.
  - intros [k1 [H1 E]]. apply existsb_exists in E. destruct E as [k2 [H2 E]].
    apply lprefixb_ok in E. destruct E as [r E]. exists k1, k2, r. rewrite <- app_assoc in E. repeat split; assumption.
  - intros [k1 [k2 [r [H1 [H2 E]]]]]. exists k1. split; [exact H1|]. apply existsb_exists. exists k2. split; [exact H2|].
    apply lprefixb_ok. exists r. rewrite <- app_assoc. exact E.
Qed.

Lemma known_classb_false cfg : known_classb cfg = false <-> ~ KnownClass cfg.
Proof. rewrite <- known_classb_ok. destruct (known_classb cfg); split; congruence. Qed.

Lemma dotfreeb_ok s : dotfreeb s = true <-> dotfree s.
Proof.
  unfold dotfreeb, dotfree. rewrite negb_true_iff. split.
  - intros H X. assert (existsb (N.eqb DOT) s = true) as Y; [|congruence].
    apply existsb_exists. exists DOT. split; [exact X|apply N.eqb_refl].
  - intros H. apply not_true_is_false. intros Y. apply existsb_exists in Y. destruct Y as [y [Hy E]].
    apply N.eqb_eq in E. subst. contradiction.
Qed.

Lemma wf_pathb_ok p : wf_pathb p = true <-> wf_path p.
Proof.
  unfold wf_pathb, wf_path. rewrite forallb_forall, Forall_forall. unfold wf_segb, wf_seg.
  split; intros H x Hx; specialize (H x Hx).
  - rewrite andb_true_iff, negb_true_iff, dotfreeb_ok, str_eqb_neq in H. exact H.
  - rewrite andb_true_iff, negb_true_iff, dotfreeb_ok, str_eqb_neq. exact H.
Qed.

(* ---- capture = specification ---- *)
Lemma J_receives cfg m p x : Permutation (denm m) (D0 cfg) ->
  (J (denm m) p x <-> exists v, snd x = Scalar v /\ receives cfg p (fst x) v).
Proof.
  intros P. split.
  - intros [e [v [r [He [A ->]]]]]. exists v. split; [reflexivity|]. cbn [fst].
    apply (Permutation_in _ P) in He. apply in_map_iff in He. destruct He as [[k v'] [E Hin]].
    cbn [fst snd] in E. injection E as <- <-. exists k, r. split; [exact Hin|]. split; [exact A|reflexivity].
  - intros [v [Ex [k [r [Hin [A En]]]]]]. destruct x as [name val]. cbn [fst snd] in *. subst.
    exists (split_dot k), v, r. split; [|split; [exact A|reflexivity]].
    apply (Permutation_in _ (Permutation_sym P)). apply in_map_iff. exists (k, v). split; [reflexivity|exact Hin].
Qed.

(* the runner builds its configurations with cfg_new_v (entries may be hand-nested mappings); for entries
   that are all numbers - the flat configurations the theorems speak about - that is cfg_new *)
Lemma cfg_new_v_numbers (cfg : list (str * N)) : cfg_new_v (map (fun e => (fst e, VNum (snd e))) cfg) = cfg_new cfg.
Proof. unfold cfg_new_v, cfg_new, cfg_fuel. rewrite !map_map. reflexivity. Qed.

(* ---- from name/value lists to the property store of the model ---- *)
Definition store_of (ps : props) : store := map (fun e => (fst e, EYaml (snd e))) ps.
Definition hasS (name : str) (st : store) : Prop := exists e, In (name, e) st.

Lemma s_get_store_of k ps : s_get k (store_of ps) = None <-> p_has k ps = false.
Proof.
  induction ps as [|[k' v] ps IH]; cbn [store_of map s_get p_has existsb fst snd].
  - split; reflexivity.
  - destruct (str_eqb k k'); cbn [orb]; [split; discriminate|exact IH].
Qed.

Lemma s_set_store_of k v ps : s_set k v (store_of ps) = store_of (p_set k v ps).
Proof.
  unfold s_set, p_set. destruct (p_has k ps) eqn:E.
  - destruct (s_get k (store_of ps)) eqn:G; [reflexivity|]. apply s_get_store_of in G. congruence.
  - apply s_get_store_of in E. rewrite E. unfold store_of. rewrite map_app. reflexivity.
Qed.

Lemma capture_store c p : capture_for_into c p = store_of (update_from (length p) [] c p).
Proof.
  unfold capture_for_into, capture_for. symmetry.
  apply (upd_sim props store p_set s_set (fun a b => store_of a = b)).
  - intros k v a b <-. symmetry. apply s_set_store_of.
  - reflexivity.
Qed.

Lemma in_store_of name e ps : In (name, e) (store_of ps) <-> exists val, e = EYaml val /\ In (name, val) ps.
Proof.
  unfold store_of. rewrite in_map_iff. split.
  - intros [[k v] [E H]]. cbn [fst snd] in E. injection E as <- <-. exists v. split; [reflexivity|exact H].
  - intros [val [-> H]]. exists (name, val). split; [reflexivity|exact H].
Qed.

Section Guarded.
  Variable cfg : list (str * N).
  Variable p : list str.
  Hypothesis Hwf : wf_cfgb cfg = true.
  Hypothesis Hk : known_classb cfg = false.
  Hypothesis Hp : wf_pathb p = true.

  Theorem capture_sound name e :
    In (name, e) (capture_for_into (cfg_new cfg) p) -> exists v, e = EYaml (Scalar v) /\ receives cfg p name v.
  Proof.
    destruct (cfg_new_ok cfg (proj1 (wf_cfgb_ok cfg) Hwf) (proj1 (known_classb_false cfg) Hk)) as [m [E [W P]]].
    rewrite capture_store, E. intros H. apply in_store_of in H. destruct H as [val [-> H]].
    apply upd_sound in H; [|exact W|apply wf_pathb_ok; exact Hp]. destruct H as [[]|H].
    apply (J_receives cfg m p (name, val) P) in H. cbn [fst snd] in H. destruct H as [v [-> R]].
    exists v. split; [reflexivity|exact R].
  Qed.

  Theorem capture_complete name v :
    receives cfg p name v ->
    exists v', In (name, EYaml (Scalar v')) (capture_for_into (cfg_new cfg) p) /\ receives cfg p name v'.
  Proof.
    intros R. pose proof capture_sound as S.
    destruct (cfg_new_ok cfg (proj1 (wf_cfgb_ok cfg) Hwf) (proj1 (known_classb_false cfg) Hk)) as [m [E [W P]]].
    rewrite capture_store, E in *.
    assert (J (denm m) p (name, Scalar v)) as HJ.
    { apply (J_receives cfg m p (name, Scalar v) P). exists v. split; [reflexivity|exact R]. }
    destruct (upd_complete p m [] name (Scalar v) W (proj1 (wf_pathb_ok p) Hp) HJ) as [val Hin].
    assert (In (name, EYaml val) (store_of (update_from (length p) [] (Mapping m) p))) as Hs
      by (apply in_store_of; exists val; split; [reflexivity|exact Hin]).
    destruct (S name (EYaml val) Hs) as [v' [Ev R']]. injection Ev as ->. exists v'. split; assumption.
  Qed.

  (* no entry addresses the module: it receives nothing *)
  Theorem nothing_addressed : (forall k v r, In (k, v) cfg -> ~ addresses k p r) -> capture_for_into (cfg_new cfg) p = [].
  Proof.
    intros H. destruct (capture_for_into (cfg_new cfg) p) as [|[name e] l] eqn:E; [reflexivity|].
    exfalso. destruct (capture_sound name e) as [v [_ [k [r [Hin [A _]]]]]]; [rewrite E; left; reflexivity|].
    exact (H k v r Hin A).
  Qed.
End Guarded.

Lemma F2_length (q p : list str) : Forall2 seg_match q p -> length q = length p.
Proof. induction 1; [reflexivity|cbn [length]; congruence]. Qed.

(* an entry for a module of the same depth with a different specific path addresses nothing here,
   however much text the two paths share *)
Lemma sibling_not_addressed k q r0 p : split_dot k = q ++ r0 -> length q = length p -> ~ In ANY q -> q <> p ->
  forall r, ~ addresses k p r.
Proof.
  intros E L Nq Ne r [q' [E' [F _]]]. assert (length q' = length q) as L' by (rewrite L; apply (F2_length _ _ F)).
  rewrite E in E'. assert (q = q') as <-.
  { clear - E' L'. revert q' E' L'. induction q as [|x q IH]; intros [|y q'] E L; try discriminate; [reflexivity|].
    cbn in E, L. injection E as -> E. f_equal. apply IH; [exact E|lia]. }
  apply Ne. apply F2_noany; assumption.
Qed.

(* the property set of a module depends only on the entries that address it *)
Theorem no_foreign_entries cfg1 cfg2 p :
  wf_cfgb cfg1 = true -> known_classb cfg1 = false -> wf_cfgb cfg2 = true -> known_classb cfg2 = false ->
  wf_pathb p = true ->
  (forall name v, receives cfg1 p name v <-> receives cfg2 p name v) ->
  forall name, hasS name (capture_for_into (cfg_new cfg1) p) <-> hasS name (capture_for_into (cfg_new cfg2) p).
Proof.
  intros W1 K1 W2 K2 Wp H name. split; intros [e Hin].
  - destruct (capture_sound cfg1 p W1 K1 Wp name e Hin) as [v [-> R]]. apply H in R.
    destruct (capture_complete cfg2 p W2 K2 Wp name v R) as [v' [Hin' _]]. exists (EYaml (Scalar v')). exact Hin'.
  - destruct (capture_sound cfg2 p W2 K2 Wp name e Hin) as [v [-> R]]. apply H in R.
    destruct (capture_complete cfg1 p W1 K1 Wp name v R) as [v' [Hin' _]]. exists (EYaml (Scalar v')). exact Hin'.
Qed.

(* ---- a later include never touches a property that already has a slot ---- *)
Lemma s_get_app_some k e st t : s_get k st = Some e -> s_get k (st ++ t) = Some e.
Proof.
  induction st as [|[k' e'] st IH]; cbn [s_get app]; [discriminate|]. destruct (str_eqb k k'); [intros H; exact H|exact IH].
Qed.

Lemma s_set_keeps name e k v st : s_get name st = Some e -> s_get name (s_set k v st) = Some e.
Proof. intros H. unfold s_set. destruct (s_get k st); [exact H|apply s_get_app_some; exact H]. Qed.

(* whatever its state - configured, typed, or the empty slot left by a lookup *)
Theorem include_keeps_slot (c : cfg) (path : list str) (st : store) name e :
  s_get name st = Some e -> s_get name (capture_for c path st) = Some e.
Proof.
  intros H. unfold capture_for. apply (upd_inv store s_set (fun s => s_get name s = Some e)); [|exact H].
  intros k v a Ha. apply s_set_keeps. exact Ha.
Qed.

(* ---- several includes, at arbitrary points of the node-creation sequence ---- *)
Lemma capture_all_app cs c q : capture_all (cs ++ [c]) q = capture_for c q (capture_all cs q).
Proof. unfold capture_all. rewrite fold_left_app. reflexivity. Qed.

(* every module holds what capturing all configurations included so far, in the order of their
   inclusion, gives for its path *)
Definition sim_ok (s : sim) (done : list (list str)) : Prop :=
  modules s = map (fun q => (q, capture_all (cfgs s) q)) done.

Lemma include_ok s c done : sim_ok s done -> sim_ok (include_cfg s c) done /\ cfgs (include_cfg s c) = cfgs s ++ [c].
Proof.
  unfold sim_ok. intros H. split; [|reflexivity]. unfold include_cfg. cbn [modules cfgs]. rewrite H, map_map.
  apply map_ext. intros q. cbn [fst snd]. rewrite capture_all_app. reflexivity.
Qed.

Lemma include_all_ok l : forall s done, sim_ok s done ->
  sim_ok (include_all s l) done /\ cfgs (include_all s l) = cfgs s ++ map snd l.
Proof.
  induction l as [|x l IH]; intros s done H.
  - cbn. rewrite app_nil_r. split; [exact H|reflexivity].
  - unfold include_all. cbn [fold_left]. destruct (include_ok s (snd x) done H) as [H1 E1].
    destruct (IH _ done H1) as [H2 E2]. split; [exact H2|]. unfold include_all in E2. rewrite E2, E1, <- app_assoc. reflexivity.
Qed.

Lemma node_ok s q done : sim_ok s done -> sim_ok (node s q) (done ++ [q]) /\ cfgs (node s q) = cfgs s.
Proof.
  unfold sim_ok. intros H. split; [|reflexivity]. unfold node. cbn [modules cfgs]. rewrite H, map_app. reflexivity.
Qed.

Lemma build_ok : forall paths s pending i done, sim_ok s done ->
  sim_ok (build s pending i paths) (done ++ paths) /\
  cfgs (build s pending i paths) = cfgs s ++ map snd (time_order pending i (length paths)).
Proof.
  induction paths as [|q r IH]; intros s pending i done H.
  - cbn [build time_order length]. rewrite app_nil_r. apply include_all_ok. exact H.
  - cbn [build time_order length].
    destruct (include_all_ok (filter (at_now i) pending) s done H) as [H1 E1].
    destruct (node_ok _ q done H1) as [H2 E2].
    destruct (IH _ (filter (fun x => negb (at_now i x)) pending) (S i) _ H2) as [H3 E3].
    split; [rewrite <- app_assoc in H3; exact H3|]. rewrite E3, E2, E1, map_app, <- app_assoc. reflexivity.
Qed.

(* However the configurations are scheduled - each before, between or after the node creations - every module
   ends up with exactly the capture, in turn, of all of them in the order they were included. *)
Theorem include_order_irrelevant (sched : list (nat * cfg)) (paths : list (list str)) :
  modules (build sim_new sched 0 paths) =
  map (fun q => (q, capture_all (map snd (time_order sched 0 (length paths))) q)) paths.
Proof.
  assert (sim_ok sim_new []) as H0 by reflexivity.
  destruct (build_ok paths sim_new sched 0 [] H0) as [H E]. unfold sim_ok in H. cbn [app cfgs sim_new] in H, E.
  rewrite H, E. reflexivity.
Qed.

(* the inclusion order is a rearrangement of the schedule: nothing is lost or included twice *)
Lemma filter_split_perm {A} (f : A -> bool) l : Permutation (filter f l ++ filter (fun x => negb (f x)) l) l.
Proof.
  induction l as [|x l IH]; [constructor|]. cbn [filter]. destruct (f x); cbn [negb app].
  - constructor. exact IH.
  - apply Permutation_sym. apply Permutation_cons_app. apply Permutation_sym. exact IH.
Qed.

Theorem time_order_perm : forall k sched i, Permutation (time_order sched i k) sched.
Proof.
  induction k as [|k IH]; intros sched i; [apply Permutation_refl|]. cbn [time_order].
  eapply Permutation_trans; [apply Permutation_app_head; apply IH|]. apply filter_split_perm.
Qed.

(* ---- capture of several configurations in turn = capture of their union (first set wins) ---- *)
Definition rel_st (st a b : store) : Prop :=
  (forall x, In x a -> In x st \/ In x b) /\ (forall name, hasS name b -> hasS name a) /\ (forall x, In x st -> In x a).

Lemma s_get_hasS k st : (exists e, s_get k st = Some e) <-> hasS k st.
Proof.
  induction st as [|[k' e'] st IH]; cbn [s_get].
  - split; [intros [e H]; discriminate|intros [e []]].
  - destruct (str_eqb k k') eqn:E.
    + apply str_eqb_eq in E. subst. split; [intros _; exists e'; left; reflexivity|intros _; exists e'; reflexivity].
    + apply str_eqb_neq in E. rewrite IH. split.
      * intros [e H]. exists e. right. exact H.
      * intros [e [H|H]]; [injection H as -> _; contradiction|exists e; exact H].
Qed.

Lemma s_set_cases k v st :
  (hasS k st /\ s_set k v st = st) \/ (~ hasS k st /\ s_set k v st = st ++ [(k, EYaml v)]).
Proof.
  unfold s_set. destruct (s_get k st) as [e|] eqn:G.
  - left. split; [apply s_get_hasS; exists e; exact G|reflexivity].
  - right. split; [|reflexivity]. intros H. apply s_get_hasS in H. destruct H as [e H]. congruence.
Qed.

Lemma rel_st_set st k v a b : rel_st st a b -> rel_st st (s_set k v a) (s_set k v b).
Proof.
  intros [R1 [R2 R3]].
  destruct (s_set_cases k v a) as [[Ha ->]|[Ha ->]]; destruct (s_set_cases k v b) as [[Hb ->]|[Hb ->]].
  - split; [exact R1|split; [exact R2|exact R3]].
  - split; [|split; [|exact R3]].
    + intros x Hx. destruct (R1 x Hx) as [H|H]; [left; exact H|right; apply in_or_app; left; exact H].
    + intros name [e He]. apply in_app_or in He. destruct He as [He|[He|[]]]; [apply R2; exists e; exact He|].
      injection He as <- _. exact Ha.
  - exfalso. apply Ha. apply R2. exact Hb.
  - split; [|split].
    + intros x Hx. apply in_app_or in Hx. destruct Hx as [Hx|Hx].
      * destruct (R1 x Hx) as [H|H]; [left; exact H|right; apply in_or_app; left; exact H].
      * right. apply in_or_app. right. exact Hx.
    + intros name [e He]. apply in_app_or in He. destruct He as [He|[He|[]]].
      * destruct (R2 name (ex_intro _ e He)) as [e' He']. exists e'. apply in_or_app. left. exact He'.
      * injection He as <- <-. exists (EYaml v). apply in_or_app. right. left. reflexivity.
    + intros x Hx. apply in_or_app. left. apply R3. exact Hx.
Qed.

(* capturing into a store that already holds properties: nothing is lost, what is added comes from the
   configuration, and every name the configuration gives is present afterwards *)
Lemma capture_into_existing c q st : rel_st st (capture_for c q st) (capture_for_into c q).
Proof.
  unfold capture_for_into, capture_for.
  apply (upd_sim store store s_set s_set (rel_st st)); [intros k v a b; apply rel_st_set|].
  split; [intros x H; left; exact H|split; [intros name [e []]|intros x H; exact H]].
Qed.

Lemma capture_all_sound cs q : forall st x, In x (fold_left (fun st c => capture_for c q st) cs st) ->
  In x st \/ exists c, In c cs /\ In x (capture_for_into c q).
Proof.
  induction cs as [|c cs IH]; intros st x H; [left; exact H|]. cbn [fold_left] in H.
  destruct (IH _ x H) as [H1|[c' [Hc Hx]]].
  - destruct (proj1 (capture_into_existing c q st) x H1) as [H2|H2]; [left; exact H2|].
    right. exists c. split; [left; reflexivity|exact H2].
  - right. exists c'. split; [right; exact Hc|exact Hx].
Qed.

Lemma capture_all_mono cs q : forall st name, hasS name st -> hasS name (fold_left (fun st c => capture_for c q st) cs st).
Proof.
  induction cs as [|c cs IH]; intros st name H; [exact H|]. cbn [fold_left]. apply IH.
  destruct H as [e He]. exists e. apply (proj2 (proj2 (capture_into_existing c q st))). exact He.
Qed.

Lemma capture_all_complete cs q : forall st c name, In c cs -> hasS name (capture_for_into c q) ->
  hasS name (fold_left (fun st c => capture_for c q st) cs st).
Proof.
  induction cs as [|c0 cs IH]; intros st c name Hc H; [destruct Hc|]. cbn [fold_left]. destruct Hc as [->|Hc].
  - apply capture_all_mono. apply (proj1 (proj2 (capture_into_existing c q st))). exact H.
  - eapply IH; eassumption.
Qed.

Definition guarded (g : list (str * N)) : Prop := wf_cfgb g = true /\ known_classb g = false.

Lemma receives_concat groups p name v :
  receives (concat groups) p name v <-> exists g, In g groups /\ receives g p name v.
Proof.
  unfold receives. split.
  - intros [k [r [Hin HA]]]. apply in_concat in Hin. destruct Hin as [g [Hg Hk]]. exists g. split; [exact Hg|].
    exists k, r. split; [exact Hk|exact HA].
  - intros [g [Hg [k [r [Hk HA]]]]]. exists k, r. split; [apply in_concat; exists g; split; assumption|exact HA].
Qed.

(* For every partition of a configuration into includes (each a well-formed YAML mapping outside the known
   class) the modules receive exactly what the specification gives for the union of the entries. *)
Theorem multi_capture_sound groups p name e :
  Forall guarded groups -> wf_pathb p = true ->
  In (name, e) (capture_all (map cfg_new groups) p) ->
  exists v, e = EYaml (Scalar v) /\ receives (concat groups) p name v.
Proof.
  intros G Wp H. apply capture_all_sound in H. destruct H as [[]|[c [Hc Hx]]].
  apply in_map_iff in Hc. destruct Hc as [g [<- Hg]]. rewrite Forall_forall in G. destruct (G g Hg) as [W K].
  destruct (capture_sound g p W K Wp name e Hx) as [v [-> R]]. exists v. split; [reflexivity|].
  apply receives_concat. exists g. split; assumption.
Qed.

Theorem multi_capture_complete groups p name v :
  Forall guarded groups -> wf_pathb p = true ->
  receives (concat groups) p name v ->
  exists v', In (name, EYaml (Scalar v')) (capture_all (map cfg_new groups) p) /\ receives (concat groups) p name v'.
Proof.
  intros G Wp R. apply receives_concat in R. destruct R as [g [Hg R]]. pose proof G as G'. rewrite Forall_forall in G'.
  destruct (G' g Hg) as [W K]. destruct (capture_complete g p W K Wp name v R) as [v1 [Hin _]].
  assert (hasS name (capture_all (map cfg_new groups) p)) as [e He].
  { unfold capture_all. eapply capture_all_complete; [apply in_map; exact Hg|exists (EYaml (Scalar v1)); exact Hin]. }
  destruct (multi_capture_sound groups p name e G Wp He) as [v' [-> R']]. exists v'. split; assumption.
Qed.
