(* Cfg::new: compartmentalising a well-formed flat configuration yields a well-shaped
   mapping whose denotation is the configuration itself. *)
From Coq Require Import List NArith Bool Lia Permutation.
From DesVerif Require Import Props.Spec Props.Model Props.Bytes Props.Den Props.Route.
Import ListNotations.
Open Scope N_scope.

(* ---- guards on whole configurations ---- *)
Definition wf_cfg (cfg : list (str * N)) : Prop := NoDup (map fst cfg) /\ Forall wf_key (map fst cfg).
(* known finding: an entry keyed exactly by the text in front of another entry's wildcard *)
Definition KnownClass (cfg : list (str * N)) : Prop :=
  exists k1 k2 r, In k1 (map fst cfg) /\ In k2 (map fst cfg) /\ split_dot k2 = split_dot k1 ++ ANY :: r.

Definition flat (cfg : list (str * N)) : mapping := map (fun e => (fst e, Scalar (snd e))) cfg.
Definition D0 (cfg : list (str * N)) : list sentry := map (fun e => (split_dot (fst e), snd e)) cfg.

Lemma denm_flat cfg : denm (flat cfg) = D0 cfg.
Proof.
  induction cfg as [|[k v] cfg IH]; [reflexivity|]. unfold flat, D0 in *. cbn [map].
  rewrite denm_cons, IH. reflexivity.
Qed.
Lemma flat_keys cfg : map fst (flat cfg) = map fst cfg.
Proof. unfold flat. rewrite map_map. reflexivity. Qed.

(* ---- small list facts ---- *)
Lemma filter_none {A} (f : A -> bool) l : (forall x, In x l -> f x = false) -> filter f l = [].
Proof.
  induction l as [|x l IH]; intros H; [reflexivity|]. cbn [filter]. rewrite (H x (or_introl eq_refl)).
  apply IH. intros y Hy. apply H. right. exact Hy.
Qed.

Lemma m_get_app_last k v m : ~ In k (map fst m) -> m_get k (m ++ [(k, v)]) = Some v.
Proof.
  induction m as [|[k' v'] m IH]; intros H; cbn [app m_get].
  - rewrite str_eqb_refl. reflexivity.
  - destruct (str_eqb k k') eqn:E; [apply str_eqb_eq in E; subst; exfalso; apply H; left; reflexivity|].
    apply IH. intros X. apply H. right. exact X.
Qed.

Lemma ws_keys_not_flat t : WS t -> filter is_flat_any_key (map fst t) = [].
Proof.
  intros W. apply filter_none. intros k Hk. apply in_map_iff in Hk. destruct Hk as [[k' v] [<- Hin]]. cbn [fst].
  unfold is_flat_any_key.
  destruct (WS_entry t k' v W Hin) as [[n [_ K]]|[[s [_ [K _]]]|[s [-> _]]]];
    [unfold key_ok in K; rewrite K; reflexivity|unfold key_ok in K; rewrite K; reflexivity|].
  rewrite str_eqb_refl, andb_false_r. reflexivity.
Qed.

(* a key compatible with a well-shaped node is not yet a key of it *)
Lemma compat_fresh t b : WS t -> wf_key b -> compatD (denm t) (split_dot b) -> ~ In b (map fst t).
Proof.
  intros W Wb [C1 [C2 _]] H. apply in_map_iff in H. destruct H as [[k v] [E Hin]]. cbn [fst] in E. subst k.
  destruct (WS_entry t b v W Hin) as [[n [-> _]]|[[s [-> [_ [_ Ds]]]]|[s [X _]]]].
  - apply (C1 n). apply in_denm. exists (b, Scalar n). split; [exact Hin|left; reflexivity].
  - destruct (denm s) as [|[e n] D] eqn:E; [contradiction|].
    apply (C2 (split_dot b ++ ANY :: e) n e); [|reflexivity].
    apply in_denm. exists (b, Mapping [(ANY, Mapping s)]). split; [exact Hin|]. rewrite den_e_chunk, E.
    left. reflexivity.
  - exact (wf_key_not_any b Wb X).
Qed.

Lemma cstep_last rec t b n c rest : ~ In b (map fst t) -> decomp b c rest ->
  cstep rec (t ++ [(b, Scalar n)]) b = route rec (pre_text c) (DOT :: join_dot rest) (Scalar n) t.
Proof.
  intros Hb Dc. unfold cstep. rewrite (d_soa _ _ _ Dc). unfold m_swap_remove.
  rewrite m_get_app_last by exact Hb. rewrite swap_out_last by exact Hb. reflexivity.
Qed.

Lemma decomp_len b c rest : decomp b c rest -> (length (split_dot b) = length c + 1 + length rest)%nat.
Proof. intros Dc. rewrite (d_split _ _ _ Dc), app_length. cbn [length]. lia. Qed.

Lemma cmap_good : forall f, good_rec (compartmentalize_map f) f.
Proof.
  induction f as [|f IH]; intros t b n Wt Wb Lb Cp.
  - pose proof (split_dot_nonnil b). destruct (split_dot b); [contradiction|cbn [length] in Lb; lia].
  - pose proof (compat_fresh t b Wt Wb Cp) as Hb. rewrite m_insert_new by exact Hb.
    cbn [compartmentalize_map]. rewrite map_app, filter_app, (ws_keys_not_flat t Wt). cbn [map fst filter app].
    unfold is_flat_any_key. destruct (contains_any b) eqn:C.
    + assert (str_eqb b ANY = false) as Nb by (apply str_eqb_neq; apply wf_key_not_any; exact Wb).
      rewrite Nb. cbn [andb negb fold_left].
      destruct (wf_decomp b Wb C) as [c [rest Dc]]. rewrite (cstep_last _ t b n c rest Hb Dc).
      pose proof (decomp_len _ _ _ Dc) as EL.
      destruct (route_ok (compartmentalize_map f) f IH none (fun k (X : none k) => match X with end)
                         t b n c rest (proj1 (WS_node_ok t) Wt) Wb Dc ltac:(lia) Cp) as [Ns [P _]].
      split; [apply WS_node_ok; exact Ns|exact P].
    + cbn [andb fold_left]. split.
      * apply WS_node_ok. apply node_ok_append; [apply WS_node_ok; exact Wt|exact Hb|]. constructor. exact C.
      * rewrite denm_app, denm_cons, denm_nil, app_nil_r. apply Permutation_sym. apply Permutation_cons_append.
Qed.

(* ---- the top-level call ---- *)
Section Top.
  Variable cfg : list (str * N).
  Hypothesis Hwf : wf_cfg cfg.
  Hypothesis Hk : ~ KnownClass cfg.
  Variable rec : mapping -> mapping.
  Variable d : nat.
  Hypothesis Hrec : good_rec rec d.

  Lemma D0_in e n : In (e, n) (D0 cfg) -> exists k, In k (map fst cfg) /\ e = split_dot k.
  Proof.
    intros H. apply in_map_iff in H. destruct H as [[k v] [E Hin]]. cbn [fst snd] in E. injection E as <- <-.
    exists k. split; [apply in_map_iff; exists (k, v); split; [reflexivity|exact Hin]|reflexivity].
  Qed.

  Lemma D0_nodup : NoDup (map fst (D0 cfg)).
  Proof.
    destruct Hwf as [N0 _]. unfold D0. rewrite map_map. cbn [fst].
    rewrite <- (map_map fst split_dot). apply FinFun.Injective_map_NoDup; [|exact N0].
    intros a b. apply split_dot_inj.
  Qed.

  Lemma top_compat k n D : In k (map fst cfg) -> Permutation ((split_dot k, n) :: D) (D0 cfg) -> compatD D (split_dot k).
  Proof.
    intros Hin P. split; [|split].
    - intros n' X. pose proof D0_nodup as N0.
      apply (Permutation_NoDup (Permutation_map fst (Permutation_sym P))) in N0. cbn [map fst] in N0.
      inversion N0 as [|? ? Hn _]; subst. apply Hn. apply in_map_iff. exists (split_dot k, n'). split; [reflexivity|exact X].
    - intros e n' r X E. assert (In (e, n') (D0 cfg)) as Y by (eapply Permutation_in; [exact P|right; exact X]).
      destruct (D0_in _ _ Y) as [k2 [Hk2 ->]]. apply Hk. exists k, k2, r. repeat split; assumption.
    - intros e n' r X E. assert (In (e, n') (D0 cfg)) as Y by (eapply Permutation_in; [exact P|right; exact X]).
      destruct (D0_in _ _ Y) as [k1 [Hk1 ->]]. apply Hk. exists k1, k, r. repeat split; assumption.
  Qed.

  Lemma top_loop : forall R m,
    NoDup R ->
    (forall k, In k R -> In k (map fst cfg) /\ contains_any k = true /\ (length (split_dot k) <= S d)%nat /\
                         exists n, In (k, Scalar n) m) ->
    node_ok (fun k => In k R) m -> Permutation (denm m) (D0 cfg) ->
    WS (fold_left (cstep rec) R m) /\ Permutation (denm (fold_left (cstep rec) R m)) (D0 cfg).
  Proof.
    induction R as [|k R IH]; intros m NR HR Nm P.
    - cbn [fold_left]. split; [|exact P]. destruct Nm as [N0 F]. constructor; [exact N0|].
      intros e He. destruct (F e He) as [W|[n [_ []]]]. exact W.
    - cbn [fold_left]. inversion NR as [|? ? Hnk NR']; subst.
      destruct (HR k (or_introl eq_refl)) as [Hkc [C [Lk [n Hin]]]].
      assert (wf_key k) as Wk. { destruct Hwf as [_ F]. rewrite Forall_forall in F. exact (F k Hkc). }
      destruct (wf_decomp k Wk C) as [c [rest Dc]].
      pose proof Nm as [N0 Fm]. pose proof (in_m_get _ _ _ N0 Hin) as G.
      destruct (m_get_split _ _ _ G) as [a1 [a2 [Em Ha1]]]. subst m.
      destruct (nodup_app_keys _ _ _ _ N0) as [_ [Ha2 N12]].
      pose proof (swap_out_perm k (Scalar n) a1 a2 Ha1 Ha2) as PS.
      unfold cstep. rewrite (d_soa _ _ _ Dc). unfold m_swap_remove. rewrite G.
      set (m1 := swap_out k (a1 ++ (k, Scalar n) :: a2)) in *.
      assert (forall e, In e m1 -> In e (a1 ++ (k, Scalar n) :: a2) /\ fst e <> k) as Hm1.
      { intros e He. apply (Permutation_in _ PS) in He. split.
        - apply in_app_or in He. apply in_or_app. destruct He as [He|He]; [left; exact He|right; right; exact He].
        - intros X. apply in_app_or in He. destruct He as [He|He]; [apply Ha1|apply Ha2]; rewrite <- X; apply in_map; exact He. }
      assert (node_ok (fun k' => In k' R) m1) as Nm1.
      { split.
        - apply (Permutation_NoDup (Permutation_sym (perm_keys _ _ PS))). exact N12.
        - intros e He. destruct (Hm1 e He) as [He1 Hne]. destruct (Fm e He1) as [W|[n' [E [X|X]]]].
          + left. exact W.
          + exfalso. apply Hne. symmetry. exact X.
          + right. exists n'. split; assumption. }
      assert (Permutation ((split_dot k, n) :: denm m1) (D0 cfg)) as P1.
      { eapply Permutation_trans; [|exact P]. rewrite denm_app, denm_cons, den_e_scalar. cbn [app].
        apply Permutation_trans with ((split_dot k, n) :: denm (a1 ++ a2)).
        - constructor. apply denm_perm. exact PS.
        - rewrite denm_app. apply Permutation_middle. }
      pose proof (decomp_len _ _ _ Dc) as EL.
      destruct (route_ok rec d Hrec (fun k' => In k' R)) with (s := m1) (b := k) (n := n) (c := c) (rest := rest)
        as [Ns [Pn Keep]].
      + intros k' Hk'. destruct (HR k' (or_intror Hk')) as [Hc' [C' _]]. split; [exact C'|].
        apply wf_key_not_any. destruct Hwf as [_ F]. rewrite Forall_forall in F. exact (F k' Hc').
      + exact Nm1.
      + exact Wk.
      + exact Dc.
      + lia.
      + apply (top_compat k n); assumption.
      + apply IH.
        * exact NR'.
        * intros k' Hk'. destruct (HR k' (or_intror Hk')) as [Hc' [C' [L' [n' Hin']]]].
          split; [exact Hc'|]. split; [exact C'|]. split; [exact L'|]. exists n'.
          assert (k' <> k) as Nk by (intros ->; contradiction).
          apply Keep; [|exact C'|apply wf_key_not_any; destruct Hwf as [_ F]; rewrite Forall_forall in F; exact (F k' Hc')].
          apply (Permutation_in _ (Permutation_sym PS)). apply in_app_or in Hin'. apply in_or_app.
          destruct Hin' as [X|[X|X]]; [left; exact X|injection X as X _; congruence|right; exact X].
        * exact Ns.
        * eapply Permutation_trans; [exact Pn|exact P1].
  Qed.
End Top.

Lemma key_len_bound (cfg : list (str * N)) k : In k (map fst cfg) -> (length k <= length (concat (map fst cfg)))%nat.
Proof.
  induction cfg as [|[k' v] cfg IH]; intros H; [destruct H|]. cbn [map fst concat]. rewrite app_length.
  cbn [map fst In] in H. destruct H as [->|H]; [lia|]. specialize (IH H). lia.
Qed.

Theorem cfg_new_ok cfg : wf_cfg cfg -> ~ KnownClass cfg ->
  exists m, cfg_new cfg = Mapping m /\ WS m /\ Permutation (denm m) (D0 cfg).
Proof.
  intros Hwf Hk. unfold cfg_new, cfg_fuel, compartmentalize. cbn [compartmentalize_map].
  fold (flat cfg). set (F := length (concat (map fst cfg))).
  exists (fold_left (cstep (compartmentalize_map F)) (filter is_flat_any_key (map fst (flat cfg))) (flat cfg)).
  split; [reflexivity|].
  assert (forall k, In k (filter is_flat_any_key (map fst (flat cfg))) -> In k (map fst cfg) /\ contains_any k = true) as HF.
  { intros k H. apply filter_In in H. destruct H as [H1 H2]. rewrite flat_keys in H1. split; [exact H1|].
    unfold is_flat_any_key in H2. apply andb_true_iff in H2. exact (proj1 H2). }
  apply (top_loop cfg Hwf Hk (compartmentalize_map F) F (cmap_good F)).
  - apply NoDup_filter. rewrite flat_keys. exact (proj1 Hwf).
  - intros k H. destruct (HF k H) as [H1 C]. split; [exact H1|]. split; [exact C|]. split.
    + pose proof (split_dot_length k). pose proof (key_len_bound cfg k H1). unfold F. lia.
    + apply in_map_iff in H1. destruct H1 as [[k' v] [E Hin]]. cbn [fst] in E. subst k'. exists v.
      unfold flat. apply in_map_iff. exists (k, v). split; [reflexivity|exact Hin].
  - split; [rewrite flat_keys; exact (proj1 Hwf)|]. intros [k x] He. unfold flat in He. apply in_map_iff in He.
    destruct He as [[k' v] [E Hin]]. cbn [fst snd] in E. injection E as <- <-.
    assert (In k' (map fst cfg)) as Hkc by (apply in_map_iff; exists (k', v); split; [reflexivity|exact Hin]).
    destruct (is_flat_any_key k') eqn:Fk.
    + right. exists v. split; [reflexivity|]. cbn [fst]. apply filter_In. split; [rewrite flat_keys; exact Hkc|exact Fk].
    + left. constructor. unfold key_ok. unfold is_flat_any_key in Fk. apply andb_false_iff in Fk.
      destruct Fk as [Fk|Fk]; [exact Fk|]. apply negb_false_iff, str_eqb_eq in Fk. exfalso.
      destruct Hwf as [_ Fw]. rewrite Forall_forall in Fw. exact (wf_key_not_any k' (Fw k' Hkc) Fk).
  - rewrite denm_flat. apply Permutation_refl.
Qed.
