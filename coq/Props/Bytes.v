(* Byte-string facts: split/join on '.', prefixes, the "<any>" search. *)
From Coq Require Import List NArith Bool Lia.
From DesVerif Require Import Props.Spec Props.Model.
Import ListNotations.
Open Scope N_scope.

Definition dotfree (s : str) : Prop := ~ In DOT s.

(* ---- equality ---- *)
Lemma str_eqb_eq a b : str_eqb a b = true <-> a = b.
Proof.
  revert b; induction a as [|x a IH]; intros [|y b]; cbn [str_eqb]; try (split; [discriminate|discriminate]).
  - split; reflexivity.
  - rewrite andb_true_iff, N.eqb_eq, IH. split; [intros [-> ->]; reflexivity|intros H; injection H as -> ->; split; reflexivity].
Qed.
Lemma str_eqb_refl a : str_eqb a a = true.
Proof. apply str_eqb_eq; reflexivity. Qed.
Lemma str_eqb_neq a b : str_eqb a b = false <-> a <> b.
Proof.
  split.
  - intros H E. apply str_eqb_eq in E. congruence.
  - intros H. destruct (str_eqb a b) eqn:E; [apply str_eqb_eq in E; contradiction|reflexivity].
Qed.
Lemma str_eqb_sym a b : str_eqb a b = str_eqb b a.
Proof.
  destruct (str_eqb a b) eqn:E.
  - apply str_eqb_eq in E. subst. symmetry. apply str_eqb_refl.
  - symmetry. apply str_eqb_neq. apply str_eqb_neq in E. congruence.
Qed.

(* ---- prefixes ---- *)
Lemma prefixb_spec p s : prefixb p s = true <-> exists t, s = p ++ t.
Proof.
  revert s; induction p as [|x p IH]; intros s; cbn [prefixb].
  - split; [intros _; exists s; reflexivity|reflexivity].
  - destruct s as [|y s].
    + split; [discriminate|intros [t H]; discriminate].
    + rewrite andb_true_iff, N.eqb_eq, IH. split.
      * intros [-> [t ->]]. exists t. reflexivity.
      * intros [t H]. injection H as -> ->. split; [reflexivity|exists t; reflexivity].
Qed.

Lemma prefixb_app p t : prefixb p (p ++ t) = true.
Proof. apply prefixb_spec. exists t. reflexivity. Qed.

Lemma skipn_app_len {A} (p t : list A) : skipn (length p) (p ++ t) = t.
Proof. induction p as [|x p IH]; [reflexivity|exact IH]. Qed.

(* ---- split / join ---- *)
Lemma split_dot_nonnil s : split_dot s <> [].
Proof.
  destruct s as [|c r]; cbn [split_dot]; [discriminate|].
  destruct (c =? DOT); [discriminate|]. destruct (split_dot r); discriminate.
Qed.

Lemma split_dot_cons_nodot c r : c <> DOT ->
  split_dot (c :: r) = match split_dot r with [] => [[c]] | h :: t => (c :: h) :: t end.
Proof. intros H. cbn [split_dot]. apply N.eqb_neq in H. rewrite H. reflexivity. Qed.

Lemma split_dot_dotfree s : dotfree s -> split_dot s = [s].
Proof.
  induction s as [|c r IH]; intros H; [reflexivity|].
  rewrite split_dot_cons_nodot by (intros E; apply H; left; exact E).
  rewrite IH by (intros E; apply H; right; exact E). reflexivity.
Qed.

Lemma split_dot_app h r : dotfree h -> split_dot (h ++ DOT :: r) = h :: split_dot r.
Proof.
  induction h as [|c h IH]; intros H.
  - cbn [app split_dot]. rewrite N.eqb_refl. reflexivity.
  - cbn [app]. rewrite split_dot_cons_nodot by (intros E; apply H; left; exact E).
    rewrite IH by (intros E; apply H; right; exact E). reflexivity.
Qed.

Lemma split_dot_segs_dotfree s : Forall dotfree (split_dot s).
Proof.
  induction s as [|c r IH]; cbn [split_dot].
  - constructor; [intros []|constructor].
  - destruct (c =? DOT) eqn:E.
    + constructor; [intros []|exact IH].
    + apply N.eqb_neq in E. destruct (split_dot r) as [|h t].
      * constructor; [|constructor]. intros [X|[]]. congruence.
      * inversion IH as [|? ? Hh Ht]; subst. constructor; [|exact Ht].
        intros [X|X]; [congruence|exact (Hh X)].
Qed.

Lemma join_dot_cons2 h x L : join_dot (h :: x :: L) = h ++ DOT :: join_dot (x :: L).
Proof. reflexivity. Qed.

Lemma join_split s : join_dot (split_dot s) = s.
Proof.
  induction s as [|c r IH]; [reflexivity|]. cbn [split_dot].
  destruct (c =? DOT) eqn:E.
  - apply N.eqb_eq in E. subst c. pose proof (split_dot_nonnil r) as N0.
    destruct (split_dot r) as [|h t]; [contradiction|]. rewrite join_dot_cons2, IH. reflexivity.
  - pose proof (split_dot_nonnil r) as N0. destruct (split_dot r) as [|h t]; [contradiction|].
    destruct t as [|x t].
    + cbn [join_dot] in *. rewrite IH. reflexivity.
    + rewrite join_dot_cons2. rewrite join_dot_cons2 in IH. rewrite <- IH. reflexivity.
Qed.

Lemma split_join L : L <> [] -> Forall dotfree L -> split_dot (join_dot L) = L.
Proof.
  induction L as [|h L IH]; intros N0 F; [contradiction|].
  inversion F as [|? ? Hh Ht]; subst. destruct L as [|x L].
  - cbn [join_dot]. apply split_dot_dotfree; exact Hh.
  - rewrite join_dot_cons2, split_dot_app by exact Hh. rewrite IH; [reflexivity|discriminate|exact Ht].
Qed.

Lemma join_dot_app A B : A <> [] -> B <> [] -> join_dot (A ++ B) = join_dot A ++ DOT :: join_dot B.
Proof.
  induction A as [|h A IH]; intros NA NB; [contradiction|].
  destruct A as [|x A].
  - cbn [app]. destruct B as [|y B]; [contradiction|]. rewrite join_dot_cons2. reflexivity.
  - cbn [app]. rewrite !join_dot_cons2. cbn [app] in IH. rewrite IH by (discriminate || exact NB).
    rewrite <- app_assoc. reflexivity.
Qed.

Lemma split_dot_app_gen a b : split_dot (a ++ DOT :: b) = split_dot a ++ split_dot b.
Proof.
  induction a as [|c a IH].
  - cbn [app split_dot]. rewrite N.eqb_refl. reflexivity.
  - cbn [app split_dot]. destruct (c =? DOT) eqn:E.
    + rewrite IH. reflexivity.
    + rewrite IH. pose proof (split_dot_nonnil a) as N0.
      destruct (split_dot a) as [|h t]; [contradiction|]. reflexivity.
Qed.

Lemma join_inj A B : A <> [] -> B <> [] -> Forall dotfree A -> Forall dotfree B -> join_dot A = join_dot B -> A = B.
Proof. intros NA NB FA FB E. rewrite <- (split_join A NA FA), <- (split_join B NB FB), E. reflexivity. Qed.

Lemma split_dot_inj a b : split_dot a = split_dot b -> a = b.
Proof. intros E. rewrite <- (join_split a), <- (join_split b), E. reflexivity. Qed.

(* ---- "<any>" ---- *)
Lemma any_dotfree : dotfree ANY.
Proof. unfold dotfree, ANY, DOT. cbn. intros [H|[H|[H|[H|[H|[]]]]]]; discriminate. Qed.

Lemma prefix_any_dot u w : prefixb ANY (u ++ DOT :: w) = true -> prefixb ANY u = true.
Proof.
  intros H. apply prefixb_spec in H. destruct H as [t H]. apply prefixb_spec.
  assert (forall (p u t w : str), ~ In DOT p -> u ++ DOT :: w = p ++ t -> exists t', u = p ++ t') as G.
  { clear. induction p as [|x p IH]; intros u t w Hp E.
    - exists u. reflexivity.
    - destruct u as [|y u].
      + cbn in E. injection E as E1 E2. exfalso. apply Hp. left. symmetry. exact E1.
      + cbn in E. injection E as -> E2. destruct (IH u t w) as [t' ->]; [intros X; apply Hp; right; exact X|exact E2|].
        exists t'. reflexivity. }
  exact (G ANY u t w any_dotfree H).
Qed.

Lemma contains_any_app_dot h b : contains_any (h ++ DOT :: b) = contains_any h || contains_any b.
Proof.
  induction h as [|c h IH].
  - cbn [app]. change (contains_any (DOT :: b)) with (prefixb ANY (DOT :: b) || contains_any b). reflexivity.
  - cbn [app]. change (contains_any (c :: h ++ DOT :: b)) with (prefixb ANY ((c :: h) ++ DOT :: b) || contains_any (h ++ DOT :: b)).
    change (contains_any (c :: h)) with (prefixb ANY (c :: h) || contains_any h).
    rewrite IH. destruct (prefixb ANY ((c :: h) ++ DOT :: b)) eqn:E.
    + apply prefix_any_dot in E. rewrite E. reflexivity.
    + destruct (prefixb ANY (c :: h)) eqn:E2.
      * apply prefixb_spec in E2. destruct E2 as [t E2]. rewrite E2, <- app_assoc, prefixb_app in E. discriminate.
      * rewrite orb_assoc. reflexivity.
Qed.

Lemma contains_any_nil : contains_any [] = false.
Proof. reflexivity. Qed.

Lemma contains_any_join L : contains_any (join_dot L) = existsb contains_any L.
Proof.
  induction L as [|h L IH]; [reflexivity|]. destruct L as [|x L].
  - cbn [join_dot existsb]. rewrite orb_false_r. reflexivity.
  - rewrite join_dot_cons2, contains_any_app_dot, IH. reflexivity.
Qed.

Lemma contains_any_split k : contains_any k = existsb contains_any (split_dot k).
Proof. rewrite <- contains_any_join, join_split. reflexivity. Qed.

Lemma contains_any_ANY : contains_any ANY = true.
Proof. reflexivity. Qed.

Lemma any_seg_contains k : In ANY (split_dot k) -> contains_any k = true.
Proof.
  intros H. rewrite contains_any_split. apply existsb_exists. exists ANY. split; [exact H|reflexivity].
Qed.

Lemma soa_none s : contains_any s = false -> split_once_any s = None.
Proof.
  induction s as [|c s IH]; intros H.
  - reflexivity.
  - change (contains_any (c :: s)) with (prefixb ANY (c :: s) || contains_any s) in H.
    apply orb_false_iff in H. destruct H as [H1 H2]. cbn [split_once_any]. rewrite H1, (IH H2). reflexivity.
Qed.

Definition pre_opt (h : str) (o : option (str * str)) : option (str * str) :=
  match o with Some (a, b) => Some (h ++ a, b) | None => None end.

Lemma soa_step h b : contains_any h = false ->
  split_once_any (h ++ DOT :: b) = pre_opt (h ++ [DOT]) (split_once_any b).
Proof.
  induction h as [|c h IH]; intros H.
  - cbn [app]. cbn [split_once_any]. change (prefixb ANY (DOT :: b)) with false. cbv iota.
    destruct (split_once_any b) as [[a b']|]; reflexivity.
  - change (contains_any (c :: h)) with (prefixb ANY (c :: h) || contains_any h) in H.
    apply orb_false_iff in H. destruct H as [H1 H2].
    cbn [app]. cbn [split_once_any].
    destruct (prefixb ANY (c :: h ++ DOT :: b)) eqn:E.
    + apply (prefix_any_dot (c :: h) b) in E. congruence.
    + rewrite (IH H2). destruct (split_once_any b) as [[a b']|]; reflexivity.
Qed.

Lemma soa_any t : split_once_any (ANY ++ t) = Some ([], t).
Proof. reflexivity. Qed.

(* text in front of the first wildcard segment, as split_once leaves it *)
Definition pre_text (c : list str) : str := match c with [] => [] | _ => join_dot c ++ [DOT] end.

Lemma soa_segs c rest : Forall (fun s => contains_any s = false) c -> rest <> [] ->
  split_once_any (join_dot (c ++ ANY :: rest)) = Some (pre_text c, DOT :: join_dot rest).
Proof.
  intros F NR. induction c as [|h c IH].
  - cbn [app pre_text]. destruct rest as [|x rest]; [contradiction|]. rewrite join_dot_cons2. apply soa_any.
  - inversion F as [|? ? Hh Ht]; subst. cbn [app].
    destruct (c ++ ANY :: rest) as [|x L] eqn:E; [destruct c; discriminate|].
    rewrite join_dot_cons2, soa_step by exact Hh. rewrite (IH Ht). cbn [pre_opt].
    f_equal. f_equal. unfold pre_text. destruct c as [|y c].
    + cbn [join_dot]. rewrite app_nil_r. reflexivity.
    + rewrite join_dot_cons2, <- !app_assoc. reflexivity.
Qed.

(* ---- trims ---- *)
Lemma trim_start_nodot c s : c <> DOT -> trim_start_dots (c :: s) = c :: s.
Proof. intros H. cbn [trim_start_dots]. apply N.eqb_neq in H. rewrite H. reflexivity. Qed.

Lemma trim_start_dot s : trim_start_dots (DOT :: s) = trim_start_dots s.
Proof. cbn [trim_start_dots]. rewrite N.eqb_refl. reflexivity. Qed.

(* a non-empty dot-free first segment: the text does not start with '.' *)
Lemma join_head L h : L = h :: tl L -> h <> [] -> dotfree h -> exists c s, join_dot L = c :: s /\ c <> DOT.
Proof.
  intros E N0 D. destruct h as [|c h]; [contradiction|].
  rewrite E. exists c. destruct (tl L) as [|x T].
  - exists h. split; [reflexivity|]. intros X. apply D. left. exact X.
  - exists (h ++ DOT :: join_dot (x :: T)). split; [reflexivity|]. intros X. apply D. left. exact X.
Qed.

Lemma trim_start_join x rest : x <> [] -> dotfree x -> trim_start_dots (DOT :: join_dot (x :: rest)) = join_dot (x :: rest).
Proof.
  intros N0 D. rewrite trim_start_dot. destruct (join_head (x :: rest) x eq_refl N0 D) as [c [s [E Hc]]].
  rewrite E. apply trim_start_nodot. exact Hc.
Qed.

Lemma join_last c l : l <> [] -> dotfree l -> exists s z, join_dot (c ++ [l]) = s ++ [z] /\ z <> DOT.
Proof.
  intros N0 D. destruct (exists_last N0) as [l' [z ->]].
  assert (z <> DOT) as Hz. { intros X. apply D. apply in_or_app. right. left. exact X. }
  destruct c as [|h c].
  - exists l', z. split; [reflexivity|exact Hz].
  - rewrite join_dot_app by discriminate. cbn [join_dot].
    exists (join_dot (h :: c) ++ DOT :: l'), z. split; [|exact Hz].
    rewrite <- app_assoc. reflexivity.
Qed.

Lemma trim_end_join c l : l <> [] -> dotfree l -> trim_end_dots (join_dot (c ++ [l]) ++ [DOT]) = join_dot (c ++ [l]).
Proof.
  intros N0 D. destruct (join_last c l N0 D) as [s [z [E Hz]]]. rewrite E. unfold trim_end_dots.
  rewrite rev_app_distr. cbn [rev app]. rewrite trim_start_dot, rev_app_distr. cbn [rev app].
  rewrite trim_start_nodot by exact Hz. cbn [rev]. rewrite rev_involutive. reflexivity.
Qed.

(* ---- lengths ---- *)
Lemma split_dot_length s : (length (split_dot s) <= S (length s))%nat.
Proof.
  induction s as [|c r IH]; [cbn; lia|]. cbn [split_dot]. destruct (c =? DOT).
  - cbn [length]. lia.
  - pose proof (split_dot_nonnil r). destruct (split_dot r); [contradiction|]. cbn [length] in *. lia.
Qed.
