(* What a (compartmentalised) mapping denotes: the flat segment-keyed entries
   obtained by concatenating the key segments along the way down to each scalar;
   the shape of mappings that compartmentalize produces; association-list facts. *)
From Coq Require Import List NArith Bool Lia Permutation.
From DesVerif Require Import Props.Spec Props.Model Props.Bytes.
Import ListNotations.
Open Scope N_scope.

Definition sentry := (list str * N)%type.
Definition pre (q : list str) (e : sentry) : sentry := (q ++ fst e, snd e).

Fixpoint den (v : value) : list sentry :=
  match v with
  | Scalar _ => []
  | Mapping m =>
      (fix go (m : mapping) : list sentry :=
         match m with
         | [] => []
         | (k, x) :: r => match x with
                          | Scalar n => [(split_dot k, n)]
                          | Mapping _ => map (pre (split_dot k)) (den x)
                          end ++ go r
         end) m
  end.

Definition den_e (e : str * value) : list sentry :=
  match snd e with
  | Scalar n => [(split_dot (fst e), n)]
  | Mapping _ => map (pre (split_dot (fst e))) (den (snd e))
  end.
Definition denm (m : mapping) : list sentry := den (Mapping m).

Lemma denm_flat_map m : denm m = flat_map den_e m.
Proof.
  unfold denm. induction m as [|[k x] m IH]; [reflexivity|].
  cbn [den flat_map]. cbn [den] in IH. rewrite IH. destruct x; reflexivity.
Qed.

Lemma denm_app a b : denm (a ++ b) = denm a ++ denm b.
Proof. rewrite !denm_flat_map. apply flat_map_app. Qed.
Lemma denm_cons e m : denm (e :: m) = den_e e ++ denm m.
Proof. rewrite !denm_flat_map. reflexivity. Qed.
Lemma denm_nil : denm [] = [].
Proof. reflexivity. Qed.

Lemma in_denm x m : In x (denm m) <-> exists e, In e m /\ In x (den_e e).
Proof. rewrite denm_flat_map. apply in_flat_map. Qed.

Lemma denm_perm a b : Permutation a b -> Permutation (denm a) (denm b).
Proof. rewrite !denm_flat_map. apply Permutation_flat_map. Qed.

Lemma den_e_scalar k n : den_e (k, Scalar n) = [(split_dot k, n)].
Proof. reflexivity. Qed.
Lemma den_e_mapping k s : den_e (k, Mapping s) = map (pre (split_dot k)) (denm s).
Proof. reflexivity. Qed.
Lemma split_dot_ANY : split_dot ANY = [ANY].
Proof. reflexivity. Qed.
Lemma den_e_any s : den_e (ANY, Mapping s) = map (pre [ANY]) (denm s).
Proof. reflexivity. Qed.
Lemma den_e_chunk k s : den_e (k, Mapping [(ANY, Mapping s)]) = map (pre (split_dot k)) (map (pre [ANY]) (denm s)).
Proof.
  rewrite den_e_mapping. f_equal. rewrite denm_cons, den_e_any, denm_nil, app_nil_r. reflexivity.
Qed.

Lemma pre_pre a b e : pre a (pre b e) = pre (a ++ b) e.
Proof. unfold pre. cbn [fst snd]. rewrite app_assoc. reflexivity. Qed.

(* ---- shape of compartmentalised mappings ---- *)
Definition key_ok (k : str) : Prop := contains_any k = false.

Inductive WS : mapping -> Prop :=
| WS_intro m : NoDup (map fst m) -> (forall e, In e m -> WSe e) -> WS m
with WSe : str * value -> Prop :=
| WSe_flat k n : key_ok k -> WSe (k, Scalar n)
| WSe_chunk k s : key_ok k -> WS s -> denm s <> [] -> WSe (k, Mapping [(ANY, Mapping s)])
| WSe_any s : WS s -> denm s <> [] -> WSe (ANY, Mapping s).

(* a mapping some of whose flat keys (those in U) still await rewriting *)
Definition node_ok (U : str -> Prop) (m : mapping) : Prop :=
  NoDup (map fst m) /\
  forall e, In e m -> WSe e \/ (exists n, e = (fst e, Scalar n) /\ U (fst e)).

Definition none : str -> Prop := fun _ => False.

Lemma WS_node_ok m : WS m <-> node_ok none m.
Proof.
  split.
  - intros H. inversion H as [? N0 F]; subst. split; [exact N0|]. intros e He. left. exact (F e He).
  - intros [N0 F]. constructor; [exact N0|]. intros e He. destruct (F e He) as [W|[n [_ []]]]. exact W.
Qed.

Lemma WS_nil : WS [].
Proof. constructor; [constructor|intros e []]. Qed.

Lemma key_ok_not_any k : key_ok k -> k <> ANY.
Proof. intros H E. subst k. unfold key_ok in H. rewrite contains_any_ANY in H. discriminate. Qed.

(* the three kinds of entries of a well-shaped mapping *)
Lemma WS_entry m k v : WS m -> In (k, v) m ->
  (exists n, v = Scalar n /\ key_ok k) \/
  (exists s, v = Mapping [(ANY, Mapping s)] /\ key_ok k /\ WS s /\ denm s <> []) \/
  (exists s, k = ANY /\ v = Mapping s /\ WS s /\ denm s <> []).
Proof.
  intros W H. inversion W as [? _ F]; subst. specialize (F _ H).
  inversion F as [k' n K|k' s K Ws Ds|s Ws Ds]; subst.
  - left. exists n. split; [reflexivity|exact K].
  - right. left. exists s. split; [reflexivity|]. split; [exact K|]. split; [exact Ws|exact Ds].
  - right. right. exists s. split; [reflexivity|]. split; [reflexivity|]. split; [exact Ws|exact Ds].
Qed.

Lemma WS_nodup m : WS m -> NoDup (map fst m).
Proof. intros W. inversion W; assumption. Qed.

(* ---- association lists ---- *)
Lemma m_get_in k v m : m_get k m = Some v -> In (k, v) m.
Proof.
  induction m as [|[k' v'] m IH]; cbn [m_get]; [discriminate|].
  destruct (str_eqb k k') eqn:E.
  - apply str_eqb_eq in E. subst. intros H. injection H as ->. left. reflexivity.
  - intros H. right. exact (IH H).
Qed.

Lemma m_get_none k m : m_get k m = None <-> ~ In k (map fst m).
Proof.
  induction m as [|[k' v'] m IH]; cbn [m_get map fst In].
  - split; [intros _ []|reflexivity].
  - destruct (str_eqb k k') eqn:E.
    + apply str_eqb_eq in E. subst. split; [discriminate|]. intros H. exfalso. apply H. left. reflexivity.
    + apply str_eqb_neq in E. rewrite IH. split.
      * intros H [X|X]; [congruence|exact (H X)].
      * intros H X. apply H. right. exact X.
Qed.

Lemma in_m_get k v m : NoDup (map fst m) -> In (k, v) m -> m_get k m = Some v.
Proof.
  induction m as [|[k' v'] m IH]; intros N0 H; [destruct H|].
  cbn [map fst] in N0. inversion N0 as [|? ? Hn N1]; subst. cbn [m_get].
  destruct H as [H|H].
  - injection H as -> ->. rewrite str_eqb_refl. reflexivity.
  - destruct (str_eqb k k') eqn:E.
    + apply str_eqb_eq in E. subst. exfalso. apply Hn. apply in_map_iff. exists (k', v). split; [reflexivity|exact H].
    + exact (IH N1 H).
Qed.

Lemma m_get_split k v m : m_get k m = Some v ->
  exists a b, m = a ++ (k, v) :: b /\ ~ In k (map fst a).
Proof.
  induction m as [|[k' v'] m IH]; cbn [m_get]; [discriminate|].
  destruct (str_eqb k k') eqn:E.
  - apply str_eqb_eq in E. subst. intros H. injection H as ->. exists [], m. split; [reflexivity|intros []].
  - intros H. destruct (IH H) as [a [b [-> Ha]]]. exists ((k', v') :: a), b. split; [reflexivity|].
    apply str_eqb_neq in E. intros [X|X]; [cbn in X; congruence|exact (Ha X)].
Qed.

Lemma m_has_true k m : m_has k m = true <-> In k (map fst m).
Proof.
  unfold m_has. destruct (m_get k m) eqn:E.
  - split; [|reflexivity]. intros _. apply m_get_in in E. apply in_map_iff. exists (k, v). split; [reflexivity|exact E].
  - split; [discriminate|]. intros H. apply m_get_none in E. contradiction.
Qed.
Lemma m_has_false k m : m_has k m = false <-> ~ In k (map fst m).
Proof.
  rewrite <- m_has_true. destruct (m_has k m); split; congruence.
Qed.

Lemma m_set_split k v a old b : ~ In k (map fst a) -> m_set k v (a ++ (k, old) :: b) = a ++ (k, v) :: b.
Proof.
  induction a as [|[k' v'] a IH]; intros H; cbn [app m_set].
  - rewrite str_eqb_refl. reflexivity.
  - destruct (str_eqb k k') eqn:E.
    + apply str_eqb_eq in E. subst. exfalso. apply H. left. reflexivity.
    + rewrite IH; [reflexivity|]. intros X. apply H. right. exact X.
Qed.

Lemma replace_first_split k e a old b : ~ In k (map fst a) -> replace_first k e (a ++ (k, old) :: b) = a ++ e :: b.
Proof.
  induction a as [|[k' v'] a IH]; intros H; cbn [app replace_first].
  - rewrite str_eqb_refl. reflexivity.
  - destruct (str_eqb k k') eqn:E.
    + apply str_eqb_eq in E. subst. exfalso. apply H. left. reflexivity.
    + rewrite IH; [reflexivity|]. intros X. apply H. right. exact X.
Qed.

Lemma m_insert_new k v m : ~ In k (map fst m) -> m_insert k v m = m ++ [(k, v)].
Proof. intros H. unfold m_insert. apply m_has_false in H. rewrite H. reflexivity. Qed.

(* swap_remove of the key that sits in [a ++ (k, old) :: b] *)
Lemma swap_out_perm k old a b : ~ In k (map fst a) -> ~ In k (map fst b) ->
  Permutation (swap_out k (a ++ (k, old) :: b)) (a ++ b).
Proof.
  intros Ha Hb. unfold swap_out. destruct b as [|x b] using rev_ind.
  - rewrite rev_app_distr. cbn [rev app]. rewrite rev_involutive.
    apply m_has_false in Ha. rewrite Ha, app_nil_r. apply Permutation_refl.
  - clear IHb. rewrite app_comm_cons, app_assoc, rev_app_distr. cbn [rev app]. rewrite rev_involutive.
    assert (m_has k (a ++ (k, old) :: b) = true) as Hh.
    { apply m_has_true. rewrite map_app. apply in_or_app. right. left. reflexivity. }
    rewrite Hh, replace_first_split by exact Ha.
    rewrite app_assoc. apply Permutation_sym. apply Permutation_trans with (x :: a ++ b).
    + apply Permutation_sym. apply Permutation_cons_append.
    + apply Permutation_middle.
Qed.

Lemma swap_out_last k v m : ~ In k (map fst m) -> swap_out k (m ++ [(k, v)]) = m.
Proof.
  intros H. unfold swap_out. rewrite rev_app_distr. cbn [rev app]. rewrite rev_involutive.
  apply m_has_false in H. rewrite H. reflexivity.
Qed.

Lemma perm_keys (a b : mapping) : Permutation a b -> Permutation (map fst a) (map fst b).
Proof. apply Permutation_map. Qed.

Lemma nodup_app_keys (a b : mapping) k v :
  NoDup (map fst (a ++ (k, v) :: b)) -> ~ In k (map fst a) /\ ~ In k (map fst b) /\ NoDup (map fst (a ++ b)).
Proof.
  rewrite !map_app. cbn [map fst]. intros H. apply NoDup_remove in H. destruct H as [H1 H2].
  split; [|split; [|exact H1]]; intros X; apply H2; apply in_or_app; [left|right]; exact X.
Qed.
