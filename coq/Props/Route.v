(* One iteration of compartmentalize_map's loop (after the key was removed): routing a
   well-formed key through a node keeps the node well-shaped and adds exactly that
   key to the node's denotation. *)
From Coq Require Import List NArith Bool Lia Permutation.
From DesVerif Require Import Props.Spec Props.Model Props.Bytes Props.Den.
Import ListNotations.
Open Scope N_scope.

(* key segments: non-empty; the wildcard only as a whole segment; a property name at the end *)
Definition wf_kseg (s : str) : Prop := s <> [] /\ (s = ANY \/ contains_any s = false).
Definition wf_key (k : str) : Prop := Forall wf_kseg (split_dot k) /\ last (split_dot k) [] <> ANY.

(* no clash between the entries D of a node and a new key with segments L *)
Definition compatD (D : list sentry) (L : list str) : Prop :=
  (forall n, ~ In (L, n) D) /\
  (forall e n r, In (e, n) D -> e <> L ++ ANY :: r) /\
  (forall e n r, In (e, n) D -> L <> e ++ ANY :: r).

Definition good_rec (rec : mapping -> mapping) (d : nat) : Prop :=
  forall t b n, WS t -> wf_key b -> (length (split_dot b) <= d)%nat -> compatD (denm t) (split_dot b) ->
    WS (rec (m_insert b (Scalar n) t)) /\
    Permutation (denm (rec (m_insert b (Scalar n) t))) ((split_dot b, n) :: denm t).

(* ---- decomposition of a well-formed key at its first wildcard ---- *)
Lemma last_app_ne {A} (a r : list A) d : r <> [] -> last (a ++ r) d = last r d.
Proof.
  intros N0. induction a as [|x a IH]; [reflexivity|]. cbn [app]. rewrite <- IH.
  destruct (a ++ r) eqn:E; [destruct a; [contradiction|discriminate]|reflexivity].
Qed.

Lemma first_any L : Forall wf_kseg L -> existsb contains_any L = true ->
  exists c rest, L = c ++ ANY :: rest /\ Forall (fun s => contains_any s = false) c.
Proof.
  induction L as [|h L IH]; intros F E; [discriminate|].
  inversion F as [|? ? [_ [Hh|Hh]] Ft]; subst.
  - exists [], L. split; [reflexivity|constructor].
  - cbn [existsb] in E. rewrite Hh in E. cbn [orb] in E. destruct (IH Ft E) as [c [rest [-> Fc]]].
    exists (h :: c), rest. split; [reflexivity|]. constructor; assumption.
Qed.

Record decomp (b : str) (c rest : list str) : Prop := {
  d_split : split_dot b = c ++ ANY :: rest;
  d_c : Forall (fun s => contains_any s = false) c;
  d_rest : rest <> [];
  d_wf : wf_key (join_dot rest);
  d_rsplit : split_dot (join_dot rest) = rest;
  d_soa : split_once_any b = Some (pre_text c, DOT :: join_dot rest);
  d_bot : trim_start_dots (DOT :: join_dot rest) = join_dot rest;
  d_top : c <> [] -> trim_end_dots (pre_text c) = join_dot c /\ key_ok (join_dot c) /\ split_dot (join_dot c) = c }.

Lemma wf_decomp b : wf_key b -> contains_any b = true -> exists c rest, decomp b c rest.
Proof.
  intros [F La] C. rewrite contains_any_split in C. destruct (first_any _ F C) as [c [rest [E Fc]]].
  pose proof (split_dot_segs_dotfree b) as D. rewrite E in D, F.
  apply Forall_app in D. destruct D as [Dc Dr]. inversion Dr as [|? ? _ Drest]; subst.
  apply Forall_app in F. destruct F as [Fkc Fr]. inversion Fr as [|? ? _ Fkrest]; subst.
  assert (rest <> []) as Nr.
  { intros ->. apply La. rewrite E. rewrite last_app_ne by discriminate. reflexivity. }
  exists c, rest. constructor; try assumption.
  - split; rewrite split_join by assumption; [exact Fkrest|].
    rewrite E in La. replace (c ++ ANY :: rest) with ((c ++ [ANY]) ++ rest) in La by (rewrite <- app_assoc; reflexivity).
    rewrite last_app_ne in La by exact Nr. exact La.
  - apply split_join; assumption.
  - rewrite <- (join_split b), E. apply soa_segs; assumption.
  - destruct rest as [|x rest]; [contradiction|]. inversion Fkrest as [|? ? [Nx _] _]; subst.
    inversion Drest; subst. apply trim_start_join; assumption.
  - intros Nc. destruct (exists_last Nc) as [c' [l ->]].
    apply Forall_app in Fkc. destruct Fkc as [_ Fl]. inversion Fl as [|? ? [Nl _] _]; subst.
    pose proof Dc as Dc'. apply Forall_app in Dc'. destruct Dc' as [_ Dl]. inversion Dl; subst.
    split; [|split].
    + unfold pre_text. destruct (c' ++ [l]) eqn:X; [destruct c'; discriminate|]. rewrite <- X.
      apply trim_end_join; assumption.
    + unfold key_ok. rewrite contains_any_join. apply not_true_is_false. intros X.
      apply existsb_exists in X. destruct X as [s0 [Hs0 Cs0]]. rewrite Forall_forall in Fc. rewrite (Fc s0 Hs0) in Cs0. discriminate.
    + apply split_join; [destruct c'; discriminate|exact Dc].
Qed.

Lemma wf_key_not_any b : wf_key b -> b <> ANY.
Proof. intros [_ La] ->. apply La. reflexivity. Qed.

(* ---- permutation algebra ---- *)
Lemma perm_mid {A} (X Y P Q : list A) x : Permutation X (x :: Y) -> Permutation (P ++ X ++ Q) (x :: P ++ Y ++ Q).
Proof.
  intros H. apply Permutation_trans with (P ++ (x :: Y) ++ Q).
  - apply Permutation_app_head. apply Permutation_app_tail. exact H.
  - cbn [app]. apply Permutation_sym. apply Permutation_middle.
Qed.

Lemma perm_nonnil {A} (X Y : list A) x : Permutation X (x :: Y) -> X <> [].
Proof. intros H ->. apply Permutation_nil in H. discriminate. Qed.

(* ---- compatibility is inherited by sub-nodes ---- *)
Lemma compat_sub D D' q L : compatD D (q ++ L) -> (forall x, In x D' -> In (pre q x) D) -> compatD D' L.
Proof.
  intros [C1 [C2 C3]] H. split; [|split].
  - intros n X. apply (C1 n). exact (H _ X).
  - intros e n r X E. apply (C2 (q ++ e) n r (H _ X)). rewrite E, app_assoc. reflexivity.
  - intros e n r X E. apply (C3 (q ++ e) n r (H _ X)). rewrite E, <- app_assoc. reflexivity.
Qed.

Lemma compat_nil L : compatD [] L.
Proof. split; [|split]; intros; intro; contradiction || (intros; contradiction). Qed.

(* ---- node_ok after replacing / appending one entry ---- *)
Lemma node_ok_replace U a1 a2 k old new :
  node_ok U (a1 ++ (k, old) :: a2) -> WSe (k, new) -> node_ok U (a1 ++ (k, new) :: a2).
Proof.
  intros [N0 F] W. split.
  - rewrite map_app in *. exact N0.
  - intros e He. apply in_app_or in He. destruct He as [He|[<-|He]].
    + apply F. apply in_or_app. left. exact He.
    + left. exact W.
    + apply F. apply in_or_app. right. right. exact He.
Qed.

Lemma node_ok_append U s k new : node_ok U s -> ~ In k (map fst s) -> WSe (k, new) -> node_ok U (s ++ [(k, new)]).
Proof.
  intros [N0 F] Hk W. split.
  - rewrite map_app. cbn [map fst]. apply NoDup_app_remove_r with (l' := []) || idtac.
    apply (Permutation_NoDup (l := k :: map fst s)); [apply Permutation_cons_append|]. constructor; assumption.
  - intros e He. apply in_app_or in He. destruct He as [He|[<-|[]]]; [apply F; exact He|left; exact W].
Qed.

Lemma node_entry_scalar U s k n : node_ok U s -> In (k, Scalar n) s -> In (split_dot k, n) (denm s).
Proof. intros _ H. apply in_denm. exists (k, Scalar n). split; [exact H|left; reflexivity]. Qed.

(* a Mapping-valued entry of a node is a chunk or the '<any>' node *)
Lemma node_entry_mapping U s k e : node_ok U s -> In (k, Mapping e) s ->
  (exists t, e = [(ANY, Mapping t)] /\ key_ok k /\ WS t) \/ (k = ANY /\ WS e).
Proof.
  intros [_ F] H. destruct (F _ H) as [W|[n [X _]]]; [|discriminate].
  inversion W as [| ? t K Wt _ | t Wt _]; subst.
  - left. exists t. split; [reflexivity|split; assumption].
  - right. split; [reflexivity|exact Wt].
Qed.

Lemma in_replace_other (a1 a2 : mapping) k old new k' v' :
  In (k', v') (a1 ++ (k, old) :: a2) -> k' <> k -> In (k', v') (a1 ++ (k, new) :: a2).
Proof.
  intros H N0. apply in_app_or in H. apply in_or_app. destruct H as [H|[H|H]]; [left; exact H| |right; right; exact H].
  injection H as -> _. contradiction.
Qed.

Section Route.
  Variable rec : mapping -> mapping.
  Variable d : nat.
  Hypothesis Hrec : good_rec rec d.
  Variable U : str -> Prop.
  Hypothesis HU : forall k, U k -> contains_any k = true /\ k <> ANY.

  Lemma route_ok s b n c rest :
    node_ok U s -> wf_key b -> decomp b c rest -> (length rest <= d)%nat ->
    compatD (denm s) (split_dot b) ->
    let s' := route rec (pre_text c) (DOT :: join_dot rest) (Scalar n) s in
    node_ok U s' /\ Permutation (denm s') ((split_dot b, n) :: denm s) /\
    (forall k' v', In (k', v') s -> contains_any k' = true -> k' <> ANY -> In (k', v') s').
  Proof.
    intros Ns Wb Dc Ld Cp. destruct Dc as [Es Fc Nr Wr Er _ Eb Et].
    unfold route. cbv zeta. rewrite Eb.
    set (R := fun t => rec (m_insert (join_dot rest) (Scalar n) t)).
    assert (forall t, WS t -> compatD (denm t) rest ->
                      WS (R t) /\ Permutation (denm (R t)) ((rest, n) :: denm t)) as HR.
    { intros t Wt Ct. unfold R. pose proof (Hrec t (join_dot rest) n Wt Wr) as Hr. rewrite Er in Hr. exact (Hr Ld Ct). }
    destruct (HR [] WS_nil (compat_nil rest)) as [WR0 PR0]. rewrite denm_nil in PR0.
    destruct c as [|c0 c1].
    - (* the wildcard is the first segment: entry = the node itself *)
      cbn [pre_text app] in *. unfold sub_insert. fold (R []).
      destruct (m_get ANY s) as [[n'|t]|] eqn:G.
      + exfalso. apply m_get_in in G. destruct Ns as [_ F]. destruct (F _ G) as [W|[n0 [_ X]]].
        * inversion W as [? ? K| |]; subst. exact (key_ok_not_any ANY K eq_refl).
        * exact (proj2 (HU _ X) eq_refl).
      + fold (R t). pose proof (m_get_in _ _ _ G) as Hin.
        destruct (node_entry_mapping U s ANY t Ns Hin) as [[t' [_ [K _]]]|[_ Wt]]; [exfalso; exact (key_ok_not_any ANY K eq_refl)|].
        destruct (m_get_split _ _ _ G) as [a1 [a2 [-> Ha1]]]. rewrite m_set_split by exact Ha1.
        assert (compatD (denm t) rest) as Ct.
        { apply (compat_sub (denm (a1 ++ (ANY, Mapping t) :: a2)) _ [ANY]); [rewrite Es in Cp; exact Cp|].
          intros x Hx. rewrite denm_app, denm_cons, den_e_any. apply in_or_app. right. apply in_or_app. left.
          apply in_map. exact Hx. }
        destruct (HR t Wt Ct) as [WR PR]. split; [|split].
        * eapply node_ok_replace; [exact Ns|]. constructor; [exact WR|eapply perm_nonnil; exact PR].
        * rewrite !denm_app, !denm_cons, !den_e_any, Es. apply (perm_mid _ _ _ _ (pre [ANY] (rest, n))).
          apply (Permutation_map (pre [ANY])) in PR. exact PR.
        * intros k' v' Hk _ Nk. eapply in_replace_other; eassumption.
      + apply m_get_none in G. split; [|split].
        * apply node_ok_append; [exact Ns|exact G|]. constructor; [exact WR0|eapply perm_nonnil; exact PR0].
        * rewrite denm_app, denm_cons, den_e_any, denm_nil, app_nil_r, Es.
          apply Permutation_sym. apply Permutation_trans with (denm s ++ [(ANY :: rest, n)]); [apply Permutation_cons_append|].
          apply Permutation_app_head. apply (Permutation_map (pre [ANY])) in PR0. apply Permutation_sym. exact PR0.
        * intros k' v' Hk _ _. apply in_or_app. left. exact Hk.
    - (* a chunk of specific segments precedes the wildcard *)
      destruct (Et ltac:(discriminate)) as [Etop [Ktop Stop]].
      set (cc := c0 :: c1) in *.
      destruct (pre_text cc) as [|x y] eqn:Ept; [unfold pre_text, cc in Ept; destruct (join_dot (c0 :: c1)); discriminate|].
      rewrite Etop. set (tk := join_dot cc) in *.
      assert (forall t, sub_insert rec (join_dot rest) (Scalar n) [(ANY, Mapping t)] = Some [(ANY, Mapping (R t))]) as Esub by reflexivity.
      assert (sub_insert rec (join_dot rest) (Scalar n) [] = Some [(ANY, Mapping (R []))]) as Esub0 by reflexivity.
      destruct (m_get tk s) as [[n'|e]|] eqn:G.
      + exfalso. apply m_get_in in G. apply (node_entry_scalar U) in G; [|exact Ns]. rewrite Stop in G.
        destruct Cp as [_ [_ C3]]. exact (C3 _ _ rest G Es).
      + pose proof (m_get_in _ _ _ G) as Hin.
        destruct (node_entry_mapping U s tk e Ns Hin) as [[t [-> [_ Wt]]]|[X _]]; [|exfalso; exact (key_ok_not_any tk Ktop X)].
        rewrite Esub. destruct (m_get_split _ _ _ G) as [a1 [a2 [-> Ha1]]]. rewrite m_set_split by exact Ha1.
        assert (compatD (denm t) rest) as Ct.
        { apply (compat_sub (denm (a1 ++ (tk, Mapping [(ANY, Mapping t)]) :: a2)) _ (cc ++ [ANY]));
            [rewrite Es in Cp; rewrite <- app_assoc; exact Cp|].
          intros x0 Hx. rewrite denm_app, denm_cons, den_e_chunk, Stop. apply in_or_app. right. apply in_or_app. left.
          rewrite map_map. apply in_map_iff. exists x0. split; [rewrite pre_pre; reflexivity|exact Hx]. }
        destruct (HR t Wt Ct) as [WR PR]. split; [|split].
        * eapply node_ok_replace; [exact Ns|]. constructor; [exact Ktop|exact WR|eapply perm_nonnil; exact PR].
        * rewrite !denm_app, !denm_cons, !den_e_chunk, Stop, Es, !map_map.
          apply (perm_mid _ _ _ _ (pre cc (pre [ANY] (rest, n)))).
          apply (Permutation_map (fun x0 => pre cc (pre [ANY] x0))) in PR. exact PR.
        * intros k' v' Hk Ck _. eapply in_replace_other; [exact Hk|]. intros ->. unfold key_ok in Ktop. congruence.
      + rewrite Esub0. apply m_get_none in G. split; [|split].
        * apply node_ok_append; [exact Ns|exact G|]. constructor; [exact Ktop|exact WR0|eapply perm_nonnil; exact PR0].
        * rewrite denm_app, denm_cons, den_e_chunk, denm_nil, app_nil_r, Stop, Es, map_map.
          apply Permutation_sym. apply Permutation_trans with (denm s ++ [(cc ++ ANY :: rest, n)]); [apply Permutation_cons_append|].
          apply Permutation_app_head. apply (Permutation_map (fun x0 => pre cc (pre [ANY] x0))) in PR0.
          apply Permutation_sym. exact PR0.
        * intros k' v' Hk _ _. apply in_or_app. left. exact Hk.
  Qed.
End Route.
