(* Props::update_from on a well-shaped (compartmentalised) mapping captures exactly
   the entries of its denotation that address the module path. *)
From Coq Require Import List NArith Bool Lia.
From DesVerif Require Import Props.Spec Props.Model Props.Bytes Props.Den Props.Loops.
Import ListNotations.
Open Scope N_scope.

(* module path segments: no '.', not the wildcard itself *)
Definition wf_seg (s : str) : Prop := dotfree s /\ s <> ANY.
Definition wf_path (p : list str) : Prop := Forall wf_seg p.

(* Spec.addresses on segment lists *)
Definition addr (e p r : list str) : Prop :=
  exists q, e = q ++ r /\ Forall2 seg_match q p /\ r <> [] /\ ~ In ANY r.
(* (name, value) is justified by an entry of D addressing p *)
Definition J (D : list sentry) (p : list str) (x : str * value) : Prop :=
  exists e v r, In (e, v) D /\ addr e p r /\ x = (join_dot r, Scalar v).

(* ---- small facts ---- *)
Lemma wf_path_dotfree p : wf_path p -> Forall dotfree p.
Proof. intros H. eapply Forall_impl; [|exact H]. intros s [D _]. exact D. Qed.

Lemma wf_path_noany p : wf_path p -> ~ In ANY p.
Proof.
  intros H X. unfold wf_path in H. rewrite Forall_forall in H. destruct (H ANY X) as [_ C]. exact (C eq_refl).
Qed.

Lemma wf_path_app a b : wf_path (a ++ b) -> wf_path a /\ wf_path b.
Proof. intros H. apply Forall_app in H. exact H. Qed.

Lemma F2_refl p : Forall2 seg_match p p.
Proof. induction p; constructor; [right; reflexivity|assumption]. Qed.

Lemma F2_noany q p : Forall2 seg_match q p -> ~ In ANY q -> q = p.
Proof.
  induction 1 as [|a b q p [Ha|Ha] F IH]; intros N0; [reflexivity| |].
  - exfalso. apply N0. left. exact Ha.
  - subst. f_equal. apply IH. intros X. apply N0. right. exact X.
Qed.

Lemma key_noany k : contains_any k = false -> ~ In ANY (split_dot k).
Proof. intros H X. apply any_seg_contains in X. congruence. Qed.

Lemma app_split_any (a b q r : list str) :
  a ++ ANY :: b = q ++ r -> ~ In ANY r -> exists q', q = a ++ ANY :: q' /\ b = q' ++ r.
Proof.
  revert q; induction a as [|y a IH]; intros q E N0.
  - destruct q as [|x q].
    + cbn [app] in E. exfalso. apply N0. rewrite <- E. left. reflexivity.
    + cbn [app] in E. injection E as <- E. exists q. split; [reflexivity|exact E].
  - destruct q as [|x q].
    + cbn [app] in E. exfalso. apply N0. rewrite <- E. right. apply in_or_app. right. left. reflexivity.
    + cbn [app] in E. injection E as <- E. destruct (IH q E N0) as [q' [-> ->]]. exists q'. split; reflexivity.
Qed.

Lemma without_any_scalar n : without_any (Scalar n) = Some (Scalar n).
Proof. reflexivity. Qed.
Lemma without_any_chunk x : without_any (Mapping [(ANY, x)]) = None.
Proof. reflexivity. Qed.

Lemma prefix_dot_any key : prefixb (key ++ [DOT]) ANY = false.
Proof.
  destruct (prefixb (key ++ [DOT]) ANY) eqn:E; [|reflexivity].
  apply prefixb_spec in E. destruct E as [t E]. exfalso. apply any_dotfree. rewrite E.
  apply in_or_app. left. apply in_or_app. right. left. reflexivity.
Qed.

(* ---- unfolding update_from ---- *)
Lemma upd_nil f ps m : update_from f ps (Mapping m) [] = take_all ps m.
Proof. destruct f; reflexivity. Qed.
Lemma upd_scalar f ps n p : update_from f ps (Scalar n) p = ps.
Proof. destruct p; [destruct f; reflexivity|]. destruct f; reflexivity. Qed.

Lemma upd_cons f ps m s rest :
  update_from (S f) ps (Mapping m) (s :: rest) =
  let ps1 := match m_get ANY m with Some v => update_from f ps v rest | None => ps end in
  let r := prefix_loop (update_from f) m ps1 (join_dot []) (isnil (@nil str)) (s :: rest) in
  direct (join_dot (s :: rest)) (fst r) m.
Proof.
  cbv zeta.
  pose proof (ploop_key (update_from f) m
     (match m_get ANY m with Some v => update_from f ps v rest | None => ps end) [] (s :: rest)) as K.
  cbn [app] in K. rewrite <- K. cbn [Model.update_from join_dot isnil].
  destruct (prefix_loop (update_from f) m _ [] true (s :: rest)) as [ps2 key]. reflexivity.
Qed.

Lemma upd_mono f : forall ps base p x, In x ps -> In x (update_from f ps base p).
Proof.
  induction f as [|f IH]; intros ps base p x H.
  - destruct p; [|exact H]. destruct base; [exact H|]. apply pfold_mono. exact H.
  - destruct base as [n|m]; [rewrite upd_scalar; exact H|].
    destruct p as [|s rest]; [rewrite upd_nil; apply pfold_mono; exact H|].
    rewrite upd_cons. cbv zeta. apply pfold_mono. apply ploop_mono; [intros; apply IH; assumption|].
    destruct (m_get ANY m); [apply IH|]; exact H.
Qed.

Lemma join_not_any q : wf_path q -> q <> [] -> join_dot q <> ANY.
Proof.
  intros W N0 X. assert (q = [ANY]) as E.
  { apply join_inj; [exact N0|discriminate|apply wf_path_dotfree; exact W|
                     constructor; [exact any_dotfree|constructor]|exact X]. }
  apply (wf_path_noany _ W). rewrite E. left. reflexivity.
Qed.

Lemma wf_path_mid t1 s t2 : wf_path (t1 ++ s :: t2) -> wf_path (t1 ++ [s]) /\ wf_path t2.
Proof.
  replace (t1 ++ s :: t2) with ((t1 ++ [s]) ++ t2) by (rewrite <- app_assoc; reflexivity). apply wf_path_app.
Qed.

(* the mapping below a chunk key holds the '<any>' node only *)
Lemma chunk_upd f ps s a t3 : wf_path (a :: t3) ->
  update_from (S f) ps (Mapping [(ANY, Mapping s)]) (a :: t3) = update_from f ps (Mapping s) t3.
Proof.
  intros W. rewrite upd_cons. cbv zeta.
  change (m_get ANY [(ANY, Mapping s)]) with (Some (Mapping s)).
  rewrite ploop_none.
  - unfold Model.direct. apply pfold_none. intros e [<-|[]]. cbn [fst]. rewrite prefix_dot_any. reflexivity.
  - intros t1 s' t2 E. cbn [app]. apply m_get_none. cbn [map fst]. intros [X|[]].
    rewrite E in W. apply (join_not_any (t1 ++ [s'])); [exact (proj1 (wf_path_mid _ _ _ W))|destruct t1; discriminate|].
    symmetry. exact X.
Qed.

Lemma chunk_upd_nil f ps s : update_from f ps (Mapping [(ANY, Mapping s)]) [] = ps.
Proof. rewrite upd_nil. apply pfold_none. intros e [<-|[]]. reflexivity. Qed.

(* ---- soundness ---- *)
Lemma J_any m s p a x : In (ANY, Mapping s) m -> J (denm s) p x -> J (denm m) (a :: p) x.
Proof.
  intros H [e [v [r [He [[q [-> [F [Nr Na]]]] ->]]]]].
  exists (ANY :: q ++ r), v, r. split.
  - apply in_denm. exists (ANY, Mapping s). split; [exact H|]. rewrite den_e_any. apply in_map_iff.
    exists (q ++ r, v). split; [reflexivity|exact He].
  - split; [|reflexivity]. exists (ANY :: q). split; [reflexivity|]. split; [|split; assumption].
    constructor; [left; reflexivity|exact F].
Qed.

Lemma J_chunk m k s t a p x : In (k, Mapping [(ANY, Mapping s)]) m -> split_dot k = t ->
  J (denm s) p x -> J (denm m) (t ++ a :: p) x.
Proof.
  intros H Ek [e [v [r [He [[q [-> [F [Nr Na]]]] ->]]]]].
  exists (t ++ ANY :: q ++ r), v, r. split.
  - apply in_denm. exists (k, Mapping [(ANY, Mapping s)]). split; [exact H|]. rewrite den_e_chunk, Ek.
    apply in_map_iff. exists (ANY :: q ++ r, v). split; [reflexivity|]. apply in_map_iff.
    exists (q ++ r, v). split; [reflexivity|exact He].
  - split; [|reflexivity]. exists (t ++ ANY :: q). split; [rewrite <- app_assoc; reflexivity|].
    split; [|split; assumption]. apply Forall2_app; [apply F2_refl|]. constructor; [left; reflexivity|exact F].
Qed.

Lemma take_all_sound m ps x : WS m -> In x (take_all ps m) -> In x ps \/ J (denm m) [] x.
Proof.
  intros W H. apply pfold_sound in H. destruct H as [H|[[k v] [He G]]]; [left; exact H|]. right.
  cbn [fst snd] in G. destruct (contains_any k) eqn:C; [discriminate|].
  destruct (WS_entry m k v W He) as [[n [-> K]]|[[s [-> _]]|[s [-> _]]]].
  - rewrite without_any_scalar in G. injection G as <-.
    exists (split_dot k), n, (split_dot k). split.
    + apply in_denm. exists (k, Scalar n). split; [exact He|left; reflexivity].
    + split; [|rewrite join_split; reflexivity]. exists []. split; [reflexivity|]. split; [constructor|].
      split; [apply split_dot_nonnil|apply key_noany; exact C].
  - rewrite without_any_chunk in G. discriminate.
  - rewrite contains_any_ANY in C. discriminate.
Qed.

Lemma direct_sound m p ps x : WS m -> wf_path p -> p <> [] ->
  In x (direct (join_dot p) ps m) -> In x ps \/ J (denm m) p x.
Proof.
  intros W Wp Np H. apply pfold_sound in H. destruct H as [H|[[k v] [He G]]]; [left; exact H|]. right.
  cbn [fst snd] in G. destruct (prefixb (join_dot p ++ [DOT]) k) eqn:P; [|discriminate].
  apply prefixb_spec in P. destruct P as [rem P]. rewrite <- app_assoc in P. cbn [app] in P.
  destruct (WS_entry m k v W He) as [[n [-> K]]|[[s [-> _]]|[s [-> _]]]].
  - rewrite without_any_scalar in G. injection G as <-.
    assert (skipn (length (join_dot p) + 1) k = rem) as Es.
    { rewrite P. replace (join_dot p ++ DOT :: rem) with ((join_dot p ++ [DOT]) ++ rem) by (rewrite <- app_assoc; reflexivity).
      replace (length (join_dot p) + 1)%nat with (length (join_dot p ++ [DOT])) by (rewrite app_length; reflexivity).
      apply skipn_app_len. }
    rewrite Es. assert (split_dot k = p ++ split_dot rem) as Ek.
    { rewrite P, split_dot_app_gen, split_join; [reflexivity|exact Np|apply wf_path_dotfree; exact Wp]. }
    exists (split_dot k), n, (split_dot rem). split.
    + apply in_denm. exists (k, Scalar n). split; [exact He|left; reflexivity].
    + split; [|rewrite join_split; reflexivity]. exists p. split; [exact Ek|]. split; [apply F2_refl|].
      split; [apply split_dot_nonnil|]. intros X. apply (key_noany k K). rewrite Ek. apply in_or_app. right. exact X.
  - rewrite without_any_chunk in G. discriminate.
  - exfalso. pose proof (prefix_dot_any (join_dot p)) as Q. rewrite P in Q.
    replace (join_dot p ++ DOT :: rem) with ((join_dot p ++ [DOT]) ++ rem) in Q by (rewrite <- app_assoc; reflexivity).
    rewrite prefixb_app in Q. discriminate.
Qed.

Lemma upd_sound_n n : forall f p m ps x, WS m -> wf_path p -> (length p <= n)%nat -> (length p <= f)%nat ->
  In x (update_from f ps (Mapping m) p) -> In x ps \/ J (denm m) p x.
Proof.
  induction n as [|n IH]; intros f p m ps x W Wp Ln L H.
  - destruct p; [|cbn [length] in Ln; lia]. rewrite upd_nil in H. apply take_all_sound; assumption.
  - destruct p as [|s0 rest0]; [rewrite upd_nil in H; apply take_all_sound; assumption|].
    destruct f as [|f]; [cbn [length] in L; lia|].
    rewrite upd_cons in H. cbv zeta in H.
    apply direct_sound in H; [|exact W|exact Wp|discriminate]. destruct H as [H|H]; [|right; exact H].
    inversion Wp as [|? ? Ws0 Wrest]; subst.
    apply (ploop_sound (update_from f) m x
             (fun e t2 => exists s' a t3, e = Mapping [(ANY, Mapping s')] /\ t2 = a :: t3 /\ J (denm s') t3 x)) in H.
    + destruct H as [H|[t1 [s [t2 [e [E [G [s' [a [t3 [-> [-> HJ]]]]]]]]]]]].
      * (* from the '<any>' node *)
        destruct (m_get ANY m) as [v|] eqn:G; [|left; exact H].
        apply m_get_in in G. destruct (WS_entry m ANY v W G) as [[n0 [-> K]]|[[s [-> [K _]]]|[s [_ [-> [Ws _]]]]]].
        -- rewrite upd_scalar in H. left. exact H.
        -- exfalso. exact (key_ok_not_any ANY K eq_refl).
        -- apply IH in H; [|exact Ws|exact Wrest|cbn [length] in Ln; lia|cbn [length] in L; lia].
           destruct H as [H|H]; [left; exact H|right]. eapply J_any; eassumption.
      * (* from a chunk key equal to a proper prefix of the path *)
        right. cbn [app] in G. apply m_get_in in G. rewrite E.
        replace (t1 ++ s :: a :: t3) with ((t1 ++ [s]) ++ a :: t3) by (rewrite <- app_assoc; reflexivity).
        eapply J_chunk; [exact G| |exact HJ].
        rewrite split_join; [reflexivity|destruct t1; discriminate|].
        apply wf_path_dotfree. rewrite E in Wp. exact (proj1 (wf_path_mid _ _ _ Wp)).
    + (* what one exact hit contributes *)
      intros ps' e t1 s t2 E G H'. cbn [app] in G. apply m_get_in in G.
      rewrite E in Wp. destruct (wf_path_mid _ _ _ Wp) as [W1 W2].
      destruct (WS_entry m _ e W G) as [[n0 [-> K]]|[[s' [-> [K [Ws' _]]]]|[s' [X _]]]].
      * rewrite upd_scalar in H'. left. exact H'.
      * destruct t2 as [|a t3]; [rewrite chunk_upd_nil in H'; left; exact H'|].
        assert (length (s0 :: rest0) = length (t1 ++ s :: a :: t3)) as EL by (rewrite E; reflexivity).
        rewrite app_length in EL. cbn [length] in EL, L, Ln.
        destruct f as [|f']; [lia|]. rewrite chunk_upd in H' by exact W2.
        apply (IH f' t3 s' ps' x Ws') in H'.
        -- destruct H' as [H'|H']; [left; exact H'|right]. exists s', a, t3. repeat split; try reflexivity. exact H'.
        -- inversion W2; assumption.
        -- lia.
        -- lia.
      * exfalso. apply (join_not_any (t1 ++ [s])); [exact W1|destruct t1; discriminate|exact X].
Qed.

Lemma upd_sound p m ps x : WS m -> wf_path p ->
  In x (update_from (length p) ps (Mapping m) p) -> In x ps \/ J (denm m) p x.
Proof. intros W Wp. apply (upd_sound_n (length p)); auto. Qed.
