(* The executable form of the specification computes the specification. *)
From Coq Require Import List NArith Bool Lia.
From DesVerif Require Import Props.Spec Props.Model Props.Bytes.
Import ListNotations.
Open Scope N_scope.

Lemma match_path_ok p : forall ks r, match_path ks p = Some r <-> exists q, ks = q ++ r /\ Forall2 seg_match q p.
Proof.
  induction p as [|s p IH]; intros ks r; cbn [match_path].
  - split.
    + intros H. injection H as ->. exists []. split; [reflexivity|constructor].
    + intros [q [-> F]]. inversion F; subst. reflexivity.
  - destruct ks as [|k ks].
    + split; [discriminate|]. intros [q [E F]]. inversion F; subst. discriminate.
    + destruct (str_eqb k ANY || str_eqb k s) eqn:M.
      * rewrite IH. split.
        -- intros [q [-> F]]. exists (k :: q). split; [reflexivity|]. constructor; [|exact F].
           apply orb_true_iff in M. destruct M as [M|M]; apply str_eqb_eq in M; [left|right]; exact M.
        -- intros [q [E F]]. inversion F as [|a b q' p' Hab F']; subst. cbn [app] in E. injection E as -> ->.
           exists q'. split; [reflexivity|exact F'].
      * split; [discriminate|]. intros [q [E F]]. inversion F as [|a b q' p' Hab F']; subst.
        cbn [app] in E. injection E as -> _. apply orb_false_iff in M. destruct M as [M1 M2].
        apply str_eqb_neq in M1, M2. destruct Hab; contradiction.
Qed.

Lemma existsb_any r : existsb (str_eqb ANY) r = false <-> ~ In ANY r.
Proof.
  split.
  - intros H X. assert (existsb (str_eqb ANY) r = true) as Y; [|congruence].
    apply existsb_exists. exists ANY. split; [exact X|apply str_eqb_refl].
  - intros H. apply not_true_is_false. intros Y. apply existsb_exists in Y. destruct Y as [y [Hy E]].
    apply str_eqb_eq in E. subst. contradiction.
Qed.

Lemma addressed_name_ok k p n : addressed_name k p = Some n <-> exists r, addresses k p r /\ n = join_dot r.
Proof.
  unfold addressed_name, addresses. split.
  - destruct (match_path (split_dot k) p) as [[|x r]|] eqn:M; try discriminate.
    destruct (existsb (str_eqb ANY) (x :: r)) eqn:E; [discriminate|]. intros H. injection H as <-.
    apply match_path_ok in M. destruct M as [q [E1 F]]. exists (x :: r). split; [|reflexivity].
    exists q. split; [exact E1|]. split; [exact F|]. split; [discriminate|apply existsb_any; exact E].
  - intros [r [[q [E [F [Nr Na]]]] ->]]. assert (match_path (split_dot k) p = Some r) as M by (apply match_path_ok; exists q; split; assumption).
    rewrite M. destruct r as [|x r]; [contradiction|]. apply existsb_any in Na. rewrite Na. reflexivity.
Qed.

Theorem spec_capture_ok cfg p name v : In (name, v) (spec_capture cfg p) <-> receives cfg p name v.
Proof.
  unfold receives. induction cfg as [|[k w] cfg IH]; cbn [spec_capture].
  - split; [intros []|intros [k [r [[] _]]]].
  - destruct (addressed_name k p) as [n|] eqn:A.
    + cbn [In]. rewrite IH. split.
      * intros [H|[k' [r [Hin HA]]]].
        -- injection H as -> ->. apply addressed_name_ok in A. destruct A as [r [A ->]].
           exists k, r. split; [left; reflexivity|split; [exact A|reflexivity]].
        -- exists k', r. split; [right; exact Hin|exact HA].
      * intros [k' [r [[H|Hin] [HA ->]]]].
        -- injection H as -> ->. left. f_equal.
           assert (addressed_name k' p = Some (join_dot r)) as A' by (apply addressed_name_ok; exists r; split; [exact HA|reflexivity]).
           congruence.
        -- right. exists k', r. split; [exact Hin|split; [exact HA|reflexivity]].
    + rewrite IH. split.
      * intros [k' [r [Hin HA]]]. exists k', r. split; [right; exact Hin|exact HA].
      * intros [k' [r [[H|Hin] [HA ->]]]].
        -- injection H as -> ->. assert (addressed_name k' p = Some (join_dot r)) as A' by (apply addressed_name_ok; exists r; split; [exact HA|reflexivity]).
           congruence.
        -- exists k', r. split; [exact Hin|split; [exact HA|reflexivity]].
Qed.
