(* The entry state machine of props/mod.rs: a property keeps the type it was first
   (successfully) read or written with. *)
From Coq Require Import List NArith Bool Lia.
From DesVerif Require Import Props.Spec Props.Model Props.Bytes.
Import ListNotations.
Open Scope N_scope.

Lemma s_get_put name e st : s_get name (s_put name e st) = Some e.
Proof.
  induction st as [|[k x] st IH]; cbn [s_put s_get].
  - rewrite str_eqb_refl. reflexivity.
  - destruct (str_eqb name k) eqn:E; cbn [s_get]; rewrite E; [reflexivity|exact IH].
Qed.
Lemma get_raw_put name e st : get_raw name (s_put name e st) = e.
Proof. unfold get_raw. rewrite s_get_put. reflexivity. Qed.

Lemma s_get_put_other name k e st : str_eqb k name = false -> s_get k (s_put name e st) = s_get k st.
Proof.
  intros H. induction st as [|[k' x] st IH]; cbn [s_put s_get].
  - rewrite H. reflexivity.
  - destruct (str_eqb name k') eqn:E; cbn [s_get].
    + apply str_eqb_eq in E. subst k'. rewrite H. reflexivity.
    + destruct (str_eqb k k'); [reflexivity|exact IH].
Qed.

(* first access *)
Lemma typed_absent ty : typed ty ENone = (ENone, None).
Proof. reflexivity. Qed.
(* a configuration value is converted once, to u64 / i64 only, and is that very number;
   a failing conversion is an error that leaves the value as it was *)
Lemma typed_first ty v :
  typed ty (EYaml (Scalar v)) = if ty <? 2 then (ESome ty v, None) else (EYaml (Scalar v), Some TOther).
Proof. unfold typed. cbn [is_ty from_value]. destruct (ty <? 2); reflexivity. Qed.
Lemma typed_first_mapping ty m : typed ty (EYaml (Mapping m)) = (EYaml (Mapping m), Some TOther).
Proof. reflexivity. Qed.
(* later accesses *)
Lemma typed_fixed t n ty :
  typed ty (ESome t n) = (ESome t n, if t =? ty then None else Some TInvalidInput).
Proof. unfold typed. cbn [is_ty]. destruct (t =? ty); reflexivity. Qed.

(* the operations on one property of one module *)
Fixpoint run_entry (st : store) (name : str) (ops : list top) : store * list (list N) :=
  match ops with
  | [] => (st, [])
  | o :: r => let '(st', out) := top_step st name o in
              let '(st'', outs) := run_entry st' name r in (st'', out :: outs)
  end.

(* what a cell of the fixed type [t] holding [n] answers *)
Fixpoint cell_run (t n : N) (ops : list top) : list (list N) :=
  match ops with
  | [] => []
  | TRead _ _ ty :: r => (if t =? ty then [3; 1; n] else [3; 2]) :: cell_run t n r
  | TWrite _ _ ty v :: r => if t =? ty then [4; 0] :: cell_run t (norm_val ty v) r else [4; 2] :: cell_run t n r
  | TRaw _ _ :: r => (5 :: enc_entry (ESome t n)) :: cell_run t n r
  end.

Theorem typed_stable : forall ops st name t n, get_raw name st = ESome t n ->
  snd (run_entry st name ops) = cell_run t n ops /\
  exists n', get_raw name (fst (run_entry st name ops)) = ESome t n'.
Proof.
  induction ops as [|o r IH]; intros st name t n H.
  - split; [reflexivity|exists n; exact H].
  - cbn [run_entry cell_run]. destruct o as [m nm ty|m nm ty v|m nm]; cbn [top_step]; rewrite H.
    + rewrite typed_fixed. destruct (t =? ty) eqn:E.
      * destruct (IH (s_put name (ESome t n) st) name t n (get_raw_put _ _ _)) as [A B].
        destruct (run_entry (s_put name (ESome t n) st) name r) as [st'' outs]. cbn [fst snd] in *. rewrite A. split; [reflexivity|exact B].
      * destruct (IH (s_put name (ESome t n) st) name t n (get_raw_put _ _ _)) as [A B].
        destruct (run_entry (s_put name (ESome t n) st) name r) as [st'' outs]. cbn [fst snd] in *. rewrite A. split; [reflexivity|exact B].
    + rewrite typed_fixed. destruct (t =? ty) eqn:E.
      * apply N.eqb_eq in E. subst ty.
        destruct (IH (s_put name (ESome t (norm_val t v)) st) name t (norm_val t v) (get_raw_put _ _ _)) as [A B].
        destruct (run_entry (s_put name (ESome t (norm_val t v)) st) name r) as [st'' outs]. cbn [fst snd] in *. rewrite A. split; [reflexivity|exact B].
      * destruct (IH (s_put name (ESome t n) st) name t n (get_raw_put _ _ _)) as [A B].
        destruct (run_entry (s_put name (ESome t n) st) name r) as [st'' outs]. cbn [fst snd] in *. rewrite A. split; [reflexivity|exact B].
    + destruct (IH (s_put name (ESome t n) st) name t n (get_raw_put _ _ _)) as [A B].
      destruct (run_entry (s_put name (ESome t n) st) name r) as [st'' outs]. cbn [fst snd] in *. rewrite A. split; [reflexivity|exact B].
Qed.

(* in particular: after the type is fixed, an access with another type is the InvalidInput error *)
Corollary other_type_is_error st name t n ty m nm : get_raw name st = ESome t n -> t <> ty ->
  snd (top_step st name (TRead m nm ty)) = [3; 2] /\ get_raw name (fst (top_step st name (TRead m nm ty))) = ESome t n.
Proof.
  intros H Ne. cbn [top_step]. rewrite H, typed_fixed. apply N.eqb_neq in Ne. rewrite Ne. cbn [fst snd err_code].
  split; [reflexivity|apply get_raw_put].
Qed.
