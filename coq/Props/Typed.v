(* The entry state machine of props/mod.rs: a property keeps the type it was first
   (successfully) read or written with. *)
From Coq Require Import List NArith Bool Lia.
From DesVerif Require Import Props.Spec Props.Model Props.Bytes Props.Loops Props.Main.
Import ListNotations.
Open Scope N_scope.

Lemma s_get_put name e st : s_get name (s_put name e st) = Some e.
Proof.
  induction st as [|[k x] st IH]; cbn [s_put s_get].
  - rewrite str_eqb_refl. reflexivity.
  - destruct (str_eqb name k) eqn:E; cbn [s_get]; rewrite E; [reflexivity|exact IH].
Qed.
Lemma get_raw_put name e st : get_raw name (s_put name e st) = e.
Proof. unfold get_raw. rewrite s_get_put. reflexivity. Qed.

Lemma s_get_put_other name k e st : str_eqb k name = false -> s_get k (s_put name e st) = s_get k st.
Proof.
  intros H. induction st as [|[k' x] st IH]; cbn [s_put s_get].
  - rewrite H. reflexivity.
  - destruct (str_eqb name k') eqn:E; cbn [s_get].
    + apply str_eqb_eq in E. subst k'. rewrite H. reflexivity.
    + destruct (str_eqb k k'); [reflexivity|exact IH].
Qed.

(* first access *)
Lemma typed_absent ty : typed ty ENone = (ENone, None).
Proof. reflexivity. Qed.
(* a configuration value is converted once, to u64 / i64 only, and is that very number;
   a failing conversion is an error that leaves the value as it was *)
Lemma typed_first ty v :
  typed ty (EYaml (Scalar v)) = if ty <? 2 then (ESome ty v, None) else (EYaml (Scalar v), Some TOther).
Proof. unfold typed. cbn [is_ty from_value]. destruct (ty <? 2); reflexivity. Qed.
Lemma typed_first_mapping ty m : typed ty (EYaml (Mapping m)) = (EYaml (Mapping m), Some TOther).
Proof. reflexivity. Qed.
(* later accesses *)
Lemma typed_fixed t n ty :
  typed ty (ESome t n) = (ESome t n, if t =? ty then None else Some TInvalidInput).
Proof. unfold typed. cbn [is_ty]. destruct (t =? ty); reflexivity. Qed.

(* the operations on one property of one module *)
Fixpoint run_entry (st : store) (name : str) (ops : list top) : store * list (list N) :=
  match ops with
  | [] => (st, [])
  | o :: r => let '(st', out) := top_step st name o in
              let '(st'', outs) := run_entry st' name r in (st'', out :: outs)
  end.

(* what a cell of the fixed type [t] holding [n] answers *)
Fixpoint cell_run (t n : N) (ops : list top) : list (list N) :=
  match ops with
  | [] => []
  | TRead _ _ ty :: r => (if t =? ty then [3; 1; n] else [3; 2]) :: cell_run t n r
  | TWrite _ _ ty v :: r => if t =? ty then [4; 0] :: cell_run t (norm_val ty v) r else [4; 2] :: cell_run t n r
  | TRaw _ _ :: r => (5 :: enc_entry (ESome t n)) :: cell_run t n r
  end.

Theorem typed_stable : forall ops st name t n, get_raw name st = ESome t n ->
  snd (run_entry st name ops) = cell_run t n ops /\
  exists n', get_raw name (fst (run_entry st name ops)) = ESome t n'.
Proof.
  induction ops as [|o r IH]; intros st name t n H.
  - split; [reflexivity|exists n; exact H].
  - cbn [run_entry cell_run]. destruct o as [m nm ty|m nm ty v|m nm]; cbn [top_step]; rewrite H.
    + rewrite typed_fixed. destruct (t =? ty) eqn:E.
      * destruct (IH (s_put name (ESome t n) st) name t n (get_raw_put _ _ _)) as [A B].
        destruct (run_entry (s_put name (ESome t n) st) name r) as [st'' outs]. cbn [fst snd] in *. rewrite A. split; [reflexivity|exact B].
      * destruct (IH (s_put name (ESome t n) st) name t n (get_raw_put _ _ _)) as [A B].
        destruct (run_entry (s_put name (ESome t n) st) name r) as [st'' outs]. cbn [fst snd] in *. rewrite A. split; [reflexivity|exact B].
    + rewrite typed_fixed. destruct (t =? ty) eqn:E.
      * apply N.eqb_eq in E. subst ty.
        destruct (IH (s_put name (ESome t (norm_val t v)) st) name t (norm_val t v) (get_raw_put _ _ _)) as [A B].
        destruct (run_entry (s_put name (ESome t (norm_val t v)) st) name r) as [st'' outs]. cbn [fst snd] in *. rewrite A. split; [reflexivity|exact B].
      * destruct (IH (s_put name (ESome t n) st) name t n (get_raw_put _ _ _)) as [A B].
        destruct (run_entry (s_put name (ESome t n) st) name r) as [st'' outs]. cbn [fst snd] in *. rewrite A. split; [reflexivity|exact B].
    + destruct (IH (s_put name (ESome t n) st) name t n (get_raw_put _ _ _)) as [A B].
      destruct (run_entry (s_put name (ESome t n) st) name r) as [st'' outs]. cbn [fst snd] in *. rewrite A. split; [reflexivity|exact B].
Qed.

(* in particular: after the type is fixed, an access with another type is the InvalidInput error *)
Corollary other_type_is_error st name t n ty m nm : get_raw name st = ESome t n -> t <> ty ->
  snd (top_step st name (TRead m nm ty)) = [3; 2] /\ get_raw name (fst (top_step st name (TRead m nm ty))) = ESome t n.
Proof.
  intros H Ne. cbn [top_step]. rewrite H, typed_fixed. apply N.eqb_neq in Ne. rewrite Ne. cbn [fst snd err_code].
  split; [reflexivity|apply get_raw_put].
Qed.

(* ---- the same across configurations included while the node already exists ---- *)
Lemma get_raw_some name st t n : get_raw name st = ESome t n -> s_get name st = Some (ESome t n).
Proof. unfold get_raw. destruct (s_get name st); [intros ->; reflexivity|discriminate]. Qed.

Lemma include_keeps_typed c path st name t n :
  get_raw name st = ESome t n -> get_raw name (capture_for c path st) = ESome t n.
Proof. intros H. unfold get_raw. rewrite (include_keeps_slot c path st name _ (get_raw_some _ _ _ _ H)). reflexivity. Qed.

(* typed accesses to one property of the module at [path], interleaved with late includes *)
Fixpoint run_entry_l (path : list str) (st : store) (name : str) (ops : list late) : store * list (list N) :=
  match ops with
  | [] => (st, [])
  | LTyped o :: r => let '(st', out) := top_step st name o in
                     let '(st'', outs) := run_entry_l path st' name r in (st'', out :: outs)
  | LInclude k v :: r => run_entry_l path (capture_for (cfg_new [(k, v)]) path st) name r
  end.

Definition typed_of (ops : list late) : list top :=
  flat_map (fun l => match l with LTyped o => [o] | LInclude _ _ => [] end) ops.

Theorem typed_stable_across_includes : forall ops path st name t n, get_raw name st = ESome t n ->
  snd (run_entry_l path st name ops) = cell_run t n (typed_of ops) /\
  exists n', get_raw name (fst (run_entry_l path st name ops)) = ESome t n'.
Proof.
  induction ops as [|o r IH]; intros path st name t n H.
  - split; [reflexivity|exists n; exact H].
  - destruct o as [o|k v].
    + cbn [run_entry_l typed_of flat_map app].
      pose proof (typed_stable [o] st name t n H) as [A [n1 B]]. cbn [run_entry] in A, B.
      destruct (top_step st name o) as [st' out] eqn:E. cbn [fst snd] in A, B.
      assert (exists n2, get_raw name st' = ESome t n2 /\ cell_run t n (o :: typed_of r) = out :: cell_run t n2 (typed_of r)) as [n2 [B2 C]].
      { destruct o as [m nm ty|m nm ty w|m nm]; cbn [cell_run] in A |- *; cbn [top_step] in E; rewrite H, ?typed_fixed in E.
        - destruct (t =? ty); injection E as <- <-; (exists n; split; [apply get_raw_put|reflexivity]).
        - destruct (t =? ty) eqn:Et; injection E as <- <-.
          + apply N.eqb_eq in Et. subst ty. exists (norm_val t w). split; [apply get_raw_put|reflexivity].
          + exists n. split; [apply get_raw_put|reflexivity].
        - injection E as <- <-. exists n. split; [apply get_raw_put|reflexivity]. }
      destruct (IH path st' name t n2 B2) as [A' B'].
      destruct (run_entry_l path st' name r) as [st'' outs]. cbn [fst snd] in *. fold (typed_of r). rewrite C, A'. split; [reflexivity|exact B'].
    + cbn [run_entry_l typed_of flat_map app]. apply IH. apply include_keeps_typed. exact H.
Qed.

(* accesses to other properties do not matter either: whatever late operations run on the module, a property
   that has a type keeps it *)
Lemma top_step_other st name o k : str_eqb k name = false -> s_get k (fst (top_step st name o)) = s_get k st.
Proof.
  intros H. destruct o as [m nm ty|m nm ty w|m nm]; cbn [top_step].
  - destruct (typed ty (get_raw name st)) as [e r]. cbn [fst]. apply s_get_put_other. exact H.
  - destruct (typed ty (get_raw name st)) as [e [er|]]; cbn [fst]; apply s_get_put_other; exact H.
  - cbn [fst]. apply s_get_put_other. exact H.
Qed.

Lemma top_step_type st name o t n : get_raw name st = ESome t n ->
  exists n', get_raw name (fst (top_step st name o)) = ESome t n'.
Proof.
  intros H. destruct (typed_stable [o] st name t n H) as [_ [n' B]]. cbn [run_entry] in B.
  destruct (top_step st name o) as [st' out]. cbn [fst] in *. exists n'. exact B.
Qed.

Fixpoint run_module_l (path : list str) (st : store) (ops : list late) : store :=
  match ops with
  | [] => st
  | LTyped o :: r => run_module_l path (fst (top_step st (top_name o) (top_norm o))) r
  | LInclude k v :: r => run_module_l path (capture_for (cfg_new [(k, v)]) path st) r
  end.

Theorem late_keeps_type : forall ops path st name t n, get_raw name st = ESome t n ->
  exists n', get_raw name (run_module_l path st ops) = ESome t n'.
Proof.
  induction ops as [|o r IH]; intros path st name t n H; [exists n; exact H|].
  destruct o as [o|k v]; cbn [run_module_l].
  - destruct (str_eqb name (top_name o)) eqn:E.
    + apply str_eqb_eq in E. subst name. destruct (top_step_type st (top_name o) (top_norm o) t n H) as [n1 H1].
      exact (IH path _ _ t n1 H1).
    + apply (IH path _ name t n). unfold get_raw. rewrite top_step_other by exact E. exact H.
  - apply (IH path _ name t n). apply include_keeps_typed. exact H.
Qed.
