(* The entry state machine of props/mod.rs: a property keeps the type it was first
   (successfully) read or written with. *)
From Coq Require Import List NArith Bool Lia.
From DesVerif Require Import Props.Spec Props.Model Props.Bytes Props.Loops Props.Main.
Import ListNotations.
Open Scope N_scope.

Lemma s_get_put name e st : s_get name (s_put name e st) = Some e.
Proof.
  induction st as [|[k x] st IH]; cbn [s_put s_get].
  - rewrite str_eqb_refl. reflexivity.
  - destruct (str_eqb name k) eqn:E; cbn [s_get]; rewrite E; [reflexivity|exact IH].
Qed.
Lemma get_raw_put name e st : get_raw name (s_put name e st) = e.
Proof. unfold get_raw. rewrite s_get_put. reflexivity. Qed.

Lemma s_get_put_other name k e st : str_eqb k name = false -> s_get k (s_put name e st) = s_get k st.
Proof.
  intros H. induction st as [|[k' x] st IH]; cbn [s_put s_get].
  - rewrite H. reflexivity.
  - destruct (str_eqb name k') eqn:E; cbn [s_get].
    + apply str_eqb_eq in E. subst k'. rewrite H. reflexivity.
    + destruct (str_eqb k k'); [reflexivity|exact IH].
Qed.

(* first access *)
Lemma typed_absent ty : typed ty ENone = (ENone, None).
Proof. reflexivity. Qed.
(* a configuration value is converted once, to u64 / i64 only, and is that very number;
   a failing conversion is an error that leaves the value as it was *)
Lemma typed_first ty v :
  typed ty (EYaml (Scalar v)) = if ty <? 2 then (ESome ty v, None) else (EYaml (Scalar v), Some TOther).
Proof. unfold typed. cbn [is_ty from_value]. destruct (ty <? 2); reflexivity. Qed.
Lemma typed_first_mapping ty m : typed ty (EYaml (Mapping m)) = (EYaml (Mapping m), Some TOther).
Proof. reflexivity. Qed.
(* later accesses *)
Lemma typed_fixed t n ty :
  typed ty (ESome t n) = (ESome t n, if t =? ty then None else Some TInvalidInput).
Proof. unfold typed. cbn [is_ty]. destruct (t =? ty); reflexivity. Qed.

(* the operations on one property of one module *)
Fixpoint run_entry (st : store) (name : str) (ops : list top) : store * list (list N) :=
  match ops with
  | [] => (st, [])
  | o :: r => let '(st', out) := top_step st name o in
              let '(st'', outs) := run_entry st' name r in (st'', out :: outs)
  end.

(* what a cell of the fixed type [t] holding [n] answers *)
Fixpoint cell_run (t n : N) (ops : list top) : list (list N) :=
  match ops with
  | [] => []
  | TRead _ _ ty :: r => (if t =? ty then [3; 1; n] else [3; 2]) :: cell_run t n r
  | TWrite _ _ ty v :: r => if t =? ty then [4; 0] :: cell_run t (norm_val ty v) r else [4; 2] :: cell_run t n r
  | TRaw _ _ :: r => (5 :: enc_entry (ESome t n)) :: cell_run t n r
  end.

Theorem typed_stable : forall ops st name t n, get_raw name st = ESome t n ->
  snd (run_entry st name ops) = cell_run t n ops /\
  exists n', get_raw name (fst (run_entry st name ops)) = ESome t n'.
Proof.
  induction ops as [|o r IH]; intros st name t n H.
  - split; [reflexivity|exists n; exact H].
  - cbn [run_entry cell_run]. destruct o as [m nm ty|m nm ty v|m nm]; cbn [top_step]; rewrite H.
    + rewrite typed_fixed. destruct (t =? ty) eqn:E.
      * destruct (IH (s_put name (ESome t n) st) name t n (get_raw_put _ _ _)) as [A B].
        destruct (run_entry (s_put name (ESome t n) st) name r) as [st'' outs]. cbn [fst snd] in *. rewrite A. split; [reflexivity|exact B].
      * destruct (IH (s_put name (ESome t n) st) name t n (get_raw_put _ _ _)) as [A B].
        destruct (run_entry (s_put name (ESome t n) st) name r) as [st'' outs]. cbn [fst snd] in *. rewrite A. split; [reflexivity|exact B].
    + rewrite typed_fixed. destruct (t =? ty) eqn:E.
      * apply N.eqb_eq in E. subst ty.
        destruct (IH (s_put name (ESome t (norm_val t v)) st) name t (norm_val t v) (get_raw_put _ _ _)) as [A B].
        destruct (run_entry (s_put name (ESome t (norm_val t v)) st) name r) as [st'' outs]. cbn [fst snd] in *. rewrite A. split; [reflexivity|exact B].
      * destruct (IH (s_put name (ESome t n) st) name t n (get_raw_put _ _ _)) as [A B].
        destruct (run_entry (s_put name (ESome t n) st) name r) as [st'' outs]. cbn [fst snd] in *. rewrite A. split; [reflexivity|exact B].
    + destruct (IH (s_put name (ESome t n) st) name t n (get_raw_put _ _ _)) as [A B].
      destruct (run_entry (s_put name (ESome t n) st) name r) as [st'' outs]. cbn [fst snd] in *. rewrite A. split; [reflexivity|exact B].
Qed.

(* in particular: after the type is fixed, an access with another type is the InvalidInput error *)
Corollary other_type_is_error st name t n ty m nm : get_raw name st = ESome t n -> t <> ty ->
  snd (top_step st name (TRead m nm ty)) = [3; 2] /\ get_raw name (fst (top_step st name (TRead m nm ty))) = ESome t n.
Proof.
  intros H Ne. cbn [top_step]. rewrite H, typed_fixed. apply N.eqb_neq in Ne. rewrite Ne. cbn [fst snd err_code].
  split; [reflexivity|apply get_raw_put].
Qed.

(* ---- the same across configurations included while the node already exists ---- *)
Lemma get_raw_some name st t n : get_raw name st = ESome t n -> s_get name st = Some (ESome t n).
Proof. unfold get_raw. destruct (s_get name st); [intros ->; reflexivity|discriminate]. Qed.

Lemma include_keeps_typed c path st name t n :
  get_raw name st = ESome t n -> get_raw name (capture_for c path st) = ESome t n.
Proof. intros H. unfold get_raw. rewrite (include_keeps_slot c path st name _ (get_raw_some _ _ _ _ H)). reflexivity. Qed.

(* ---- the cell law for everything that can reach a property: fresh typed lookups, long-lived typed handles
        (Prop<T>: creation, set, get), late includes ---- *)
Inductive cop :=
| CTyped (o : top)                          (* prop::<T>(name) [.set(v)] / prop_raw through a fresh lookup *)
| CHandle (name : str) (ty : N)             (* a handle of type ty is created *)
| CHset (name : str) (ty v : N)             (* set through a handle of type ty *)
| CHget (name : str) (ty : N)               (* get through a handle of type ty *)
| CInclude (k : str) (v : N).               (* a further configuration is included *)

(* one operation directed at property [name] of the module at [path]; None = no output *)
Definition cop_step (path : list str) (st : store) (name : str) (op : cop) : store * option (list N) :=
  match op with
  | CTyped o => let '(st', out) := top_step st name o in (st', Some out)
  | CHandle _ ty => let '(st', r) := h_new st name ty in
                    (st', Some [8; match r with None => 0 | Some er => err_code er end])
  | CHset _ ty v => let '(st', out) := h_set st name ty v in (st', Some out)
  | CHget _ ty => (st, Some (h_get st name ty))
  | CInclude k v => (capture_for (cfg_new [(k, v)]) path st, None)
  end.

Fixpoint run_cell (path : list str) (st : store) (name : str) (ops : list cop) : store * list (list N) :=
  match ops with
  | [] => (st, [])
  | op :: r => let '(st', out) := cop_step path st name op in
               let '(st'', outs) := run_cell path st' name r in
               (st'', match out with Some x => x :: outs | None => outs end)
  end.

(* what a cell of the fixed type [t] holding [n] answers: an access of another type is an error - InvalidInput for a
   lookup or handle creation, the panic record for a set or get through a handle - and changes nothing *)
Fixpoint cell_run2 (t n : N) (ops : list cop) : list (list N) :=
  match ops with
  | [] => []
  | CTyped (TRead _ _ ty) :: r => (if t =? ty then [3; 1; n] else [3; 2]) :: cell_run2 t n r
  | CTyped (TWrite _ _ ty v) :: r => if t =? ty then [4; 0] :: cell_run2 t (norm_val ty v) r else [4; 2] :: cell_run2 t n r
  | CTyped (TRaw _ _) :: r => (5 :: enc_entry (ESome t n)) :: cell_run2 t n r
  | CHandle _ ty :: r => (if t =? ty then [8; 0] else [8; 2]) :: cell_run2 t n r
  | CHset _ ty v :: r => if t =? ty then [13; 0] :: cell_run2 t (norm_val ty v) r else [9; 4] :: cell_run2 t n r
  | CHget _ ty :: r => (if t =? ty then [14; 1; n] else [9; 5]) :: cell_run2 t n r
  | CInclude _ _ :: r => cell_run2 t n r
  end.

(* a set through a handle whose type differs from the property's type never changes the property *)
Lemma h_set_mismatch st name t n ty v : get_raw name st = ESome t n -> t <> ty -> h_set st name ty v = (st, [9; 4]).
Proof. intros H Ne. unfold h_set. rewrite H. apply N.eqb_neq in Ne. rewrite Ne. reflexivity. Qed.
Lemma h_get_mismatch st name t n ty : get_raw name st = ESome t n -> t <> ty -> h_get st name ty = [9; 5].
Proof. intros H Ne. unfold h_get. rewrite H. apply N.eqb_neq in Ne. rewrite Ne. reflexivity. Qed.
Lemma h_new_mismatch st name t n ty : get_raw name st = ESome t n -> t <> ty ->
  snd (h_new st name ty) = Some TInvalidInput /\ get_raw name (fst (h_new st name ty)) = ESome t n.
Proof.
  intros H Ne. unfold h_new. rewrite H, typed_fixed. apply N.eqb_neq in Ne. rewrite Ne. cbn [fst snd].
  split; [reflexivity|apply get_raw_put].
Qed.

(* one step on a typed property: the type stays, the answer is the cell's *)
Lemma cop_step_cell path st name t n op : get_raw name st = ESome t n ->
  exists n', get_raw name (fst (cop_step path st name op)) = ESome t n' /\
             forall r, cell_run2 t n (op :: r) =
                       match snd (cop_step path st name op) with Some x => x :: cell_run2 t n' r | None => cell_run2 t n' r end.
Proof.
  intros H. destruct op as [o|nm ty|nm ty v|nm ty|k v]; cbn [cop_step].
  - destruct o as [m nm ty|m nm ty w|m nm]; cbn [top_step cell_run2]; rewrite H, ?typed_fixed.
    + destruct (t =? ty); cbn [fst snd]; (exists n; split; [apply get_raw_put|reflexivity]).
    + destruct (t =? ty) eqn:Et; cbn [fst snd].
      * apply N.eqb_eq in Et. subst ty. exists (norm_val t w). split; [apply get_raw_put|reflexivity].
      * exists n. split; [apply get_raw_put|reflexivity].
    + cbn [fst snd]. exists n. split; [apply get_raw_put|reflexivity].
  - unfold h_new. rewrite H, typed_fixed. cbn [fst snd cell_run2].
    exists n. split; [apply get_raw_put|]. intros r. destruct (t =? ty); reflexivity.
  - unfold h_set. rewrite H. cbn [cell_run2]. destruct (t =? ty) eqn:Et; cbn [fst snd].
    + apply N.eqb_eq in Et. subst ty. exists (norm_val t v). split; [apply get_raw_put|reflexivity].
    + exists n. split; [exact H|reflexivity].
  - cbn [fst snd cell_run2]. exists n. split; [exact H|]. intros r. unfold h_get. rewrite H. destruct (t =? ty); reflexivity.
  - cbn [fst snd cell_run2]. exists n. split; [apply include_keeps_typed; exact H|reflexivity].
Qed.

Theorem typed_stable_across_includes : forall ops path st name t n, get_raw name st = ESome t n ->
  snd (run_cell path st name ops) = cell_run2 t n ops /\
  exists n', get_raw name (fst (run_cell path st name ops)) = ESome t n'.
Proof.
  induction ops as [|op r IH]; intros path st name t n H.
  - split; [reflexivity|exists n; exact H].
  - cbn [run_cell]. destruct (cop_step_cell path st name t n op H) as [n1 [H1 C]]. rewrite (C r).
    destruct (cop_step path st name op) as [st' out]. cbn [fst snd] in *.
    destruct (IH path st' name t n1 H1) as [A B]. destruct (run_cell path st' name r) as [st'' outs]. cbn [fst snd] in *.
    split; [destruct out; rewrite A; reflexivity|exact B].
Qed.

(* operations on other properties do not matter: whatever runs on the module, a property that has a type keeps it *)
Definition cop_name (name : str) (op : cop) : str :=
  match op with
  | CTyped o => top_name o
  | CHandle nm _ | CHset nm _ _ | CHget nm _ => nm
  | CInclude _ _ => name
  end.

Lemma cop_step_other path st nm op k : str_eqb k nm = false -> (forall a b, op <> CInclude a b) ->
  s_get k (fst (cop_step path st nm op)) = s_get k st.
Proof.
  intros H NI. destruct op as [o|x ty|x ty v|x ty|a b]; cbn [cop_step].
  - destruct o as [m x ty|m x ty w|m x]; cbn [top_step].
    + destruct (typed ty (get_raw nm st)) as [e r]. cbn [fst]. apply s_get_put_other. exact H.
    + destruct (typed ty (get_raw nm st)) as [e [er|]]; cbn [fst]; apply s_get_put_other; exact H.
    + cbn [fst]. apply s_get_put_other. exact H.
  - unfold h_new. destruct (typed ty (get_raw nm st)) as [e r]. cbn [fst]. apply s_get_put_other. exact H.
  - unfold h_set. destruct (get_raw nm st) as [|y|t0 n0]; cbn [fst]; try (apply s_get_put_other; exact H).
    destruct (t0 =? ty); cbn [fst]; [apply s_get_put_other; exact H|reflexivity].
  - reflexivity.
  - exfalso. exact (NI a b eq_refl).
Qed.

Fixpoint run_module (path : list str) (st : store) (ops : list cop) : store :=
  match ops with
  | [] => st
  | op :: r => run_module path (fst (cop_step path st (cop_name [] op) op)) r
  end.

Lemma run_module_step path st name t n op : get_raw name st = ESome t n ->
  exists n', get_raw name (fst (cop_step path st (cop_name [] op) op)) = ESome t n'.
Proof.
  intros H. assert ((exists a b, op = CInclude a b) \/ (forall a b, op <> CInclude a b)) as [[a [b ->]]|NI].
  { destruct op; try (right; intros; discriminate). left. eexists. eexists. reflexivity. }
  - cbn [cop_name cop_step fst]. exists n. apply include_keeps_typed. exact H.
  - destruct (str_eqb name (cop_name [] op)) eqn:E.
    + apply str_eqb_eq in E. rewrite <- E. destruct (cop_step_cell path st name t n op H) as [n1 [H1 _]]. exists n1. exact H1.
    + exists n. unfold get_raw. rewrite cop_step_other by assumption. exact H.
Qed.

Theorem late_keeps_type : forall ops path st name t n, get_raw name st = ESome t n ->
  exists n', get_raw name (run_module path st ops) = ESome t n'.
Proof.
  induction ops as [|op r IH]; intros path st name t n H; [exists n; exact H|]. cbn [run_module].
  destruct (run_module_step path st name t n op H) as [n1 H1]. exact (IH path _ name t n1 H1).
Qed.
