(* update_from is written over an arbitrary store with its `set`; a relation between two stores
   that `set` preserves is preserved by update_from (and so is any invariant of one store). *)
From Coq Require Import List NArith Bool.
From DesVerif Require Import Props.Spec Props.Model.
Import ListNotations.
Open Scope N_scope.

Section Sim.
  Variables T1 T2 : Type.
  Variable set1 : str -> value -> T1 -> T1.
  Variable set2 : str -> value -> T2 -> T2.
  Variable R : T1 -> T2 -> Prop.
  Hypothesis Hset : forall k v a b, R a b -> R (set1 k v a) (set2 k v b).

  Lemma pfold_sim g m : forall a b, R a b -> R (pfold T1 set1 g m a) (pfold T2 set2 g m b).
  Proof.
    unfold pfold. induction m as [|e m IH]; intros a b H; [exact H|].
    cbn [fold_left]. apply IH. destruct (g e); [apply Hset|]; exact H.
  Qed.

  Lemma ploop_sim upd1 upd2 m :
    (forall a b e t, R a b -> R (upd1 a e t) (upd2 b e t)) ->
    forall path a b key first, R a b ->
      R (fst (prefix_loop T1 upd1 m a key first path)) (fst (prefix_loop T2 upd2 m b key first path)) /\
      snd (prefix_loop T1 upd1 m a key first path) = snd (prefix_loop T2 upd2 m b key first path).
  Proof.
    intros Hu. induction path as [|s rest IH]; intros a b key first H.
    - split; [exact H|reflexivity].
    - cbn [prefix_loop]. apply IH. destruct (m_get _ m); [apply Hu|]; exact H.
  Qed.

  Lemma upd_sim f : forall a b base path, R a b ->
    R (update_from T1 set1 f a base path) (update_from T2 set2 f b base path).
  Proof.
    induction f as [|f IH]; intros a b base path H.
    - destruct path; cbn [update_from]; [|exact H]. destruct base; [exact H|]. apply pfold_sim. exact H.
    - destruct path as [|s rest]; cbn [update_from].
      + destruct base; [exact H|]. apply pfold_sim. exact H.
      + destruct base as [n|m]; [exact H|].
        assert (R (match m_get ANY m with Some v => update_from T1 set1 f a v rest | None => a end)
                  (match m_get ANY m with Some v => update_from T2 set2 f b v rest | None => b end)) as H1.
        { destruct (m_get ANY m); [apply IH|]; exact H. }
        destruct (ploop_sim (update_from T1 set1 f) (update_from T2 set2 f) m
                            (fun a0 b0 e t H0 => IH a0 b0 e t H0) (s :: rest) _ _ [] true H1) as [H2 H3].
        destruct (prefix_loop T1 (update_from T1 set1 f) m _ [] true (s :: rest)) as [x1 k1].
        destruct (prefix_loop T2 (update_from T2 set2 f) m _ [] true (s :: rest)) as [x2 k2].
        cbn [fst snd] in H2, H3. subst k2. apply pfold_sim. exact H2.
  Qed.
End Sim.

(* unary version *)
Lemma upd_inv (T : Type) (set : str -> value -> T -> T) (P : T -> Prop) :
  (forall k v a, P a -> P (set k v a)) ->
  forall f a base path, P a -> P (update_from T set f a base path).
Proof.
  intros Hs f a base path H.
  exact (upd_sim T unit set (fun _ _ u => u) (fun a _ => P a) (fun k v a0 b0 H0 => Hs k v a0 H0) f a tt base path H).
Qed.
