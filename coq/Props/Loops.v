(* Facts about the loops of Props::update_from that do not depend on the shape
   of the mapping: Props::set, the `for (k, v) in map` folds, the path-prefix loop. *)
From Coq Require Import List NArith Bool Lia.
From DesVerif Require Import Props.Spec Props.Model Props.Bytes.
Import ListNotations.
Open Scope N_scope.

(* The proofs about what update_from captures instantiate it with plain name/value lists and a
   first-set-wins `set`; Generic.v transfers the results to the property store of the model. *)
Definition props := list (str * value).
Definition p_has (k : str) (ps : props) : bool := existsb (fun e => str_eqb k (fst e)) ps.
Definition p_set (k : str) (v : value) (ps : props) : props :=
  if p_has k ps then ps else ps ++ [(k, v)].

Notation pfold := (Model.pfold props p_set).
Notation take_all := (Model.take_all props p_set).
Notation prefix_loop := (Model.prefix_loop props).
Notation direct := (Model.direct props p_set).
Notation update_from := (Model.update_from props p_set).

Definition hasP (name : str) (ps : props) : Prop := exists v, In (name, v) ps.

(* ---- Props::set ---- *)
Lemma p_has_true k ps : p_has k ps = true <-> hasP k ps.
Proof.
  unfold p_has, hasP. rewrite existsb_exists. split.
  - intros [[k' v] [H E]]. cbn [fst] in E. apply str_eqb_eq in E. subst. exists v. exact H.
  - intros [v H]. exists (k, v). split; [exact H|apply str_eqb_refl].
Qed.

Lemma p_set_mono k v ps x : In x ps -> In x (p_set k v ps).
Proof. intros H. unfold p_set. destruct (p_has k ps); [exact H|apply in_or_app; left; exact H]. Qed.

Lemma p_set_sound k v ps x : In x (p_set k v ps) -> In x ps \/ x = (k, v).
Proof.
  unfold p_set. destruct (p_has k ps); [left; assumption|].
  intros H. apply in_app_or in H. destruct H as [H|[H|[]]]; [left; exact H|right; symmetry; exact H].
Qed.

Lemma p_set_has k v ps : hasP k (p_set k v ps).
Proof.
  unfold p_set. destruct (p_has k ps) eqn:E.
  - apply p_has_true. exact E.
  - exists v. apply in_or_app. right. left. reflexivity.
Qed.

Lemma hasP_mono (ps ps' : props) name : (forall x, In x ps -> In x ps') -> hasP name ps -> hasP name ps'.
Proof. intros H [v Hv]. exists v. apply H. exact Hv. Qed.

(* ---- pfold ---- *)
Lemma pfold_cons g e m ps :
  pfold g (e :: m) ps = pfold g m (match g e with Some kv => p_set (fst kv) (snd kv) ps | None => ps end).
Proof. reflexivity. Qed.

Lemma pfold_mono g m ps x : In x ps -> In x (pfold g m ps).
Proof.
  revert ps; induction m as [|e m IH]; intros ps H; [exact H|].
  rewrite pfold_cons. apply IH. destruct (g e); [apply p_set_mono|]; exact H.
Qed.

Lemma pfold_sound g m ps x : In x (pfold g m ps) -> In x ps \/ exists e, In e m /\ g e = Some x.
Proof.
  revert ps; induction m as [|e m IH]; intros ps H; [left; exact H|].
  rewrite pfold_cons in H. destruct (IH _ H) as [H1|[e' [He' G]]].
  - destruct (g e) as [[k v]|] eqn:E.
    + apply p_set_sound in H1. destruct H1 as [H1|H1]; [left; exact H1|].
      right. exists e. split; [left; reflexivity|]. rewrite E, H1. reflexivity.
    + left. exact H1.
  - right. exists e'. split; [right; exact He'|exact G].
Qed.

Lemma pfold_complete g m ps e k v : In e m -> g e = Some (k, v) -> hasP k (pfold g m ps).
Proof.
  revert ps; induction m as [|e' m IH]; intros ps H G; [destruct H|].
  rewrite pfold_cons. destruct H as [->|H].
  - rewrite G. cbn [fst snd]. eapply hasP_mono; [intros x; apply pfold_mono|apply p_set_has].
  - apply IH; assumption.
Qed.

Lemma pfold_none g m ps : (forall e, In e m -> g e = None) -> pfold g m ps = ps.
Proof.
  revert ps; induction m as [|e m IH]; intros ps H; [reflexivity|].
  rewrite pfold_cons, (H e (or_introl eq_refl)). apply IH. intros e' He'. apply H. right. exact He'.
Qed.

(* ---- the path-prefix loop ---- *)
Definition isnil {A} (l : list A) : bool := match l with [] => true | _ => false end.

Lemma ploop_step upd m ps (done : list str) s rest :
  prefix_loop upd m ps (join_dot done) (isnil done) (s :: rest) =
  prefix_loop upd m (match m_get (join_dot (done ++ [s])) m with Some e => upd ps e rest | None => ps end)
              (join_dot (done ++ [s])) (isnil (done ++ [s])) rest.
Proof.
  cbn [Model.prefix_loop].
  assert ((if isnil done then join_dot done else join_dot done ++ [DOT]) ++ s = join_dot (done ++ [s])) as E.
  { destruct done as [|h d]; [reflexivity|]. cbn [isnil]. rewrite join_dot_app by discriminate.
    cbn [join_dot]. rewrite <- app_assoc. reflexivity. }
  rewrite E. assert (isnil (done ++ [s]) = false) as E2 by (destruct done; reflexivity).
  rewrite E2. reflexivity.
Qed.

Lemma ploop_key upd m ps done todo :
  snd (prefix_loop upd m ps (join_dot done) (isnil done) todo) = join_dot (done ++ todo).
Proof.
  revert ps done; induction todo as [|s rest IH]; intros ps done.
  - rewrite app_nil_r. reflexivity.
  - rewrite ploop_step, IH, <- app_assoc. reflexivity.
Qed.

Section Ploop.
  Variable upd : props -> value -> list str -> props.
  Variable m : mapping.

  Lemma ploop_mono x :
    (forall ps e t, In x ps -> In x (upd ps e t)) ->
    forall todo ps done, In x ps -> In x (fst (prefix_loop upd m ps (join_dot done) (isnil done) todo)).
  Proof.
    intros Hm. induction todo as [|s rest IH]; intros ps done H; [exact H|].
    rewrite ploop_step. apply IH. destruct (m_get _ m); [apply Hm|]; exact H.
  Qed.

  Lemma ploop_sound x (Q : value -> list str -> Prop) :
    forall todo done,
    (forall ps e t1 s t2, todo = t1 ++ s :: t2 -> m_get (join_dot (done ++ t1 ++ [s])) m = Some e ->
                          In x (upd ps e t2) -> In x ps \/ Q e t2) ->
    forall ps, In x (fst (prefix_loop upd m ps (join_dot done) (isnil done) todo)) ->
    In x ps \/ exists t1 s t2 e, todo = t1 ++ s :: t2 /\ m_get (join_dot (done ++ t1 ++ [s])) m = Some e /\ Q e t2.
  Proof.
    induction todo as [|s rest IH]; intros done Hs ps H; [left; exact H|].
    rewrite ploop_step in H. apply (IH (done ++ [s])) in H.
    - destruct H as [H|[t1 [s' [t2 [e [E [G HQ]]]]]]].
      + destruct (m_get (join_dot (done ++ [s])) m) as [e|] eqn:G; [|left; exact H].
        apply (Hs ps e [] s rest eq_refl G) in H. destruct H as [H|H]; [left; exact H|].
        right. exists [], s, rest, e. split; [reflexivity|]. split; [exact G|exact H].
      + right. exists (s :: t1), s', t2, e. split; [cbn [app]; rewrite E; reflexivity|].
        split; [|exact HQ]. rewrite <- app_assoc in G. exact G.
    - intros ps' e t1 s' t2 E G. apply (Hs ps' e (s :: t1) s' t2).
      + cbn [app]. rewrite E. reflexivity.
      + rewrite <- app_assoc in G. exact G.
  Qed.

  Lemma ploop_complete (P : props -> Prop) :
    (forall ps e t, P ps -> P (upd ps e t)) ->
    forall todo ps done t1 s t2 e,
    todo = t1 ++ s :: t2 -> m_get (join_dot (done ++ t1 ++ [s])) m = Some e ->
    (forall ps', P (upd ps' e t2)) ->
    P (fst (prefix_loop upd m ps (join_dot done) (isnil done) todo)).
  Proof.
    intros Hm. assert (forall todo ps done, P ps -> P (fst (prefix_loop upd m ps (join_dot done) (isnil done) todo))) as Mono.
    { induction todo as [|s rest IH]; intros ps done H; [exact H|].
      rewrite ploop_step. apply IH. destruct (m_get _ m); [apply Hm|]; exact H. }
    induction todo as [|s0 rest IH]; intros ps done t1 s t2 e E G HP.
    - destruct t1; discriminate.
    - rewrite ploop_step. destruct t1 as [|a t1].
      + cbn [app] in E. injection E as -> ->. cbn [app] in G. rewrite G. apply Mono. apply HP.
      + cbn [app] in E. injection E as -> ->. eapply IH; [reflexivity| |exact HP].
        rewrite <- app_assoc. exact G.
  Qed.

  Lemma ploop_none ps :
    forall todo done,
    (forall t1 s t2, todo = t1 ++ s :: t2 -> m_get (join_dot (done ++ t1 ++ [s])) m = None) ->
    fst (prefix_loop upd m ps (join_dot done) (isnil done) todo) = ps.
  Proof.
    induction todo as [|s rest IH]; intros done H; [reflexivity|].
    rewrite ploop_step. pose proof (H [] s rest eq_refl) as H0. cbn [app] in H0. rewrite H0. apply IH.
    intros t1 s' t2 E. rewrite <- app_assoc. apply (H (s :: t1) s' t2). cbn [app]. rewrite E. reflexivity.
  Qed.
End Ploop.
