(* Concrete model of des-net-utils/src/props/{yaml,store,mod}.rs and of the two
   places of des/src/net/runtime/mod.rs that hand configurations to modules.
   Function names and branch structure follow the Rust code.  Strings are UTF-8
   byte lists, so starts_with / slicing / the '.' separator mean what they mean
   in Rust.  serde_yml::Mapping (an indexmap) is an association list in insertion
   order; `remove` is swap_remove.  No proofs in this file. *)
From Coq Require Import List NArith Bool.
From DesVerif Require Import Common.Codec Props.Spec.
Import ListNotations.
Open Scope N_scope.

(* serde_yml::Value restricted to what a flat configuration and its
   compartmentalised form contain *)
Inductive value := Scalar (v : N) | Mapping (m : list (str * value)).
Definition mapping := list (str * value).

(* ---------------- byte strings ---------------- *)
Fixpoint prefixb (p s : str) : bool :=            (* s.starts_with(p) *)
  match p, s with
  | [], _ => true
  | x :: p', y :: s' => (x =? y) && prefixb p' s'
  | _ :: _, [] => false
  end.

Fixpoint contains_any (s : str) : bool :=         (* s.contains("<any>") *)
  prefixb ANY s || match s with [] => false | _ :: s' => contains_any s' end.

Fixpoint split_once_any (s : str) : option (str * str) :=   (* s.split_once("<any>") *)
  if prefixb ANY s then Some ([], skipn 5 s)
  else match s with
       | [] => None
       | c :: s' => match split_once_any s' with
                    | Some (a, b) => Some (c :: a, b)
                    | None => None
                    end
       end.

Fixpoint trim_start_dots (s : str) : str :=       (* trim_start_matches('.') *)
  match s with
  | c :: s' => if c =? DOT then trim_start_dots s' else s
  | [] => []
  end.
Definition trim_end_dots (s : str) : str := rev (trim_start_dots (rev s)).

(* ---------------- serde_yml::Mapping ---------------- *)
Fixpoint m_get (k : str) (m : mapping) : option value :=
  match m with
  | [] => None
  | (k', v) :: r => if str_eqb k k' then Some v else m_get k r
  end.
Definition m_has (k : str) (m : mapping) : bool := match m_get k m with Some _ => true | None => false end.

(* overwrite the value stored under an existing key, position kept *)
Fixpoint m_set (k : str) (v : value) (m : mapping) : mapping :=
  match m with
  | [] => []
  | (k', v') :: r => if str_eqb k k' then (k', v) :: r else (k', v') :: m_set k v r
  end.
(* Mapping::insert: replace in place, or append *)
Definition m_insert (k : str) (v : value) (m : mapping) : mapping :=
  if m_has k m then m_set k v m else m ++ [(k, v)].

Fixpoint replace_first (k : str) (e : str * value) (m : mapping) : mapping :=
  match m with
  | [] => []
  | (k', v') :: r => if str_eqb k k' then e :: r else (k', v') :: replace_first k e r
  end.
(* Mapping::remove = swap_remove: the last entry moves into the hole *)
Definition swap_out (k : str) (m : mapping) : mapping :=
  match rev m with
  | [] => []
  | lst :: rb => let body := rev rb in
                 if m_has k body then replace_first k lst body else body
  end.
Definition m_swap_remove (k : str) (m : mapping) : option (value * mapping) :=
  match m_get k m with
  | Some v => Some (v, swap_out k m)
  | None => None
  end.

(* ---------------- yaml.rs: compartmentalize ---------------- *)
(* One iteration of the `for key in keys` loop of compartmentalize_map; [rec] is
   the recursive call on the '<any>' sub-mapping. *)
Definition sub_insert (rec : mapping -> mapping) (bot : str) (val : value) (entry : mapping) : option mapping :=
  (* entry.entry("<any>").or_insert(Mapping::new()); as_mapping_mut else continue;
     subentry.insert(bot, value); compartmentalize_map(subentry) *)
  match m_get ANY entry with
  | Some (Scalar _) => None
  | Some (Mapping s) => Some (m_set ANY (Mapping (rec (m_insert bot val s))) entry)
  | None => Some (entry ++ [(ANY, Mapping (rec (m_insert bot val [])))])
  end.

(* the loop body after `let value = map.remove(&key).unwrap()` *)
Definition route (rec : mapping -> mapping) (top bot : str) (val : value) (m1 : mapping) : mapping :=
  let bot' := trim_start_dots bot in
  match top with
  | [] => match sub_insert rec bot' val m1 with Some m2 => m2 | None => m1 end
  | _ => let top' := trim_end_dots top in
         match m_get top' m1 with
         | Some (Scalar _) => m1                     (* not a mapping: continue, the value is lost *)
         | Some (Mapping e) => match sub_insert rec bot' val e with
                               | Some e' => m_set top' (Mapping e') m1
                               | None => m1
                               end
         | None => match sub_insert rec bot' val [] with
                   | Some e' => m1 ++ [(top', Mapping e')]
                   | None => m1 ++ [(top', Mapping [])]
                   end
         end
  end.

Definition cstep (rec : mapping -> mapping) (m : mapping) (key : str) : mapping :=
  match split_once_any key with
  | None => m                                            (* continue *)
  | Some (top, bot) =>
    match m_swap_remove key m with
    | None => m                                          (* unwrap(): keys are those of the map itself *)
    | Some (val, m1) => route rec top bot val m1
    end
  end.

(* keys to rewrite: contain '<any>' but are not the bare address node '<any>'
   (fix: commit 47d42fd) *)
Definition is_flat_any_key (k : str) : bool := contains_any k && negb (str_eqb k ANY).

Fixpoint compartmentalize_map (fuel : nat) (m : mapping) : mapping :=
  match fuel with
  | O => m
  | S f => fold_left (cstep (compartmentalize_map f)) (filter is_flat_any_key (map fst m)) m
  end.

Definition compartmentalize (fuel : nat) (base : value) : value :=
  match base with
  | Mapping m => Mapping (compartmentalize_map fuel m)
  | other => other
  end.

(* ---------------- yaml.rs: without_any, store.rs: Props::set ---------------- *)
Definition without_any (v : value) : option value :=
  match v with
  | Mapping m => if m_has ANY m
                 then match swap_out ANY m with
                      | [] => None
                      | m' => Some (Mapping m')
                      end
                 else Some v
  | other => Some other
  end.

(* ---------------- mod.rs / store.rs: entries and the property store ---------------- *)
Inductive entry := ENone | EYaml (v : value) | ESome (ty n : N).   (* ty: 0 u64, 1 i64, 2 String, 3 bool *)
Definition store := list (str * entry).            (* Props: FxHashMap<String, Entry>, in insertion order *)

Fixpoint s_get (k : str) (st : store) : option entry :=
  match st with
  | [] => None
  | (k', e) :: r => if str_eqb k k' then Some e else s_get k r
  end.
Fixpoint s_put (k : str) (e : entry) (st : store) : store :=
  match st with
  | [] => [(k, e)]
  | (k', e') :: r => if str_eqb k k' then (k', e) :: r else (k', e') :: s_put k e r
  end.
(* Props::set: entry(key).or_insert(Entry::Yaml(val)) - an existing slot, whatever its state
   (configured, typed, or the empty slot left by a lookup), is kept *)
Definition s_set (k : str) (v : value) (st : store) : store :=
  match s_get k st with
  | Some _ => st
  | None => st ++ [(k, EYaml v)]
  end.
(* get_raw: entry(key).or_insert(Entry::None) *)
Definition get_raw (k : str) (st : store) : entry := match s_get k st with Some e => e | None => ENone end.

(* ---------------- yaml.rs: Props::update_from ---------------- *)
(* written over an arbitrary store type T with its `set`, instantiated with [store]/[s_set] below
   (the proofs also instantiate it with plain name/value lists) *)
Section UpdateFrom.
  Variable T : Type.
  Variable set : str -> value -> T -> T.

  (* a loop `for (k, v) in map { if let Some((name, value)) = g(k, v) { self.set(name, value) } }` *)
  Definition pfold (g : str * value -> option (str * value)) (m : mapping) (ps : T) : T :=
    fold_left (fun ps e => match g e with Some kv => set (fst kv) (snd kv) ps | None => ps end) m ps.

  (* path.is_empty() branch *)
  Definition take_all (ps : T) (m : mapping) : T :=
    pfold (fun e => if contains_any (fst e) then None
                    else match without_any (snd e) with
                         | Some v => Some (fst e, v)
                         | None => None
                         end) m ps.

  (* `for i in 0..path.len()`: key grows by one segment per round, an exact hit
     recurses with the remaining path; returns the full joined path as well *)
  Fixpoint prefix_loop (upd : T -> value -> list str -> T) (m : mapping)
           (ps : T) (key : str) (first : bool) (path : list str) : T * str :=
    match path with
    | [] => (ps, key)
    | s :: rest =>
        let key' := (if first then key else key ++ [DOT]) ++ s in
        let ps' := match m_get key' m with
                   | Some e => upd ps e rest
                   | None => ps
                   end in
        prefix_loop upd m ps' key' false rest
    end.

  (* "extract direct prefixes, a prefix must end at a segment boundary" *)
  Definition direct (key : str) (ps : T) (m : mapping) : T :=
    pfold (fun e => if prefixb (key ++ [DOT]) (fst e)
                    then match without_any (snd e) with
                         | Some v => Some (skipn (length key + 1) (fst e), v)
                         | None => None
                         end
                    else None) m ps.

  Fixpoint update_from (fuel : nat) (ps : T) (base : value) (path : list str) : T :=
    match path with
    | [] => match base with Mapping m => take_all ps m | Scalar _ => ps end
    | _ :: rest =>
      match fuel with
      | O => ps
      | S f =>
        match base with
        | Scalar _ => ps
        | Mapping m =>
            let ps1 := match m_get ANY m with
                       | Some v => update_from f ps v rest
                       | None => ps
                       end in
            let '(ps2, key) := prefix_loop (update_from f) m ps1 [] true path in
            direct key ps2 m
        end
      end
    end.
End UpdateFrom.

(* ---------------- Cfg ---------------- *)
Definition cfg := value.
Definition cfg_fuel (entries : list (str * N)) : nat := S (length (concat (map fst entries))).
(* serde_yml::from_str of the flat text + Cfg::new *)
Definition cfg_new (entries : list (str * N)) : cfg :=
  compartmentalize (cfg_fuel entries) (Mapping (map (fun e => (fst e, Scalar (snd e))) entries)).
(* an entry's value as the user writes it: a number, or a hand-nested one-level mapping of numbers
   (`lan.alice: { mtu: 1500 }`, flow or block form) *)
Inductive eval := VNum (v : N) | VMap (m : list (str * N)).
Definition value_of (e : eval) : value :=
  match e with
  | VNum v => Scalar v
  | VMap m => Mapping (map (fun x => (fst x, Scalar (snd x))) m)
  end.
Definition cfg_new_v (entries : list (str * eval)) : cfg :=
  compartmentalize (S (length (concat (map fst entries)))) (Mapping (map (fun e => (fst e, value_of (snd e))) entries)).
Definition capture_for (c : cfg) (path : list str) (st : store) : store :=
  update_from store s_set (length path) st c path.
Definition capture_for_into (c : cfg) (path : list str) : store := capture_for c path [].

(* ---------------- runtime/mod.rs ---------------- *)
Record sim := { cfgs : list cfg; modules : list (list str * store) }.
Definition sim_new : sim := {| cfgs := []; modules := [] |}.
(* include_cfg: existing modules capture first, then the cfg is stored *)
Definition include_cfg (s : sim) (c : cfg) : sim :=
  {| cfgs := cfgs s ++ [c];
     modules := map (fun mp => (fst mp, capture_for c (fst mp) (snd mp))) (modules s) |}.
(* raw(): a new module captures from every stored cfg *)
Definition node (s : sim) (path : list str) : sim :=
  {| cfgs := cfgs s;
     modules := modules s ++ [(path, fold_left (fun ps c => capture_for c path ps) (cfgs s) [])] |}.

(* Several configurations, each to be included once [fst] of the modules exist: the modules are created
   in order; before module i the pending configurations scheduled for i are included (in their order),
   what is left is included after the last module. *)
Definition at_now (i : nat) (x : nat * cfg) : bool := Nat.eqb (fst x) i.
Definition include_all (s : sim) (l : list (nat * cfg)) : sim := fold_left (fun s x => include_cfg s (snd x)) l s.
Fixpoint build (s : sim) (pending : list (nat * cfg)) (i : nat) (paths : list (list str)) : sim :=
  match paths with
  | [] => include_all s pending
  | p :: r => build (node (include_all s (filter (at_now i) pending)) p)
                    (filter (fun x => negb (at_now i x)) pending) (S i) r
  end.
(* the order in which that schedule issues the includes, for [k] modules starting with number [i] *)
Fixpoint time_order (pending : list (nat * cfg)) (i k : nat) : list (nat * cfg) :=
  match k with
  | O => pending
  | S k' => filter (at_now i) pending ++ time_order (filter (fun x => negb (at_now i x)) pending) (S i) k'
  end.
(* Cfg::capture_for of several configurations in turn (first set wins) *)
Definition capture_all (cs : list cfg) (path : list str) : store :=
  fold_left (fun st c => capture_for c path st) cs [].

(* ---------------- mod.rs: typed access ---------------- *)
Inductive terr := TInvalidInput | TOther.

(* T::from_value: unsigned YAML numbers deserialise as u64 / i64 only *)
Definition from_value (ty : N) (v : value) : option N :=
  match v with
  | Scalar n => if ty <? 2 then Some n else None
  | Mapping _ => None
  end.
(* RawProp::is::<T> *)
Definition is_ty (ty : N) (e : entry) : bool :=
  match e with ESome t _ => t =? ty | _ => true end.
(* RawProp::typed::<T> *)
Definition typed (ty : N) (e : entry) : entry * option terr :=
  if is_ty ty e then
    match e with
    | EYaml v => match from_value ty v with
                 | Some n => (ESome ty n, None)
                 | None => (e, Some TOther)
                 end
    | _ => (e, None)
    end
  else (e, Some TInvalidInput).

Definition norm_val (ty v : N) : N := if ty =? 3 then v mod 2 else v.

Inductive top := TRead (m : N) (name : str) (ty : N) | TWrite (m : N) (name : str) (ty v : N) | TRaw (m : N) (name : str).

Definition enc_str (s : str) : list N := N.of_nat (length s) :: s.
Fixpoint enc_value (v : value) : list N :=
  match v with
  | Scalar n => [0; n]
  | Mapping m => 1 :: N.of_nat (length m) ::
                 (fix go (m : mapping) : list N :=
                    match m with
                    | [] => []
                    | (k, x) :: r => enc_str k ++ enc_value x ++ go r
                    end) m
  end.
Definition enc_entry (e : entry) : list N :=
  match e with
  | ENone => [6]
  | EYaml v => enc_value v
  | ESome ty n => if ty <? 2 then [0; n] else if ty =? 2 then [2; n] else [3; n]
  end.
Definition err_code (e : terr) : N := match e with TInvalidInput => 2 | TOther => 3 end.

Definition top_step (st : store) (name : str) (o : top) : store * list N :=
  match o with
  | TRead _ _ ty =>
      let '(e, r) := typed ty (get_raw name st) in
      (s_put name e st,
       match r with
       | Some er => [3; err_code er]
       | None => match e with ESome _ n => [3; 1; n] | _ => [3; 0] end
       end)
  | TWrite _ _ ty v =>
      let '(e, r) := typed ty (get_raw name st) in
      match r with
      | Some er => (s_put name e st, [4; err_code er])
      | None => (s_put name (ESome ty (norm_val ty v)) st, [4; 0])
      end
  | TRaw _ _ => let e := get_raw name st in (s_put name e st, 5 :: enc_entry e)
  end.

Fixpoint upd_nth {A} (i : nat) (f : A -> A) (l : list A) : list A :=
  match l, i with
  | [], _ => []
  | x :: r, O => f x :: r
  | x :: r, S i' => x :: upd_nth i' f r
  end.

Definition top_mod (o : top) : N := match o with TRead m _ _ | TWrite m _ _ _ | TRaw m _ => m end.
Definition top_name (o : top) : str := match o with TRead _ n _ | TWrite _ n _ _ | TRaw _ n => n end.
Definition top_norm (o : top) : top :=
  match o with
  | TRead m n t => TRead m n (t mod 4)
  | TWrite m n t v => TWrite m n (t mod 4) v
  | TRaw m n => o
  end.

(* ---------------- mod.rs: long-lived typed handles (Prop<T>) ---------------- *)
(* Prop::<T>::set through a handle: `assert!(slot.as_option().is_none_or(|prev| prev.is::<T>()))` - a slot that
   holds a value of another type makes the call panic (record 9 4) before anything is written; otherwise the
   slot becomes Entry::Some(value) *)
Definition h_set (st : store) (name : str) (ty v : N) : store * list N :=
  match get_raw name st with
  | ESome t _ => if t =? ty then (s_put name (ESome ty (norm_val ty v)) st, [13; 0]) else (st, [9; 4])
  | _ => (s_put name (ESome ty (norm_val ty v)) st, [13; 0])
  end.
(* Prop::<T>::get through a handle: `downcast_ref().expect("prop-type has changed, this handle is invalid")` *)
Definition h_get (st : store) (name : str) (ty : N) : list N :=
  match get_raw name st with
  | ESome t n => if t =? ty then [14; 1; n] else [9; 5]
  | _ => [14; 0]
  end.
(* creating a handle = RawProp::typed::<T>() *)
Definition h_new (st : store) (name : str) (ty : N) : store * option terr :=
  let '(e, r) := typed ty (get_raw name st) in (s_put name e st, r).

(* what happens to the modules once they all exist: typed accesses through fresh lookups, further
   configurations (one entry each) included while the nodes already carry typed properties, typed handles
   that are kept and used later, RawProp::clear *)
Inductive late :=
| LTyped (t : top) | LInclude (k : str) (v : N)
| LHandle (m : N) (name : str) (ty : N)      (* h = prop::<T>(name), kept *)
| LHset (h v : N)                            (* handles[h].set(v) *)
| LHget (h : N)                              (* handles[h].get() *)
| LClear (m : N) (name : str).               (* prop_raw(name).clear() *)

Definition handle := option (nat * str * N).       (* module index, property, type; None: creation failed *)
Definition mod_store (mods : list (list str * store)) (i : nat) : store := snd (nth i mods ([], [])).
Definition set_store (mods : list (list str * store)) (i : nat) (st : store) := upd_nth i (fun mp => (fst mp, st)) mods.

Fixpoint run_late (mods : list (list str * store)) (hs : list handle) (ops : list late)
  : list (list str * store) * list N :=
  match ops with
  | [] => (mods, [])
  | LTyped o :: r =>
      let i := N.to_nat (top_mod o mod N.of_nat (length mods)) in
      let '(st', out) := top_step (mod_store mods i) (top_name o) (top_norm o) in
      let '(mods', outs) := run_late (set_store mods i st') hs r in
      (mods', out ++ outs)
  | LInclude k v :: r =>
      let c := cfg_new [(k, v)] in
      run_late (map (fun mp => (fst mp, capture_for c (fst mp) (snd mp))) mods) hs r
  | LHandle m name ty :: r =>
      let i := N.to_nat (m mod N.of_nat (length mods)) in
      let '(st', res) := h_new (mod_store mods i) name (ty mod 4) in
      let '(mods', outs) := run_late (set_store mods i st')
                                     (hs ++ [match res with None => Some (i, name, ty mod 4) | Some _ => None end]) r in
      (mods', [8; match res with None => 0 | Some er => err_code er end] ++ outs)
  | LHset h v :: r =>
      match nth (N.to_nat (h mod N.of_nat (length hs))) hs None with
      | Some (i, name, ty) =>
          let '(st', out) := h_set (mod_store mods i) name ty v in
          let '(mods', outs) := run_late (set_store mods i st') hs r in
          (mods', out ++ outs)
      | None => let '(mods', outs) := run_late mods hs r in (mods', [13; 7] ++ outs)
      end
  | LHget h :: r =>
      let out := match nth (N.to_nat (h mod N.of_nat (length hs))) hs None with
                 | Some (i, name, ty) => h_get (mod_store mods i) name ty
                 | None => [14; 7]
                 end in
      let '(mods', outs) := run_late mods hs r in (mods', out ++ outs)
  | LClear m name :: r =>
      let i := N.to_nat (m mod N.of_nat (length mods)) in
      let '(mods', outs) := run_late (set_store mods i (s_put name ENone (mod_store mods i))) hs r in
      (mods', [15] ++ outs)
  end.

(* ---------------- canonical output ---------------- *)
Fixpoint str_ltb (a b : str) : bool :=             (* Rust String Ord: bytewise lexicographic *)
  match a, b with
  | _, [] => false
  | [], _ :: _ => true
  | x :: a', y :: b' => (x <? y) || ((x =? y) && str_ltb a' b')
  end.
Fixpoint ins_sorted (e : str * entry) (l : store) : store :=
  match l with
  | [] => [e]
  | x :: r => if str_ltb (fst e) (fst x) then e :: x :: r else x :: ins_sorted e r
  end.
Definition sort_props (ps : store) : store := fold_right ins_sorted [] ps.
Definition dump (tag : N) (ps : store) : list N :=
  tag :: N.of_nat (length ps) :: flat_map (fun e => enc_str (fst e) ++ enc_entry (snd e)) (sort_props ps).

(* ---------------- wire format ---------------- *)
Inductive op := OEntry (k : str) (v : eval) | OModule (p : str) | OLate (l : late) | OGroup (at_ : N).

Definition take1 (l : list N) : N * list N := match l with [] => (0, []) | x :: r => (x, r) end.

(* `n (<sub-key> val)*n`, truncated at the end of input *)
Fixpoint take_pairs (n : nat) (l : list N) : list (str * N) * list N :=
  match n with
  | O => ([], l)
  | S n' => match l with
            | [] => ([], [])
            | _ => let '(k, r1) := take_lp l in let '(v, r2) := take1 r1 in
                   let '(ps, r3) := take_pairs n' r2 in ((k, v) :: ps, r3)
            end
  end.

Definition dec_op (l : list N) : option (op * list N) :=
  match l with
  | 1 :: r => let '(k, r1) := take_lp r in let '(v, r2) := take1 r1 in Some (OEntry k (VNum v), r2)
  | 12 :: r => let '(k, r1) := take_lp r in let '(form, r2) := take1 r1 in let '(n, r3) := take1 r2 in
               let '(ps, r4) := take_pairs (N.to_nat n) r3 in Some (OEntry k (VMap ps), r4)
  | 2 :: r => let '(p, r1) := take_lp r in Some (OModule p, r1)
  | 3 :: r => let '(m, r0) := take1 r in let '(n, r1) := take_lp r0 in let '(t, r2) := take1 r1 in
              Some (OLate (LTyped (TRead m n t)), r2)
  | 4 :: r => let '(m, r0) := take1 r in let '(n, r1) := take_lp r0 in let '(t, r2) := take1 r1 in
              let '(v, r3) := take1 r2 in Some (OLate (LTyped (TWrite m n t v)), r3)
  | 5 :: r => let '(m, r0) := take1 r in let '(n, r1) := take_lp r0 in Some (OLate (LTyped (TRaw m n)), r1)
  | 6 :: r => let '(k, r1) := take_lp r in let '(v, r2) := take1 r1 in Some (OLate (LInclude k v), r2)
  | 7 :: r => let '(a, r1) := take1 r in Some (OGroup a, r1)
  | 8 :: r => let '(m, r0) := take1 r in let '(n, r1) := take_lp r0 in let '(t, r2) := take1 r1 in
              Some (OLate (LHandle m n t), r2)
  | 9 :: r => let '(h, r0) := take1 r in let '(v, r1) := take1 r0 in Some (OLate (LHset h v), r1)
  | 10 :: r => let '(h, r0) := take1 r in Some (OLate (LHget h), r0)
  | 11 :: r => let '(m, r0) := take1 r in let '(n, r1) := take_lp r0 in Some (OLate (LClear m n), r1)
  | _ => None
  end.

(* printable ASCII or a two-byte UTF-8 sequence with lead C3..DF *)
Fixpoint valid_text_aux (fuel : nat) (s : str) : bool :=
  match fuel with
  | O => true
  | S f => match s with
           | [] => true
           | x :: r => if (32 <=? x) && (x <=? 126) then valid_text_aux f r
                       else match r with
                            | y :: r' => (195 <=? x) && (x <=? 223) && (128 <=? y) && (y <=? 191) && valid_text_aux f r'
                            | [] => false
                            end
           end
  end.
Definition valid_text (s : str) : bool := valid_text_aux (length s) s.

Definition is_nil (s : str) : bool := match s with [] => true | _ => false end.
Fixpoint nodupb (l : list str) : bool :=
  match l with
  | [] => true
  | x :: r => negb (existsb (str_eqb x) r) && nodupb r
  end.

Definition entries_of (ops : list op) : list (str * eval) :=
  flat_map (fun o => match o with OEntry k v => [(k, v)] | _ => [] end) ops.
(* the entries are partitioned into separate includes: `7 at` closes the current one and opens the next,
   to be included once [at] modules exist (the first one uses the script's header) *)
Fixpoint groups_of (ops : list op) (cur_at : N) (cur : list (str * eval)) : list (N * list (str * eval)) :=
  match ops with
  | [] => [(cur_at, cur)]
  | OEntry k v :: r => groups_of r cur_at (cur ++ [(k, v)])
  | OGroup a :: r => (cur_at, cur) :: groups_of r a []
  | _ :: r => groups_of r cur_at cur
  end.
Definition paths_of (ops : list op) : list str :=
  flat_map (fun o => match o with OModule p => [p] | _ => [] end) ops.
Definition lates_of (ops : list op) : list late :=
  flat_map (fun o => match o with OLate l => [l] | _ => [] end) ops.
Definition late_text (l : late) : str :=
  match l with
  | LTyped t => top_name t
  | LInclude k _ => k
  | LHandle _ n _ | LClear _ n => n
  | LHset _ _ | LHget _ => []
  end.

Definition valid_script (ops : list op) : bool :=
  forallb (fun e => valid_text (fst e) &&
                    match snd e with VNum _ => true | VMap m => forallb (fun x => valid_text (fst x)) m end) (entries_of ops) &&
  forallb (fun p => valid_text p && negb (existsb is_nil (split_dot p))) (paths_of ops) &&
  nodupb (paths_of ops) &&
  forallb (fun l => valid_text (late_text l)) (lates_of ops).

(* the YAML parser rejects a mapping with a repeated key *)
Definition yaml_ok (entries : list (str * eval)) : bool :=
  nodupb (map fst entries) &&
  forallb (fun e => match snd e with VNum _ => true | VMap m => nodupb (map fst m) end) entries.

(* first dump, late operations, final dump *)
Definition level_out (mods : list (list str * store)) (lates : list late) : list N :=
  flat_map (fun mp => dump 10 (snd mp)) mods ++
  match mods with
  | [] => []
  | _ => let '(mods', outs) := run_late mods [] lates in
         outs ++ flat_map (fun mp => dump 12 (snd mp)) mods'
  end.

Definition run (input : list N) : list N :=
  match input with
  | [] => [7]
  | inc_at :: r =>
      let ops := decode_all dec_op r in
      if negb (valid_script ops) then [7]
      else
        let groups := groups_of ops inc_at [] in
        let paths := map split_dot (paths_of ops) in
        let lates := lates_of ops in
        let n := N.of_nat (length paths) in
        (* include_cfg ignores a text the YAML parser rejects *)
        let sched := flat_map (fun g => if yaml_ok (snd g) then [(N.to_nat (N.min (fst g) n), cfg_new_v (snd g))] else []) groups in
        let flags := map (fun g => if yaml_ok (snd g) then 0 else 5) groups in
        let cs := map snd (time_order sched 0 (length paths)) in
        let s := build sim_new sched 0 paths in
        [100; N.of_nat (length groups)] ++ flags ++ level_out (map (fun p => (p, capture_all cs p)) paths) lates ++
        [200] ++ level_out (modules s) lates
  end.
