(* C17 — specification: which configuration entries a module receives.
   A configuration is a flat list of entries (key, value): the key is the dotted
   text the user wrote (UTF-8 bytes), the value an opaque id.  A module path is a
   list of segments.  Nothing here mentions nested mappings, prefixes of text or
   lookup order. *)
From Coq Require Import List NArith Bool.
Import ListNotations.
Open Scope N_scope.

Definition str := list N.                       (* UTF-8 bytes *)
Definition DOT : N := 46.                       (* '.' *)
Definition ANY : str := [60; 97; 110; 121; 62]. (* "<any>" *)

(* "a.b.c" -> ["a"; "b"; "c"];  "" -> [""];  "a." -> ["a"; ""]   (Rust: str::split('.')) *)
Fixpoint split_dot (s : str) : list str :=
  match s with
  | [] => [[]]
  | c :: r => if c =? DOT then [] :: split_dot r
              else match split_dot r with
                   | [] => [[c]]
                   | h :: t => (c :: h) :: t
                   end
  end.

(* ["a"; "b"] -> "a.b" *)
Fixpoint join_dot (l : list str) : str :=
  match l with
  | [] => []
  | [x] => x
  | x :: r => x ++ DOT :: join_dot r
  end.

(* a key segment addresses a path segment: '<any>' matches exactly one (any) segment *)
Definition seg_match (k p : str) : Prop := k = ANY \/ k = p.

(* the key [k] consists of the module path [p] followed by the property name [r]
   (a non-empty list of segments, none of them the wildcard) *)
Definition addresses (k : str) (p r : list str) : Prop :=
  exists q, split_dot k = q ++ r /\ Forall2 seg_match q p /\ r <> [] /\ ~ In ANY r.

(* module [p] is entitled to property [name] with value [v] under configuration [cfg] *)
Definition receives (cfg : list (str * N)) (p : list str) (name : str) (v : N) : Prop :=
  exists k r, In (k, v) cfg /\ addresses k p r /\ name = join_dot r.

(* ---- the same, executable (used by Examples and by the refutation witnesses) ---- *)
Fixpoint str_eqb (a b : str) : bool :=
  match a, b with
  | [], [] => true
  | x :: a', y :: b' => (x =? y) && str_eqb a' b'
  | _, _ => false
  end.

Fixpoint match_path (ks p : list str) {struct p} : option (list str) :=
  match p, ks with
  | [], _ => Some ks
  | s :: p', k :: ks' => if str_eqb k ANY || str_eqb k s then match_path ks' p' else None
  | _ :: _, [] => None
  end.

Definition addressed_name (k : str) (p : list str) : option str :=
  match match_path (split_dot k) p with
  | Some (x :: r) => if existsb (str_eqb ANY) (x :: r) then None else Some (join_dot (x :: r))
  | _ => None
  end.

(* all (name, value) pairs module [p] is entitled to, in configuration order *)
Fixpoint spec_capture (cfg : list (str * N)) (p : list str) : list (str * N) :=
  match cfg with
  | [] => []
  | (k, v) :: c => match addressed_name k p with
                   | Some n => (n, v) :: spec_capture c p
                   | None => spec_capture c p
                   end
  end.
