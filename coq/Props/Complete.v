(* Props::update_from on a well-shaped mapping: every entry of the denotation that
   addresses the module path yields a property of that name. *)
From Coq Require Import List NArith Bool Lia.
From DesVerif Require Import Props.Spec Props.Model Props.Bytes Props.Den Props.Loops Props.Capture.
Import ListNotations.
Open Scope N_scope.

Lemma upd_hasP_mono f ps base p name : hasP name ps -> hasP name (update_from f ps base p).
Proof. apply hasP_mono. intros x. apply upd_mono. Qed.

Lemma F2_cons_inv a q p : Forall2 seg_match (a :: q) p -> exists b t, p = b :: t /\ Forall2 seg_match q t.
Proof. intros H. inversion H as [|? b ? t _ F]; subst. exists b, t. split; [reflexivity|exact F]. Qed.

Lemma take_all_complete m ps k n : In (k, Scalar n) m -> key_ok k -> hasP k (take_all ps m).
Proof.
  intros H K. unfold Model.take_all. eapply pfold_complete; [exact H|]. cbn [fst snd]. rewrite K. reflexivity.
Qed.

Lemma direct_complete m ps p r k n : In (k, Scalar n) m -> p <> [] -> r <> [] -> split_dot k = p ++ r ->
  hasP (join_dot r) (direct (join_dot p) ps m).
Proof.
  intros H Np Nr Ek. unfold Model.direct. eapply pfold_complete; [exact H|]. cbn [fst snd].
  assert (k = (join_dot p ++ [DOT]) ++ join_dot r) as E.
  { rewrite <- (join_split k), Ek, join_dot_app by assumption. rewrite <- app_assoc. reflexivity. }
  rewrite E at 1. rewrite prefixb_app. cbn [without_any]. f_equal. f_equal.
  rewrite E. replace (length (join_dot p) + 1)%nat with (length (join_dot p ++ [DOT])) by (rewrite app_length; reflexivity).
  apply skipn_app_len.
Qed.

Lemma upd_complete_n n : forall f p m ps name val, WS m -> wf_path p -> (length p <= n)%nat -> (length p <= f)%nat ->
  J (denm m) p (name, val) -> hasP name (update_from f ps (Mapping m) p).
Proof.
  induction n as [|n IH]; intros f p m ps name val W Wp Ln L HJ;
    destruct HJ as [e [v [r [He [[q [Eq [F [Nr Na]]]] Ex]]]]]; injection Ex as -> ->;
    apply in_denm in He; destruct He as [[k xv] [Hin Hd]];
    destruct (WS_entry m k xv W Hin) as [[n0 [-> K]]|[[s' [-> [K [Ws' _]]]]|[s' [-> [-> [Ws' _]]]]]].
  - (* n = 0, flat *)
    destruct p; [|cbn [length] in Ln; lia]. destruct Hd as [Hd|[]]. injection Hd as <- <-.
    inversion F; subst. cbn [app] in Eq. rewrite <- Eq, join_split, upd_nil. eapply take_all_complete; eassumption.
  - destruct p; [|cbn [length] in Ln; lia]. rewrite den_e_chunk in Hd. apply in_map_iff in Hd.
    destruct Hd as [[e1 v1] [E1 Hd]]. apply in_map_iff in Hd. destruct Hd as [[e2 v2] [E2 _]].
    unfold pre in E1, E2. cbn [fst snd] in E1, E2. injection E2 as <- <-. injection E1 as <- <-.
    inversion F; subst. cbn [app] in Eq. exfalso. apply Na. rewrite <- Eq. apply in_or_app. right. left. reflexivity.
  - destruct p; [|cbn [length] in Ln; lia]. rewrite den_e_any in Hd. apply in_map_iff in Hd.
    destruct Hd as [[e1 v1] [E1 _]]. unfold pre in E1. cbn [fst snd] in E1. injection E1 as <- <-.
    inversion F; subst. cbn [app] in Eq. exfalso. apply Na. rewrite <- Eq. left. reflexivity.
  - (* flat key *)
    destruct Hd as [Hd|[]]. injection Hd as <- <-.
    assert (q = p) as ->. { apply F2_noany; [exact F|]. intros X. apply (key_noany k K). rewrite Eq. apply in_or_app. left. exact X. }
    destruct p as [|s0 rest0].
    + cbn [app] in Eq. rewrite <- Eq, join_split, upd_nil. eapply take_all_complete; eassumption.
    + destruct f as [|f]; [cbn [length] in L; lia|]. rewrite upd_cons. cbv zeta.
      eapply direct_complete; [exact Hin|discriminate|exact Nr|exact Eq].
  - (* chunk key *)
    rewrite den_e_chunk in Hd. apply in_map_iff in Hd. destruct Hd as [[e1 v1] [E1 Hd]].
    apply in_map_iff in Hd. destruct Hd as [[e2 v2] [E2 Hd]].
    unfold pre in E1, E2. cbn [fst snd] in E1, E2. injection E2 as <- <-. injection E1 as E1 <-.
    rewrite <- E1 in Eq. cbn [app] in Eq.
    destruct (app_split_any _ _ _ _ Eq Na) as [q' [-> Ee2]].
    apply Forall2_app_inv_l in F. destruct F as [pa [pb [Fa [Fb ->]]]].
    apply F2_cons_inv in Fb. destruct Fb as [a [t3 [-> Fq]]].
    assert (split_dot k = pa) as Epa by (apply F2_noany; [exact Fa|apply key_noany; exact K]).
    destruct (exists_last (split_dot_nonnil k)) as [t1 [s Ets]]. rewrite Ets in Epa. subst pa.
    destruct (wf_path_mid t1 s (a :: t3)) as [W1 W2]; [rewrite <- app_assoc in Wp; exact Wp|].
    assert (length ((t1 ++ [s]) ++ a :: t3) = (length t1 + 2 + length t3)%nat) as EL
      by (rewrite !app_length; cbn [length]; lia).
    destruct ((t1 ++ [s]) ++ a :: t3) as [|s0 rest0] eqn:Ep; [destruct t1; discriminate|].
    destruct f as [|f]; [lia|]. rewrite upd_cons. cbv zeta.
    unfold Model.direct. eapply hasP_mono; [intros x; apply pfold_mono|].
    assert (m_get (join_dot ([] ++ t1 ++ [s])) m = Some (Mapping [(ANY, Mapping s')])) as G.
    { cbn [app]. rewrite <- Ets, join_split. apply in_m_get; [apply WS_nodup; exact W|exact Hin]. }
    rewrite <- app_assoc in Ep. cbn [app] in Ep.
    eapply (ploop_complete (update_from f) m (hasP (join_dot r))); [|symmetry; exact Ep|exact G|].
    + intros ps0 e0 t0. apply upd_hasP_mono.
    + intros ps'. destruct f as [|f']; [lia|]. rewrite chunk_upd by exact W2.
      eapply (IH f' t3 s' ps' _ (Scalar v2)); [exact Ws'|inversion W2; assumption|lia|lia|].
      exists e2, v2, r. split; [exact Hd|]. split; [|reflexivity].
      exists q'. split; [exact Ee2|]. split; [exact Fq|]. split; assumption.
  - (* '<any>' node *)
    rewrite den_e_any in Hd. apply in_map_iff in Hd. destruct Hd as [[e1 v1] [E1 Hd]].
    unfold pre in E1. cbn [fst snd] in E1. injection E1 as E1 <-. rewrite <- E1 in Eq. cbn [app] in Eq.
    destruct (app_split_any [] _ _ _ Eq Na) as [q' [-> Ee1]]. cbn [app] in F.
    apply F2_cons_inv in F. destruct F as [a [rest0 [-> Fq]]].
    destruct f as [|f]; [cbn [length] in L; lia|]. rewrite upd_cons. cbv zeta.
    unfold Model.direct. eapply hasP_mono; [intros x; apply pfold_mono|].
    eapply hasP_mono; [intros x; apply ploop_mono; intros; apply upd_mono; assumption|].
    rewrite (in_m_get ANY (Mapping s') m (WS_nodup m W) Hin).
    eapply (IH f rest0 s' ps _ (Scalar v1)); [exact Ws'|inversion Wp; assumption|cbn [length] in Ln; lia|cbn [length] in L; lia|].
    exists e1, v1, r. split; [exact Hd|]. split; [|reflexivity].
    exists q'. split; [exact Ee1|]. split; [exact Fq|]. split; assumption.
Qed.

Lemma upd_complete p m ps name val : WS m -> wf_path p -> J (denm m) p (name, val) ->
  hasP name (update_from (length p) ps (Mapping m) p).
Proof. intros W Wp. apply (upd_complete_n (length p)); auto. Qed.
