(* C03: the dispatch order among equal timestamps is a fixed function of the
   scheduling history.  Every event gets, when it is scheduled, the dispatch key
   (time, class, id): class 0 if it was scheduled for the then-current instant
   (it went to the FIFO), class 1 otherwise; id is the scheduling sequence
   number.  Fetch always returns the pending event with the smallest key, and the
   class of a pending event never changes. *)
From Coq Require Import List Arith NArith PArith Lia Bool Sorting.Sorted Permutation ZifyBool.
From DesVerif Require Import Common.Fuel Common.Codec CQueue.Model CQueue.Spec CQueue.Scan CQueue.Term CQueue.Fetch CQueue.AddInv CQueue.ListX CQueue.SpecProps.
Import ListNotations.
Open Scope N_scope.

Definition id_sorted (l : list ev) := StronglySorted (fun a b => eid a < eid b) l.

Record SI2 (s : sp) : Prop := { SI2_si : SI s; SI2_zsorted : id_sorted (s_zero s) }.

Lemma SI2_new_at ts : SI2 (sp_new_at ts).
Proof. split; [apply SI_new_at|constructor]. Qed.
Lemma SI2_new : SI2 sp_new.
Proof. apply SI2_new_at. Qed.

Lemma id_sorted_app_one l e : id_sorted l -> (forall x, In x l -> eid x < eid e) -> id_sorted (l ++ [e]).
Proof.
  unfold id_sorted. induction l as [|y l IH]; intros Hs Hlt; cbn [app].
  - repeat constructor.
  - inversion Hs as [|? ? Hs' Hall]; subst. constructor.
    + apply IH; [exact Hs'|intros x Hx; apply Hlt; right; exact Hx].
    + rewrite Forall_forall in *. intros x Hx. apply in_app_or in Hx. destruct Hx as [Hx|[<-|[]]]; [auto|].
      apply Hlt. left; reflexivity.
Qed.

Lemma SI2_add s t p : SI2 s -> SI2 (fst (fst (sp_add s t p))).
Proof.
  intros [HS Hz]. split; [apply SI_add; exact HS|]. unfold sp_add.
  destruct (t <? s_tcur s); [exact Hz|]. destruct (t =? s_tcur s); cbn [fst s_zero]; [|exact Hz].
  apply id_sorted_app_one; [exact Hz|]. intros x Hx. cbn. apply (SI_ids s HS). apply in_or_app. left; exact Hx.
Qed.

Lemma SI2_cancel s i : SI2 s -> SI2 (sp_cancel s i).
Proof.
  intros [HS Hz]. split; [apply SI_cancel; exact HS|]. unfold sp_cancel.
  destruct (remove_id i (s_zero s)) as [z'|] eqn:Ez; cbn [s_zero].
  - eapply remove_id_sorted; eassumption.
  - destruct (remove_id i (s_rest s)); exact Hz.
Qed.

Lemma SI2_fetch s : SI2 s -> SI2 (fst (sp_fetch s)).
Proof.
  intros [HS Hz]. split; [apply SI_fetch; exact HS|]. unfold sp_fetch.
  destruct (s_zero s) as [|x z] eqn:Ez.
  - destruct (s_rest s); cbn [fst s_zero]; [rewrite Ez|]; constructor.
  - cbn [fst s_zero]. inversion Hz; assumption.
Qed.

Lemma SI2_step a o : SI2 (ss a) -> SI2 (ss (fst (sp_step a o))).
Proof.
  intros HS. destruct o as [t p|k| | | | |]; cbn [sp_step].
  - pose proof (SI2_add (ss a) t p HS) as H. destruct (sp_add (ss a) t p) as [[s' h] x]. exact H.
  - destruct (pick_handle (shandles a) k) as [[t i]|]; [apply SI2_cancel|]; exact HS.
  - pose proof (SI2_fetch (ss a) HS) as H. destruct (sp_fetch (ss a)) as [s' x]. exact H.
  - exact HS.
  - exact HS.
  - exact HS.
  - exact HS.
Qed.

Lemma SI2_reachable ops : forall a, SI2 (ss a) -> SI2 (ss (fst (sp_run_from a ops))).
Proof.
  induction ops as [|o ops IH]; intros a HS; cbn [sp_run_from]; [exact HS|].
  pose proof (SI2_step a o HS) as H. destruct (sp_step a o) as [a' x]. cbn [fst] in H.
  specialize (IH a' H). destruct (sp_run_from a' ops) as [a'' xs]. exact IH.
Qed.

(* ---- the dispatch key ---- *)
Definition in_zero (s : sp) (e : ev) : bool := existsb (fun x => eid x =? eid e) (s_zero s).
Definition cls (s : sp) (e : ev) : N := if in_zero s e then 0 else 1.

(* lexicographic (time, class, id) *)
Definition dk_lt (s : sp) (a b : ev) : Prop :=
  etime a < etime b \/
  (etime a = etime b /\ (cls s a < cls s b \/ (cls s a = cls s b /\ eid a < eid b))).

Lemma in_zero_true s e : In e (s_zero s) -> in_zero s e = true.
Proof. intros H. unfold in_zero. apply existsb_exists. exists e. split; [exact H|apply N.eqb_refl]. Qed.

Lemma in_zero_rest s e : SI s -> In e (s_rest s) -> in_zero s e = false.
Proof.
  intros HS Hr. unfold in_zero. destruct (existsb _ _) eqn:E; [|reflexivity]. exfalso.
  apply existsb_exists in E. destruct E as [x [Hx Ex]]. apply N.eqb_eq in Ex.
  pose proof (SI_nodup s HS) as Hn. unfold spend in Hn. rewrite map_app in Hn.
  apply in_split in Hx. destruct Hx as [l1 [l2 El]]. rewrite El, map_app in Hn. cbn [map] in Hn.
  rewrite <- app_assoc in Hn. cbn [app] in Hn. apply NoDup_remove_2 in Hn. apply Hn.
  apply in_or_app. right. apply in_or_app. right. rewrite Ex. apply in_map. exact Hr.
Qed.

(* fetch returns the pending event with the least dispatch key *)
Theorem fetch_min_dispatch_key s s' p t :
  SI2 s -> sp_fetch s = (s', OFetched p t) ->
  exists x, In x (spend s) /\ epay x = p /\ etime x = t /\
            forall y, In y (spend s) -> y <> x -> dk_lt s x y.
Proof.
  intros [HS Hzs] Hf. pose proof HS as [Hs Hz Hr Hi Hn]. unfold sp_fetch in Hf.
  destruct (s_zero s) as [|x z] eqn:Ez.
  - destruct (s_rest s) as [|x r] eqn:Er; [discriminate|]. injection Hf as _ <- <-.
    exists x. unfold spend. rewrite Ez, Er. cbn [app]. split; [left; reflexivity|]. split; [reflexivity|]. split; [reflexivity|].
    intros y [<-|Hy] Hne; [congruence|].
    assert (Hc : forall e, In e (s_rest s) -> cls s e = 1).
    { intros e He. unfold cls. rewrite (in_zero_rest s e HS He). reflexivity. }
    inversion Hs as [|? ? _ Hall]; subst. rewrite Forall_forall in Hall. specialize (Hall y Hy).
    unfold dk_lt. rewrite (Hc x), (Hc y) by (rewrite Er; cbn; auto). unfold key_lt in Hall. lia.
  - injection Hf as _ <- <-. exists x. unfold spend. rewrite Ez. cbn [app].
    split; [left; reflexivity|]. split; [reflexivity|]. split; [reflexivity|].
    assert (Hcx : cls s x = 0) by (unfold cls; rewrite in_zero_true; [reflexivity|rewrite Ez; left; reflexivity]).
    intros y [<-|Hy] Hne; [congruence|]. apply in_app_or in Hy. unfold dk_lt. rewrite Hcx.
    rewrite (Hz x (or_introl eq_refl)).
    destruct Hy as [Hy|Hy].
    + assert (Hcy : cls s y = 0) by (unfold cls; rewrite in_zero_true; [reflexivity|rewrite Ez; right; exact Hy]).
      rewrite Hcy, (Hz y (or_intror Hy)). right. split; [reflexivity|]. right. split; [reflexivity|].
      inversion Hzs as [|? ? _ Hall]; subst. rewrite Forall_forall in Hall. apply Hall. exact Hy.
    + assert (Hcy : cls s y = 1).
      { unfold cls. rewrite (in_zero_rest s y HS); [reflexivity|exact Hy]. }
      rewrite Hcy. specialize (Hr y Hy). lia.
Qed.

(* the class of a pending event is fixed when it is scheduled: no operation
   moves an event between the FIFO and the sorted rest *)
Theorem class_fixed a o e :
  SI (ss a) -> In e (spend (ss a)) -> In e (spend (ss (fst (sp_step a o)))) ->
  (In e (s_zero (ss a)) <-> In e (s_zero (ss (fst (sp_step a o))))).
Proof.
  intros HS Hin Hin'. pose proof HS as [Hs Hz Hr Hi Hn].
  assert (Hex : In e (s_zero (ss a)) -> In e (s_rest (ss a)) -> False).
  { intros H1 H2. pose proof (in_zero_rest _ _ HS H2) as F. rewrite (in_zero_true _ _ H1) in F. discriminate. }
  assert (Hfresh : forall t p, e <> {| etime := t; eid := s_next (ss a); epay := p |}).
  { intros t p ->. specialize (Hi _ Hin). cbn in Hi. lia. }
  destruct o as [t p|k| | | | |]; cbn [sp_step] in *; try tauto.
  - unfold sp_add in *. destruct (t <? s_tcur (ss a)); [tauto|].
    destruct (t =? s_tcur (ss a)); cbn [fst ss s_zero s_rest spend] in *; unfold spend in *; cbn [s_zero s_rest] in *.
    + rewrite in_app_iff. cbn [In]. specialize (Hfresh t p). split; [tauto|]. intros [H|[H|[]]]; [exact H|congruence].
    + tauto.
  - destruct (pick_handle (shandles a) k) as [[t i]|]; [|tauto]. cbn [fst ss] in *. unfold sp_cancel, spend in *.
    destruct (remove_id i (s_zero (ss a))) as [z'|] eqn:Ez; cbn [s_zero s_rest] in *.
    + split; [|intros H; eapply remove_id_In; eassumption].
      intros H. apply in_app_or in Hin'. destruct Hin' as [H'|H']; [exact H'|]. exfalso. eapply Hex; eassumption.
    + destruct (remove_id i (s_rest (ss a))); cbn [s_zero]; tauto.
  - unfold sp_fetch, spend in *. destruct (s_zero (ss a)) as [|x z] eqn:Ez.
    + destruct (s_rest (ss a)) as [|x r] eqn:Er; cbn [fst ss s_zero s_rest] in *; [rewrite Ez; tauto|]. tauto.
    + cbn [fst ss s_zero s_rest] in *. split; [|intros H; right; exact H].
      intros H. apply in_app_or in Hin'. destruct Hin' as [H'|H']; [exact H'|]. exfalso. apply (Hex H H').
Qed.

(* what class a newly scheduled event gets *)
Theorem new_event_class s t p :
  s_tcur s <= t ->
  let s' := fst (fst (sp_add s t p)) in
  let e := {| etime := t; eid := s_next s; epay := p |} in
  (t = s_tcur s -> s_zero s' = s_zero s ++ [e] /\ s_rest s' = s_rest s) /\
  (t <> s_tcur s -> s_zero s' = s_zero s /\ Permutation (s_rest s') (e :: s_rest s)).
Proof.
  intros Hle. cbn zeta. unfold sp_add. destruct (t <? s_tcur s) eqn:E1; [apply N.ltb_lt in E1; lia|].
  destruct (t =? s_tcur s) eqn:E2; cbn [fst s_zero s_rest].
  - apply N.eqb_eq in E2. split; [intros _; split; reflexivity|congruence].
  - apply N.eqb_neq in E2. split; [congruence|]. intros _. split; [reflexivity|apply sins_perm].
Qed.

(* consequence spelled out as in the property: two events scheduled for the same
   future instant (both waiting in the sorted part) are never reordered *)
Theorem same_future_instant_fifo s s' p t a b :
  SI2 s -> sp_fetch s = (s', OFetched p t) ->
  In a (s_rest s) -> In b (s_rest s) -> etime a = etime b -> eid a < eid b ->
  ~ (epay b = p /\ etime b = t /\ forall x, In x (spend s) -> epay x = p -> etime x = t -> x = b).
Proof.
  intros HS2 Hf Ha Hb Et Hid [Hp [Ht Huniq]].
  destruct (fetch_min_dispatch_key s s' p t HS2 Hf) as [x [Hx [Ep [Etx Hmin]]]].
  assert (x = b) as -> by (apply Huniq; assumption).
  destruct HS2 as [HS _].
  assert (Hab : a <> b) by (intros ->; lia).
  specialize (Hmin a (in_or_app _ _ _ (or_intror Ha)) Hab).
  assert (Hca : cls s a = 1) by (unfold cls; rewrite (in_zero_rest s a HS Ha); reflexivity).
  assert (Hcb : cls s b = 1) by (unfold cls; rewrite (in_zero_rest s b HS Hb); reflexivity).
  unfold dk_lt in Hmin. rewrite Hca, Hcb in Hmin. lia.
Qed.

(* events scheduled for the current instant run before events of the same
   timestamp that were already waiting *)
Theorem current_instant_first s s' p t a b :
  SI2 s -> sp_fetch s = (s', OFetched p t) ->
  In a (s_zero s) -> In b (s_rest s) ->
  ~ (epay b = p /\ etime b = t /\ forall x, In x (spend s) -> epay x = p -> etime x = t -> x = b).
Proof.
  intros [HS Hzs] Hf Ha Hb [Hp [Ht Huniq]]. unfold sp_fetch in Hf.
  destruct (s_zero s) as [|x z] eqn:Ez; [destruct Ha|]. injection Hf as _ <- <-.
  assert (x = b).
  { apply Huniq; [unfold spend; rewrite Ez; left; reflexivity|reflexivity|reflexivity]. }
  subst x. pose proof (in_zero_rest s b HS Hb) as F.
  rewrite in_zero_true in F; [discriminate|rewrite Ez; left; reflexivity].
Qed.
