(* Properties of the abstract future event set (Spec.v).  Together with
   Sim.cq_refines they hold of the calendar queue for every (n, t). *)
From Coq Require Import List Arith NArith PArith Lia Bool Sorting.Sorted Permutation ZifyBool.
From DesVerif Require Import Common.Fuel Common.Codec CQueue.Model CQueue.Spec CQueue.Scan CQueue.Term CQueue.Fetch CQueue.AddInv CQueue.ListX.
Import ListNotations.
Open Scope N_scope.

Definition spend (s : sp) : list ev := s_zero s ++ s_rest s.

Record SI (s : sp) : Prop := {
  SI_sorted : key_sorted (s_rest s);
  SI_ztime : forall e, In e (s_zero s) -> etime e = s_tcur s;
  SI_rtime : forall e, In e (s_rest s) -> s_tcur s <= etime e;
  SI_ids : forall e, In e (spend s) -> eid e < s_next s;
  SI_nodup : NoDup (map eid (spend s))
}.

Lemma SI_new_at ts : SI (sp_new_at ts).
Proof. constructor; cbn; try constructor; intros e []. Qed.
Lemma SI_new : SI sp_new.
Proof. apply SI_new_at. Qed.

Lemma nodup_mid {A} (l1 l2 : list A) x : NoDup (l1 ++ l2) -> ~ In x (l1 ++ l2) -> NoDup (l1 ++ x :: l2).
Proof.
  intros Hnd Hn. apply NoDup_Add with (a := x) (l := l1 ++ l2); [apply Add_app|split; assumption].
Qed.

Lemma SI_add s t p : SI s -> SI (fst (fst (sp_add s t p))).
Proof.
  intros [Hs Hz Hr Hi Hn]. unfold sp_add. destruct (t <? s_tcur s) eqn:E1; [constructor; assumption|].
  apply N.ltb_ge in E1. set (e := {| etime := t; eid := s_next s; epay := p |}).
  assert (Hfresh : ~ In (eid e) (map eid (spend s))).
  { intros Hc. apply in_map_iff in Hc. destruct Hc as [x [Ex Hx]]. specialize (Hi x Hx). cbn in Ex. lia. }
  destruct (t =? s_tcur s) eqn:E2; cbn [fst]; constructor; unfold spend in *; cbn [s_zero s_rest s_tcur s_next]; try assumption.
  - apply N.eqb_eq in E2. intros x Hx. apply in_app_or in Hx. destruct Hx as [Hx|[<-|[]]]; [auto|exact E2].
  - intros x Hx. rewrite <- app_assoc in Hx. apply in_app_or in Hx. cbn in Hx.
    destruct Hx as [Hx|[<-|Hx]]; [| cbn; lia |].
    + assert (eid x < s_next s) by (apply Hi; apply in_or_app; left; exact Hx). lia.
    + assert (eid x < s_next s) by (apply Hi; apply in_or_app; right; exact Hx). lia.
  - rewrite <- app_assoc. cbn [app]. rewrite map_app. cbn [map]. rewrite map_app in Hn, Hfresh.
    apply nodup_mid; assumption.
  - apply sins_key_sorted; [exact Hs|]. intros x Hx. cbn. apply Hi. apply in_or_app. right; exact Hx.
  - apply N.eqb_neq in E2. intros x Hx. apply In_sins in Hx. destruct Hx as [->|Hx]; [cbn; lia|auto].
  - intros x Hx. apply in_app_or in Hx. destruct Hx as [Hx|Hx].
    + assert (eid x < s_next s) by (apply Hi; apply in_or_app; left; exact Hx). lia.
    + apply In_sins in Hx. destruct Hx as [->|Hx]; [cbn; lia|].
      assert (eid x < s_next s) by (apply Hi; apply in_or_app; right; exact Hx). lia.
  - eapply Permutation_NoDup; [|apply (nodup_mid (map eid (s_zero s)) (map eid (s_rest s)) (eid e))].
    + rewrite !map_app. apply Permutation_app_head. cbn [map].
      change (eid e :: map eid (s_rest s)) with (map eid (e :: s_rest s)). apply Permutation_map. symmetry. apply sins_perm.
    + rewrite <- map_app. exact Hn.
    + rewrite <- map_app. exact Hfresh.
Qed.

Lemma nodup_map_sub (l1 l2 l1' l2' : list ev) e :
  NoDup (map eid (l1 ++ l2)) -> l1 ++ l2 = l1' ++ e :: l2' -> NoDup (map eid (l1' ++ l2')).
Proof.
  intros Hn E. rewrite E in Hn. rewrite map_app in *. cbn [map] in Hn. apply NoDup_remove_1 in Hn. exact Hn.
Qed.

Lemma SI_sub s z' r' tc :
  SI s ->
  (forall x, In x z' -> In x (s_zero s)) -> (forall x, In x r' -> In x (s_rest s)) ->
  key_sorted r' -> NoDup (map eid (z' ++ r')) ->
  (forall x, In x z' -> etime x = tc) -> (forall x, In x r' -> tc <= etime x) ->
  SI {| s_tcur := tc; s_zero := z'; s_rest := r'; s_next := s_next s |}.
Proof.
  intros [Hs Hz Hr Hi Hn] Sz Sr Hs' Hn' Hz' Hr'. constructor; unfold spend in *; cbn [s_zero s_rest s_tcur s_next]; try assumption.
  intros x Hx. apply Hi. apply in_app_or in Hx. apply in_or_app. destruct Hx; [left|right]; auto.
Qed.

Lemma SI_cancel s i : SI s -> SI (sp_cancel s i).
Proof.
  intros HS. pose proof HS as [Hs Hz Hr Hi Hn]. unfold sp_cancel.
  destruct (remove_id i (s_zero s)) as [z'|] eqn:Ez.
  - destruct (remove_id_Some _ _ _ Ez) as [e [l1 [l2 [E1 [E2 _]]]]].
    apply SI_sub; try assumption; try (intros x Hx; auto).
    + eapply remove_id_In; eassumption.
    + unfold spend in Hn. rewrite E1, <- app_assoc in Hn. cbn [app] in Hn. rewrite E2, <- app_assoc.
      rewrite map_app in *. cbn [map] in Hn. apply NoDup_remove_1 in Hn. exact Hn.
    + apply Hz. eapply remove_id_In; eassumption.
  - destruct (remove_id i (s_rest s)) as [r'|] eqn:Er; [|exact HS].
    destruct (remove_id_Some _ _ _ Er) as [e [l1 [l2 [E1 [E2 _]]]]].
    apply SI_sub; try assumption; try (intros x Hx; auto).
    + eapply remove_id_In; eassumption.
    + eapply remove_id_sorted; eassumption.
    + unfold spend in Hn. rewrite E1, app_assoc in Hn. rewrite E2, app_assoc.
      rewrite map_app in *. cbn [map] in Hn. apply NoDup_remove_1 in Hn. exact Hn.
    + apply Hr. eapply remove_id_In; eassumption.
Qed.

Lemma SI_fetch s : SI s -> SI (fst (sp_fetch s)).
Proof.
  intros HS. pose proof HS as [Hs Hz Hr Hi Hn]. unfold sp_fetch.
  destruct (s_zero s) as [|x z] eqn:Ez.
  - destruct (s_rest s) as [|x r] eqn:Er; [exact HS|]. cbn [fst].
    inversion Hs as [|? ? Hs' Hall]; subst. rewrite Forall_forall in Hall.
    apply (SI_sub s [] r (etime x) HS).
    + intros y [].
    + rewrite Er. intros y Hy. right; exact Hy.
    + exact Hs'.
    + unfold spend in Hn. rewrite Ez, Er in Hn. cbn in Hn. inversion Hn; assumption.
    + intros y [].
    + intros y Hy. specialize (Hall y Hy). unfold key_lt in Hall. lia.
  - cbn [fst]. apply (SI_sub s z (s_rest s) (s_tcur s) HS).
    + rewrite Ez. intros y Hy. right; exact Hy.
    + auto.
    + exact Hs.
    + unfold spend in Hn. rewrite Ez in Hn. cbn in Hn. inversion Hn; assumption.
    + intros y Hy. apply Hz. right; exact Hy.
    + exact Hr.
Qed.

Lemma SI_step a o : SI (ss a) -> SI (ss (fst (sp_step a o))).
Proof.
  intros HS. destruct o as [t p|k| | | | |]; cbn [sp_step].
  - pose proof (SI_add (ss a) t p HS) as H. destruct (sp_add (ss a) t p) as [[s' h] x]. exact H.
  - destruct (pick_handle (shandles a) k) as [[t i]|]; [apply SI_cancel|]; exact HS.
  - pose proof (SI_fetch (ss a) HS) as H. destruct (sp_fetch (ss a)) as [s' x]. exact H.
  - exact HS.
  - exact HS.
  - exact HS.
  - exact HS.
Qed.

(* ---- (a) fetched timestamps never decrease ---- *)
Fixpoint fetched_times (outs : list out) : list N :=
  match outs with
  | [] => []
  | OFetched _ t :: r => t :: fetched_times r
  | _ :: r => fetched_times r
  end.

Lemma tcur_step_mono a o : SI (ss a) -> s_tcur (ss a) <= s_tcur (ss (fst (sp_step a o))).
Proof.
  intros [Hs Hz Hr Hi Hn]. destruct o as [t p|k| | | | |]; cbn [sp_step]; try (cbn [fst]; lia).
  - unfold sp_add. destruct (t <? s_tcur (ss a)); [cbn; lia|]. destruct (t =? s_tcur (ss a)); cbn; lia.
  - destruct (pick_handle (shandles a) k) as [[t i]|]; [|cbn [fst]; lia]. cbn [fst ss]. unfold sp_cancel.
    destruct (remove_id i (s_zero (ss a))); [cbn; lia|]. destruct (remove_id i (s_rest (ss a))); cbn; lia.
  - unfold sp_fetch. destruct (s_zero (ss a)); [|cbn; lia]. destruct (s_rest (ss a)) as [|x r] eqn:Er; [cbn; lia|].
    cbn. apply Hr. left; reflexivity.
Qed.

Lemma fetched_lower_bound ops : forall a,
  SI (ss a) ->
  Forall (fun t => s_tcur (ss a) <= t) (fetched_times (snd (sp_run_from a ops))) /\
  StronglySorted N.le (fetched_times (snd (sp_run_from a ops))).
Proof.
  induction ops as [|o ops IH]; intros a HS; cbn [sp_run_from]; [split; constructor|].
  pose proof (SI_step a o HS) as HS'. pose proof (tcur_step_mono a o HS) as Hm.
  assert (Hout : forall p t, snd (sp_step a o) = OFetched p t -> s_tcur (ss (fst (sp_step a o))) = t /\ s_tcur (ss a) <= t).
  { intros p t E. destruct o as [t' p'|k| | | | |]; cbn [sp_step] in *.
    - unfold sp_add in E. destruct (t' <? s_tcur (ss a)); [discriminate|]. destruct (t' =? s_tcur (ss a)); discriminate.
    - destruct (pick_handle (shandles a) k) as [[? ?]|]; discriminate.
    - destruct HS as [Hs Hz Hr Hi Hn]. unfold sp_fetch in *. destruct (s_zero (ss a)) as [|x z] eqn:Ez.
      + destruct (s_rest (ss a)) as [|x r] eqn:Er; [discriminate|]. cbn in *. injection E as _ <-.
        split; [reflexivity|]. apply Hr. left; reflexivity.
      + cbn in *. injection E as _ <-. rewrite (Hz x (or_introl eq_refl)). split; [reflexivity|lia].
    - discriminate.
    - discriminate.
    - cbn in E. unfold sp_peek in E. destruct (s_zero (ss a)); [destruct (s_rest (ss a))|]; discriminate.
    - discriminate. }
  destruct (sp_step a o) as [a' x]. cbn [fst snd] in *. specialize (IH a' HS').
  destruct (sp_run_from a' ops) as [a'' xs]. cbn [snd] in *. destruct IH as [Hall Hsort].
  assert (Hall' : Forall (fun t => s_tcur (ss a) <= t) (fetched_times xs)).
  { eapply Forall_impl; [|exact Hall]. cbn. intros t Ht. lia. }
  destruct x; cbn [fetched_times]; try (split; assumption).
  destruct (Hout pay time eq_refl) as [E Hle]. split.
  - constructor; assumption.
  - constructor; [exact Hsort|]. rewrite <- E. exact Hall.
Qed.

Theorem fetch_nondecreasing_at ts ops : StronglySorted N.le (fetched_times (sp_run_ops_at ts ops)).
Proof. apply (fetched_lower_bound ops (sp_init_at ts)). apply SI_new_at. Qed.

Theorem fetch_nondecreasing ops : StronglySorted N.le (fetched_times (sp_run_ops ops)).
Proof. apply fetch_nondecreasing_at. Qed.

(* ---- (b) exactly-once accounting, with a ghost record of what happened ---- *)
Record ghost := { g_added : list ev; g_fetched : list ev; g_cancelled : list ev }.

Fixpoint find_id (i : N) (l : list ev) : option ev :=
  match l with [] => None | x :: r => if eid x =? i then Some x else find_id i r end.

Definition ghost_step (a : sst) (g : ghost) (o : op) : ghost :=
  match o with
  | Add t p =>
      if t <? s_tcur (ss a) then g
      else {| g_added := g_added g ++ [{| etime := t; eid := s_next (ss a); epay := p |}];
              g_fetched := g_fetched g; g_cancelled := g_cancelled g |}
  | Cancel k =>
      match pick_handle (shandles a) k with
      | Some (_, i) => match find_id i (spend (ss a)) with
                       | Some e => {| g_added := g_added g; g_fetched := g_fetched g; g_cancelled := g_cancelled g ++ [e] |}
                       | None => g
                       end
      | None => g
      end
  | Fetch => match spend (ss a) with
             | x :: _ => {| g_added := g_added g; g_fetched := g_fetched g ++ [x]; g_cancelled := g_cancelled g |}
             | [] => g
             end
  | _ => g
  end.

Fixpoint ghost_run (a : sst) (g : ghost) (ops : list op) : sst * ghost :=
  match ops with
  | [] => (a, g)
  | o :: r => ghost_run (fst (sp_step a o)) (ghost_step a g o) r
  end.

Definition g0 : ghost := {| g_added := []; g_fetched := []; g_cancelled := [] |}.

Definition Acct (a : sst) (g : ghost) : Prop :=
  Permutation (g_added g) (g_fetched g ++ g_cancelled g ++ spend (ss a)) /\
  NoDup (map eid (g_added g)) /\
  (forall e, In e (g_added g) -> eid e < s_next (ss a)).

Lemma find_id_remove i l :
  match find_id i l with
  | Some e => exists l', remove_id i l = Some l' /\ Permutation l (e :: l') /\ eid e = i
  | None => remove_id i l = None
  end.
Proof.
  induction l as [|x l IH]; cbn [find_id remove_id]; [reflexivity|].
  destruct (eid x =? i) eqn:E.
  - apply N.eqb_eq in E. exists l. repeat split; [reflexivity|exact E].
  - destruct (find_id i l) as [e|].
    + destruct IH as [l' [-> [P Ee]]]. exists (x :: l'). repeat split; [|exact Ee].
      rewrite P. apply perm_swap.
    + rewrite IH. reflexivity.
Qed.

Lemma find_id_app i l1 l2 :
  find_id i (l1 ++ l2) = match find_id i l1 with Some e => Some e | None => find_id i l2 end.
Proof. induction l1 as [|x l1 IH]; cbn [app find_id]; [reflexivity|]. destruct (eid x =? i); auto. Qed.

Lemma Acct_step a g o : SI (ss a) -> Acct a g -> Acct (fst (sp_step a o)) (ghost_step a g o).
Proof.
  intros HS [P [Hn Hi]]. destruct o as [t p|k| | | | |]; cbn [sp_step ghost_step]; try (repeat split; assumption).
  - (* add *)
    unfold sp_add. destruct (t <? s_tcur (ss a)) eqn:E1; cbn [fst ss]; [repeat split; assumption|].
    set (e := {| etime := t; eid := s_next (ss a); epay := p |}).
    assert (Hfresh : ~ In (eid e) (map eid (g_added g))).
    { intros Hc. apply in_map_iff in Hc. destruct Hc as [x [Ex Hx]]. specialize (Hi x Hx). cbn in Ex. lia. }
    assert (Hgen : forall z r, Permutation (z ++ r) (e :: spend (ss a)) ->
       Acct {| ss := {| s_tcur := s_tcur (ss a); s_zero := z; s_rest := r; s_next := s_next (ss a) + 1 |};
               shandles := shandles a ++ [(t, s_next (ss a))] |}
            {| g_added := g_added g ++ [e]; g_fetched := g_fetched g; g_cancelled := g_cancelled g |}).
    { intros z r Pz. repeat split; cbn [g_added g_fetched g_cancelled ss s_next].
      - unfold spend; cbn [s_zero s_rest]. rewrite Pz, P.
        rewrite <- !app_assoc. apply Permutation_app_head. apply Permutation_app_head.
        symmetry. apply Permutation_cons_append.
      - rewrite map_app. cbn [map]. apply NoDup_Add with (a := eid e) (l := map eid (g_added g)).
        + rewrite <- (app_nil_r (map eid (g_added g))) at 1. apply Add_app.
        + split; assumption.
      - intros x Hx. apply in_app_or in Hx. destruct Hx as [Hx|[<-|[]]]; [specialize (Hi x Hx); lia|cbn; lia]. }
    destruct (t =? s_tcur (ss a)); cbn [fst ss]; apply Hgen; unfold spend.
    + rewrite <- app_assoc. cbn [app]. symmetry. apply Permutation_middle.
    + rewrite sins_perm. symmetry. apply Permutation_middle.
  - (* cancel *)
    destruct (pick_handle (shandles a) k) as [[t i]|]; [|repeat split; assumption]. cbn [fst ss].
    unfold sp_cancel, spend. rewrite find_id_app.
    pose proof (find_id_remove i (s_zero (ss a))) as Fz. pose proof (find_id_remove i (s_rest (ss a))) as Fr.
    destruct (find_id i (s_zero (ss a))) as [e|].
    + destruct Fz as [z' [-> [Pz _]]]. repeat split; cbn [g_added g_fetched g_cancelled ss s_next spend s_zero s_rest]; try assumption.
      rewrite P. unfold spend. rewrite Pz. rewrite <- !app_assoc. cbn [app].
      apply Permutation_app_head. apply Permutation_app_head. reflexivity.
    + rewrite Fz. destruct (find_id i (s_rest (ss a))) as [e|].
      * destruct Fr as [r' [-> [Pr _]]]. repeat split; cbn [g_added g_fetched g_cancelled ss s_next spend s_zero s_rest]; try assumption.
        rewrite P. unfold spend. rewrite Pr. rewrite <- !app_assoc. cbn [app].
        apply Permutation_app_head. apply Permutation_app_head. symmetry. apply Permutation_middle.
      * rewrite Fr. repeat split; assumption.
  - (* fetch *)
    unfold sp_fetch, spend. destruct (s_zero (ss a)) as [|x z] eqn:Ez; cbn [app].
    + destruct (s_rest (ss a)) as [|x r] eqn:Er; cbn [fst ss]; [repeat split; assumption|].
      repeat split; cbn [g_added g_fetched g_cancelled ss s_next spend s_zero s_rest]; try assumption.
      rewrite P. unfold spend. rewrite Ez, Er. cbn [app]. rewrite <- !app_assoc. cbn [app].
      apply Permutation_app_head. symmetry. apply Permutation_middle.
    + cbn [fst ss]. repeat split; cbn [g_added g_fetched g_cancelled ss s_next spend s_zero s_rest]; try assumption.
      rewrite P. unfold spend. rewrite Ez. cbn [app]. rewrite <- !app_assoc. cbn [app].
      apply Permutation_app_head. symmetry. apply Permutation_middle.
Qed.

Lemma Acct_run ops : forall a g, SI (ss a) -> Acct a g ->
  Acct (fst (ghost_run a g ops)) (snd (ghost_run a g ops)) /\ SI (ss (fst (ghost_run a g ops))).
Proof.
  induction ops as [|o ops IH]; intros a g HS HA; cbn [ghost_run]; [split; assumption|].
  apply IH; [apply SI_step; exact HS|apply Acct_step; assumption].
Qed.

Lemma Acct_init_at ts : Acct (sp_init_at ts) g0.
Proof. repeat split; cbn; try constructor. intros e []. Qed.
Lemma Acct_init : Acct sp_init g0.
Proof. apply Acct_init_at. Qed.

(* every event ever added is, at any point of any history, in exactly one of:
   fetched, cancelled while pending, still pending *)
Theorem exactly_once ts ops :
  let a := fst (ghost_run (sp_init_at ts) g0 ops) in
  let g := snd (ghost_run (sp_init_at ts) g0 ops) in
  Permutation (g_added g) (g_fetched g ++ g_cancelled g ++ spend (ss a)) /\
  NoDup (map eid (g_fetched g ++ g_cancelled g ++ spend (ss a))).
Proof.
  cbn zeta. destruct (Acct_run ops (sp_init_at ts) g0 (SI_new_at ts) (Acct_init_at ts)) as [[P [Hn _]] _]. split; [exact P|].
  eapply Permutation_NoDup; [apply Permutation_map; exact P|exact Hn].
Qed.

(* the ghost record is faithful to the outputs: what fetch returns is, in order,
   exactly the payload and the scheduling time of the ghost-fetched events *)
Fixpoint fetched_outs (outs : list out) : list (N * N) :=
  match outs with
  | [] => []
  | OFetched p t :: r => (p, t) :: fetched_outs r
  | _ :: r => fetched_outs r
  end.

Lemma ghost_outputs ops : forall a g,
  map (fun x => (epay x, etime x)) (g_fetched (snd (ghost_run a g ops))) =
  map (fun x => (epay x, etime x)) (g_fetched g) ++ fetched_outs (snd (sp_run_from a ops)) /\
  fst (ghost_run a g ops) = fst (sp_run_from a ops).
Proof.
  induction ops as [|o ops IH]; intros a g; cbn [ghost_run sp_run_from].
  - rewrite app_nil_r. split; reflexivity.
  - specialize (IH (fst (sp_step a o)) (ghost_step a g o)). destruct IH as [IH1 IH2].
    destruct (sp_step a o) as [a' x] eqn:Es. cbn [fst] in *.
    destruct (sp_run_from a' ops) as [a'' xs] eqn:Er. cbn [fst snd] in *. split; [|exact IH2].
    rewrite IH1. destruct o as [t p|k| | | | |]; cbn [sp_step ghost_step] in *.
    + unfold sp_add in Es. destruct (t <? s_tcur (ss a)); [injection Es as <- <-; reflexivity|].
      destruct (t =? s_tcur (ss a)); injection Es as <- <-; reflexivity.
    + destruct (pick_handle (shandles a) k) as [[? i]|]; [|injection Es as <- <-; reflexivity].
      injection Es as <- <-. destruct (find_id i (spend (ss a))); reflexivity.
    + unfold sp_fetch, spend in *. destruct (s_zero (ss a)) as [|y z]; cbn [app].
      * destruct (s_rest (ss a)) as [|y r]; injection Es as <- <-; [reflexivity|].
        cbn [g_fetched fetched_outs]. rewrite map_app, <- app_assoc. reflexivity.
      * injection Es as <- <-. cbn [g_fetched fetched_outs]. rewrite map_app, <- app_assoc. reflexivity.
    + injection Es as <- <-. reflexivity.
    + injection Es as <- <-. reflexivity.
    + injection Es as <- <-. unfold sp_peek. destruct (s_zero (ss a)); [destruct (s_rest (ss a))|]; reflexivity.
    + injection Es as <- <-. reflexivity.
Qed.

Theorem fetched_are_ghost ts ops :
  fetched_outs (sp_run_ops_at ts ops) = map (fun x => (epay x, etime x)) (g_fetched (snd (ghost_run (sp_init_at ts) g0 ops))).
Proof. destruct (ghost_outputs ops (sp_init_at ts) g0) as [H _]. unfold sp_run_ops_at. rewrite H. reflexivity. Qed.

(* (c) the reported length is scheduled - cancelled - fetched *)
Theorem len_formula ts ops :
  let a := fst (ghost_run (sp_init_at ts) g0 ops) in
  let g := snd (ghost_run (sp_init_at ts) g0 ops) in
  (N.to_nat (sp_len (ss a)) + length (g_cancelled g) + length (g_fetched g) = length (g_added g))%nat.
Proof.
  cbn zeta. destruct (exactly_once ts ops) as [P _]. apply Permutation_length in P.
  rewrite !app_length in P. unfold sp_len. rewrite Nat2N.id. unfold spend in P. rewrite app_length in P. lia.
Qed.

(* (d) cancelling an event that is not pending (already fetched or already
   cancelled) changes nothing *)
Theorem cancel_not_pending_noop a g e :
  Acct a g -> NoDup (map eid (g_added g)) -> In e (g_fetched g ++ g_cancelled g) -> sp_cancel (ss a) (eid e) = ss a.
Proof.
  intros [P _] Hn Hin.
  assert (Hn' : NoDup (map eid ((g_fetched g ++ g_cancelled g) ++ spend (ss a)))).
  { rewrite <- app_assoc. eapply Permutation_NoDup; [apply Permutation_map; exact P|exact Hn]. }
  assert (Hno : forall x, In x (spend (ss a)) -> eid x <> eid e).
  { intros x Hx Ex. rewrite map_app in Hn'. revert Hn'. generalize (in_map eid _ _ Hin) (in_map eid _ _ Hx).
    rewrite Ex. generalize (map eid (g_fetched g ++ g_cancelled g)) (map eid (spend (ss a))) (eid e).
    intros l1 l2 i H1 H2 Hnd. induction l1 as [|y l1 IH]; [destruct H1|].
    cbn in Hnd. inversion Hnd as [|? ? Hnin Hnd']; subst. destruct H1 as [->|H1].
    - apply Hnin. apply in_or_app. right; exact H2.
    - apply IH; assumption. }
  unfold sp_cancel.
  assert (N1 : remove_id (eid e) (s_zero (ss a)) = None).
  { apply remove_id_None. intros x Hx. apply Hno. unfold spend. apply in_or_app. left; exact Hx. }
  assert (N2 : remove_id (eid e) (s_rest (ss a)) = None).
  { apply remove_id_None. intros x Hx. apply Hno. unfold spend. apply in_or_app. right; exact Hx. }
  rewrite N1, N2. reflexivity.
Qed.

Theorem cancel_after_fetch_noop ts ops e :
  let a := fst (ghost_run (sp_init_at ts) g0 ops) in
  let g := snd (ghost_run (sp_init_at ts) g0 ops) in
  In e (g_fetched g) -> sp_cancel (ss a) (eid e) = ss a.
Proof.
  cbn zeta. intros Hin. destruct (Acct_run ops (sp_init_at ts) g0 (SI_new_at ts) (Acct_init_at ts)) as [HA _].
  eapply cancel_not_pending_noop; [exact HA|apply HA|apply in_or_app; left; exact Hin].
Qed.

(* a pending event that is cancelled leaves the pending set for good: it is
   recorded as cancelled, and by exactly_once it can never also be fetched *)
Theorem cancelled_never_returned ts ops e :
  let g := snd (ghost_run (sp_init_at ts) g0 ops) in
  In e (g_cancelled g) -> ~ In e (g_fetched g).
Proof.
  cbn zeta. intros Hc Hf. destruct (exactly_once ts ops) as [_ Hn].
  rewrite map_app in Hn. apply in_split in Hf. destruct Hf as [l1 [l2 Ef]]. rewrite Ef in Hn.
  rewrite map_app in Hn. cbn [map] in Hn. rewrite <- app_assoc in Hn. cbn [app] in Hn.
  apply NoDup_remove_2 in Hn. apply Hn. apply in_or_app. right. apply in_or_app. right.
  rewrite map_app. apply in_or_app. left. apply in_map. exact Hc.
Qed.
