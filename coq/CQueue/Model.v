(* Concrete model of des-cqueue/src/stable/mod.rs + linked_list.rs.
   Function names and branch structure follow the Rust code.  The intrusive
   doubly linked list of a bucket is a Coq list (its pointer discipline is the
   subject of C15); simulated time is N nanoseconds.  No proofs in this file. *)
From Coq Require Import List NArith PArith Bool.
From DesVerif Require Import Common.Fuel Common.Codec.
Import ListNotations.
Open Scope N_scope.

Record ev := { etime : N; eid : N; epay : N }.

Inductive out :=
| OAdded                      (* add returned a handle *)
| OFetched (pay time : N)
| OLen (n : N)
| OTime (t : N)
| OUnit                       (* cancel *)
| OPeek (t : option N)        (* peek_time *)
| OInv (bits : list N)        (* representation-invariant bits (verif hook) *)
| OPanic (site : N)           (* 1 = add in the past, 2 = fetch on empty *)
| OOutOfFuel.

Record cq := {
  qn : N; qt : N;
  zero : list ev;
  buckets : list (list ev);
  head : N; tcur : N; t0 : N; t1 : N;
  next_id : N; qlen : N }.

(* mod.rs add/cancel: ((time mod t_all) / t_nanos) mod n, t_all = t*n *)
Definition idx (n t time : N) : N := ((time mod (t * n)) / t) mod n.

Definition cq_new (n t : N) : cq :=
  {| qn := n; qt := t; zero := []; buckets := repeat [] (N.to_nat n);
     head := 0; tcur := 0; t0 := 0; t1 := t; next_id := 0; qlen := 0 |}.

(* mod.rs new_at (fix: commit d335396): the clock starts at ts and the scan
   window sits on the bucket that contains ts *)
Definition cq_new_at (n t ts : N) : cq :=
  {| qn := n; qt := t; zero := []; buckets := repeat [] (N.to_nat n);
     head := (ts / t) mod n; tcur := ts; t0 := (ts / t) * t; t1 := (ts / t) * t + t;
     next_id := 0; qlen := 0 |}.

(* linked_list.rs add: walk from the tail while cur.time > new.time, insert
   after the first node that is not later, i.e. after all nodes with
   time <= new.time, before the first with time > new.time. *)
Fixpoint ins (e : ev) (l : list ev) : list ev :=
  match l with
  | [] => [e]
  | x :: r => if etime e <? etime x then e :: x :: r else x :: ins e r
  end.

Fixpoint upd {A} (i : nat) (f : A -> A) (l : list A) : list A :=
  match l, i with
  | [], _ => []
  | x :: r, O => f x :: r
  | x :: r, S i' => x :: upd i' f r
  end.

(* linked_list.rs cancel / VecDeque position+remove: first node with that id *)
Fixpoint remove_id (id : N) (l : list ev) : option (list ev) :=
  match l with
  | [] => None
  | x :: r => if eid x =? id then Some r
              else match remove_id id r with Some r' => Some (x :: r') | None => None end
  end.

Definition set_zero q z l := {| qn := qn q; qt := qt q; zero := z; buckets := buckets q; head := head q;
        tcur := tcur q; t0 := t0 q; t1 := t1 q; next_id := next_id q; qlen := l |}.
Definition set_buckets q b l := {| qn := qn q; qt := qt q; zero := zero q; buckets := b; head := head q;
        tcur := tcur q; t0 := t0 q; t1 := t1 q; next_id := next_id q; qlen := l |}.

Definition add_zero (q : cq) (e : ev) : cq :=
  {| qn := qn q; qt := qt q; zero := zero q ++ [e]; buckets := buckets q; head := head q;
     tcur := tcur q; t0 := t0 q; t1 := t1 q; next_id := next_id q + 1; qlen := qlen q + 1 |}.

Definition add_bucket (q : cq) (e : ev) : cq :=
  {| qn := qn q; qt := qt q; zero := zero q;
     buckets := upd (N.to_nat (idx (qn q) (qt q) (etime e))) (ins e) (buckets q); head := head q;
     tcur := tcur q; t0 := t0 q; t1 := t1 q; next_id := next_id q + 1; qlen := qlen q + 1 |}.

(* returns the new queue, the handle (time,id) and the output *)
Definition add (q : cq) (time pay : N) : cq * option (N * N) * out :=
  if time <? tcur q then (q, None, OPanic 1) else
  let id := next_id q in
  let e := {| etime := time; eid := id; epay := pay |} in
  if time =? tcur q then (add_zero q e, Some (time, id), OAdded)
  else (add_bucket q e, Some (time, id), OAdded).

Definition cancel_bucket (q : cq) (time id : N) : cq :=
  let i := N.to_nat (idx (qn q) (qt q) time) in
  match remove_id id (nth i (buckets q) []) with
  | Some b' => set_buckets q (upd i (fun _ => b') (buckets q)) (qlen q - 1)
  | None => q
  end.

(* [fixed = true] is the code after the fix: commit for F1 (an event stamped
   with the current time may sit in a bucket: fall through when the zero bucket
   does not hold the id).  [fixed = false] is the code as pinned. *)
Definition cancel (fixed : bool) (q : cq) (time id : N) : cq :=
  if time <? tcur q then q else
  if time =? tcur q then
    match remove_id id (zero q) with
    | Some z' => set_zero q z' (qlen q - 1)
    | None => if fixed then cancel_bucket q time id else q
    end
  else cancel_bucket q time id.

Definition advance q := {| qn := qn q; qt := qt q; zero := zero q; buckets := buckets q;
   head := (head q + 1) mod qn q; tcur := tcur q; t0 := t0 q + qt q; t1 := t1 q + qt q;
   next_id := next_id q; qlen := qlen q |}.

Definition pop_head (q : cq) (x : ev) (r : list ev) : cq :=
  {| qn := qn q; qt := qt q; zero := zero q;
     buckets := upd (N.to_nat (head q)) (fun _ => r) (buckets q);
     head := head q; tcur := etime x; t0 := t0 q; t1 := t1 q;
     next_id := next_id q; qlen := qlen q - 1 |}.

(* one iteration of the loop in fetch_next (both the inner `while` over empty
   buckets and the `min > t1 -> continue` branch advance the window by one) *)
Definition scan_step (q : cq) : cq + (cq * out) :=
  match nth (N.to_nat (head q)) (buckets q) [] with
  | [] => inl (advance q)
  | x :: r =>
    if t1 q <? etime x then inl (advance q)
    else inr (pop_head q x r, OFetched (epay x) (etime x))
  end.

(* Fuel for the scan, computed from the state: one more than the number of
   bucket-width slots between the window and the latest pending event.
   CQueue/Term.v proves it is never exhausted on a reachable state, i.e. the
   Rust `loop` terminates. *)
Definition max_time (bs : list (list ev)) : N :=
  fold_right (fun b m => fold_right (fun e m' => N.max (etime e) m') m b) 0 bs.

Definition scan_fuel (q : cq) : positive :=
  N.succ_pos (max_time (buckets q) / qt q - t0 q / qt q + 1).

Definition fetch_next (q : cq) : cq * out :=
  if qlen q =? 0 then (q, OPanic 2) else
  match zero q with
  | x :: z => (set_zero q z (qlen q - 1), OFetched (epay x) (etime x))
  | [] => match iter_until (scan_fuel q) scan_step q with
          | inr r => r
          | inl q' => (q', OOutOfFuel)
          end
  end.

(* mod.rs peek_time (fix: commit f4552a6): the same search as fetch_next on a
   copy of the window; nothing in the queue changes *)
Definition peek_time (q : cq) : out :=
  if qlen q =? 0 then OPeek None else
  match zero q with
  | x :: _ => OPeek (Some (etime x))
  | [] => match iter_until (scan_fuel q) scan_step q with
          | inr (_, OFetched _ t) => OPeek (Some t)
          | inr (_, o) => o
          | inl _ => OOutOfFuel
          end
  end.

(* ---- representation invariant, executable (L2 check) ----
   The harness evaluates the same five predicates on CQueue::verif_snapshot();
   CQueue/InvBits.v proves that every reachable model state yields all ones. *)
Fixpoint sortedb (l : list ev) : bool :=
  match l with
  | [] => true
  | x :: r => match r with
              | [] => true
              | y :: _ => ((etime x <? etime y) || ((etime x =? etime y) && (eid x <? eid y))) && sortedb r
              end
  end.

Fixpoint indexb (n t : N) (i : N) (bs : list (list ev)) : bool :=
  match bs with
  | [] => true
  | b :: r => forallb (fun e => idx n t (etime e) =? i) b && indexb n t (i + 1) r
  end.

Definition inv_bits (q : cq) : list N :=
  [ b2n (forallb sortedb (buckets q));
    b2n (indexb (qn q) (qt q) 0 (buckets q) && (N.of_nat (length (buckets q)) =? qn q));
    b2n (forallb (fun e => etime e =? tcur q) (zero q) && forallb (forallb (fun e => tcur q <=? etime e)) (buckets q));
    b2n (qlen q =? N.of_nat (length (zero q) + length (concat (buckets q))));
    b2n ((t1 q =? t0 q + qt q) && (t0 q mod qt q =? 0) && (head q =? (t0 q / qt q) mod qn q)) ].

(* ---- histories ---- *)
(* [Cancel k] cancels the handle returned by the k-th successful add (k taken
   modulo the number of handles so far; no-op when there is none). *)
Inductive op := Add (time pay : N) | Cancel (k : N) | Fetch | Len | Time | Peek | Check.

Record st := { sq : cq; handles : list (N * N) }.

Definition pick_handle (hs : list (N * N)) (k : N) : option (N * N) :=
  match hs with
  | [] => None
  | _ => nth_error hs (N.to_nat (k mod N.of_nat (length hs)))
  end.

Definition step (fixed : bool) (s : st) (o : op) : st * out :=
  match o with
  | Add t p => let '(q', h, x) := add (sq s) t p in
               ({| sq := q'; handles := match h with Some h => handles s ++ [h] | None => handles s end |}, x)
  | Cancel k => match pick_handle (handles s) k with
                | Some (t, i) => ({| sq := cancel fixed (sq s) t i; handles := handles s |}, OUnit)
                | None => (s, OUnit)
                end
  | Fetch => let '(q', x) := fetch_next (sq s) in ({| sq := q'; handles := handles s |}, x)
  | Len => (s, OLen (qlen (sq s)))
  | Time => (s, OTime (tcur (sq s)))
  | Peek => (s, peek_time (sq s))
  | Check => (s, OInv (inv_bits (sq s)))
  end.

Fixpoint run_from (fixed : bool) (s : st) (ops : list op) : st * list out :=
  match ops with
  | [] => (s, [])
  | o :: r => let '(s', x) := step fixed s o in
              let '(s'', xs) := run_from fixed s' r in (s'', x :: xs)
  end.

Definition init (n t : N) : st := {| sq := cq_new n t; handles := [] |}.
Definition init_at (n t ts : N) : st := {| sq := cq_new_at n t ts; handles := [] |}.

Definition run_ops (fixed : bool) (n t : N) (ops : list op) : list out :=
  snd (run_from fixed (init n t) ops).
Definition run_ops_at (fixed : bool) (n t ts : N) (ops : list op) : list out :=
  snd (run_from fixed (init_at n t ts) ops).

(* ---- wire format ---- *)
(* script: n t ts u op*   with op = 1 time pay | 2 k | 3 | 4 | 5 | 6 | 7;
   ts = 0 uses CQueue::new, ts > 0 uses CQueue::new_at.  Every time in the script
   (ts and the time of an add) is given in units of u nanoseconds (u = 0 means 1),
   and printed times are divided by u again: this lets scripts reach timestamps
   far beyond 2^64 ns although every number on the wire stays below 2^62. *)
Definition dec_op (l : list N) : option (op * list N) :=
  match l with
  | 1 :: t :: p :: r => Some (Add t p, r)
  | 2 :: k :: r => Some (Cancel k, r)
  | 3 :: r => Some (Fetch, r)
  | 4 :: r => Some (Len, r)
  | 5 :: r => Some (Time, r)
  | 6 :: r => Some (Peek, r)
  | 7 :: r => Some (Check, r)
  | _ => None
  end.

Definition scale_op (u : N) (o : op) : op :=
  match o with Add t p => Add (t * u) p | _ => o end.

Definition unscale_out (u : N) (o : out) : out :=
  match o with
  | OFetched p t => OFetched p (t / u)
  | OTime t => OTime (t / u)
  | OPeek (Some t) => OPeek (Some (t / u))
  | _ => o
  end.

Definition enc_out (o : out) : list N :=
  match o with
  | OAdded => [1]
  | OFetched p t => [2; p; t]
  | OLen n => [3; n]
  | OTime t => [4; t]
  | OUnit => [5]
  | OPeek None => [6; 0]
  | OPeek (Some t) => [6; 1; t]
  | OInv bits => 7 :: bits
  | OPanic s => [9; s]
  | OOutOfFuel => [8]
  end.

Definition unit_of (u : N) : N := if u =? 0 then 1 else u.

Definition run (input : list N) : list N :=
  match input with
  | n :: t :: ts :: u0 :: r =>
      let u := unit_of u0 in
      let ops := map (scale_op u) (decode_all dec_op r) in
      if (n =? 0) || (t =? 0) then [7]
      else if ts =? 0 then flat_map enc_out (map (unscale_out u) (run_ops true n t ops))
      else flat_map enc_out (map (unscale_out u) (run_ops_at true n t (ts * u) ops))
  | _ => [7]
  end.
