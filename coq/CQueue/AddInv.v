From Coq Require Import List Arith NArith PArith Lia Bool Sorting.Sorted Permutation.
From DesVerif Require Import Common.Fuel Common.Codec CQueue.Model.
Import ListNotations.
Open Scope N_scope.
From DesVerif Require Import CQueue.Scan CQueue.Term CQueue.Fetch.

Lemma In_ins e x l : In x (ins e l) <-> x = e \/ In x l.
Proof.
  induction l as [|y l IH]; cbn [ins].
  - cbn. intuition.
  - destruct (etime e <? etime y); cbn [In]; [intuition|]. rewrite IH. intuition.
Qed.

Lemma ins_sorted e l : time_sorted l -> time_sorted (ins e l).
Proof.
  unfold time_sorted. induction l as [|y l IH]; intros Hs; cbn [ins].
  - repeat constructor.
  - inversion Hs as [|? ? Hs' Hall]; subst.
    destruct (etime e <? etime y) eqn:Hc.
    + apply N.ltb_lt in Hc. constructor; [exact Hs|]. constructor; [lia|].
      rewrite Forall_forall in *. intros z Hz. specialize (Hall z Hz). lia.
    + apply N.ltb_ge in Hc. constructor; [apply IH; exact Hs'|].
      rewrite Forall_forall in *. intros z Hz. apply In_ins in Hz. destruct Hz as [->|Hz]; [exact Hc|auto].
Qed.

Lemma ins_perm e l : Permutation (ins e l) (e :: l).
Proof.
  induction l as [|y l IH]; cbn [ins]; [reflexivity|].
  destruct (etime e <? etime y); [reflexivity|]. rewrite IH. apply perm_swap.
Qed.

Lemma idx_lt n t x : n <> 0 -> idx n t x < n.
Proof. intros. unfold idx. apply N.mod_lt; assumption. Qed.

Lemma slot_mono t x y : t <> 0 -> x <= y -> slot t x <= slot t y.
Proof. intros. unfold slot. apply N.div_le_mono; assumption. Qed.

Lemma J_add_bucket q e : J q -> t0 q <= etime e -> J (add_bucket q e).
Proof.
  intros HJ Hge. pose proof HJ as [Hn Ht Hl Ht0 Ht1 Hh Hs He].
  set (i := N.to_nat (idx (qn q) (qt q) (etime e))).
  assert (Hi : (i < length (buckets q))%nat).
  { subst i. rewrite Hl. pose proof (idx_lt (qn q) (qt q) (etime e) Hn). lia. }
  destruct (nth_error (buckets q) i) as [b|] eqn:Hb; [|apply nth_error_None in Hb; lia].
  constructor; cbn [add_bucket qn qt buckets t0 t1 head]; try assumption.
  - rewrite length_upd; assumption.
  - intros j b' Hj. destruct (Nat.eq_dec i j) as [<-|Hne].
    + fold i in Hj. rewrite (nth_error_upd_eq _ _ _ _ Hb) in Hj. injection Hj as <-.
      apply ins_sorted. eapply Hs; eassumption.
    + fold i in Hj. rewrite nth_error_upd_ne in Hj by assumption. eapply Hs; eassumption.
  - intros j b' x Hj Hin. destruct (Nat.eq_dec i j) as [<-|Hne].
    + fold i in Hj. rewrite (nth_error_upd_eq _ _ _ _ Hb) in Hj. injection Hj as <-.
      apply In_ins in Hin. destruct Hin as [->|Hin]; [|eapply He; eassumption].
      split.
      * subst i. rewrite N2Nat.id. apply idx_alt; assumption.
      * apply slot_mono; assumption.
    + fold i in Hj. rewrite nth_error_upd_ne in Hj by assumption. eapply He; eassumption.
Qed.
