(* Forward simulation: the calendar queue (for every n,t >= 1) produces exactly
   the outputs of the two-list specification, for every operation history. *)
From Coq Require Import List Arith NArith PArith Lia Bool Sorting.Sorted Permutation ZifyBool.
From DesVerif Require Import Common.Fuel Common.Codec CQueue.Model CQueue.Spec CQueue.Scan CQueue.Term CQueue.Fetch CQueue.AddInv CQueue.ListX.
Import ListNotations.
Open Scope N_scope.

Definition pend (q : cq) : list ev := zero q ++ concat (buckets q).

Record R (q : cq) (s : sp) (hs : list (N * N)) : Prop := {
  R_J : J q;
  R_zero : zero q = s_zero s;
  R_tcur : tcur q = s_tcur s;
  R_next : next_id q = s_next s;
  R_perm : Permutation (concat (buckets q)) (s_rest s);
  R_bsorted : forall i b, nth_error (buckets q) i = Some b -> key_sorted b;
  R_rsorted : key_sorted (s_rest s);
  R_ids : forall e, In e (pend q) -> eid e < next_id q;
  R_nodup : NoDup (map eid (pend q));
  R_ztime : forall e, In e (zero q) -> etime e = tcur q;
  R_btime : forall e, In e (concat (buckets q)) -> tcur q <= etime e;
  R_len : qlen q = N.of_nat (length (pend q));
  R_t0 : t0 q <= tcur q;
  R_hs : forall t i e, In (t, i) hs -> In e (pend q) -> eid e = i -> etime e = t;
  R_hid : forall t i, In (t, i) hs -> i < next_id q
}.

(* ---- initial state ---- *)
Lemma nth_error_repeat {A} (x : A) k i b : nth_error (repeat x k) i = Some b -> b = x.
Proof. intros H. apply nth_error_In in H. apply repeat_spec in H. exact H. Qed.

Lemma concat_repeat_nil {A} k : concat (repeat (@nil A) k) = [].
Proof. induction k; cbn; auto. Qed.

Lemma J_new n t : n <> 0 -> t <> 0 -> J (cq_new n t).
Proof.
  intros Hn Ht. constructor; cbn [cq_new qn qt buckets t0 t1 head]; try assumption.
  - apply repeat_length.
  - unfold slot. rewrite N.div_0_l by assumption. lia.
  - lia.
  - unfold slot. rewrite N.div_0_l by assumption. rewrite N.mod_0_l by assumption. reflexivity.
  - intros i b H. apply nth_error_repeat in H. subst b. constructor.
  - intros i b e H Hin. apply nth_error_repeat in H. subst b. destruct Hin.
Qed.

Lemma R_new n t : n <> 0 -> t <> 0 -> R (cq_new n t) sp_new [].
Proof.
  intros Hn Ht. constructor; try (cbn; reflexivity).
  - apply J_new; assumption.
  - cbn [cq_new buckets sp_new s_rest]. rewrite concat_repeat_nil. constructor.
  - intros i b H. cbn in H. apply nth_error_repeat in H. subst b. constructor.
  - constructor.
  - unfold pend. cbn [cq_new zero buckets]. rewrite concat_repeat_nil. intros e [].
  - unfold pend. cbn [cq_new zero buckets]. rewrite concat_repeat_nil. constructor.
  - intros e [].
  - cbn [cq_new buckets]. rewrite concat_repeat_nil. intros e [].
  - unfold pend. cbn [cq_new zero buckets qlen]. rewrite concat_repeat_nil. reflexivity.
  - intros t' i e [].
  - intros t' i [].
Qed.

(* ---- J only depends on the window and the buckets ---- *)
Lemma J_ext q q' :
  J q -> qn q' = qn q -> qt q' = qt q -> buckets q' = buckets q -> head q' = head q ->
  t0 q' = t0 q -> t1 q' = t1 q -> J q'.
Proof.
  intros [Hn Ht Hl Ht0 Ht1 Hh Hs He] En Et Eb Eh E0 E1.
  constructor; rewrite ?En, ?Et, ?Eb, ?Eh, ?E0, ?E1; assumption.
Qed.

(* replacing one bucket by a sorted sub-bucket keeps J *)
Lemma J_upd_sub q i b b' l :
  J q -> nth_error (buckets q) i = Some b -> (forall x, In x b' -> In x b) -> time_sorted b' ->
  J (set_buckets q (upd i (fun _ => b') (buckets q)) l).
Proof.
  intros [Hn Ht Hl Ht0 Ht1 Hh Hs He] Hb Hsub Hsort.
  constructor; cbn [set_buckets qn qt buckets t0 t1 head]; try assumption.
  - rewrite length_upd; assumption.
  - intros j c Hj. destruct (Nat.eq_dec i j) as [<-|Hne].
    + rewrite (nth_error_upd_eq _ _ _ _ Hb) in Hj. injection Hj as <-. exact Hsort.
    + rewrite nth_error_upd_ne in Hj by assumption. eapply Hs; eassumption.
  - intros j c e Hj Hin. destruct (Nat.eq_dec i j) as [<-|Hne].
    + rewrite (nth_error_upd_eq _ _ _ _ Hb) in Hj. injection Hj as <-. apply (He _ _ e Hb). auto.
    + rewrite nth_error_upd_ne in Hj by assumption. eapply He; eassumption.
Qed.

(* ---- generic consequences of "pend shrinks by one element" ---- *)
Lemma perm_sub_facts (l l' : list ev) e :
  Permutation l (e :: l') ->
  (forall x, In x l' -> In x l) /\ (NoDup (map eid l) -> NoDup (map eid l')) /\
  length l = S (length l').
Proof.
  intros P. repeat split.
  - intros x Hx. eapply Permutation_in; [symmetry; exact P|right; exact Hx].
  - intros Hnd. apply (Permutation_map eid) in P. eapply Permutation_NoDup in Hnd; [|exact P].
    cbn in Hnd. inversion Hnd; assumption.
  - apply Permutation_length in P. exact P.
Qed.

(* ---- add ---- *)
Lemma R_add q s hs time pay :
  R q s hs -> tcur q <= time ->
  let '(q', h, o) := add q time pay in
  let '(s', h', o') := sp_add s time pay in
  o = o' /\ h = h' /\ exists hd, h = Some hd /\ R q' s' (hs ++ [hd]).
Proof.
  intros HR Hge. pose proof HR as [HJ Hz Htc Hnx Hp Hbs Hrs Hids Hnd Hzt Hbt Hlen Ht0 Hhs Hhid].
  unfold add, sp_add. rewrite <- Htc, <- Hnx.
  destruct (time <? tcur q) eqn:E1; [apply N.ltb_lt in E1; lia|].
  set (e := {| etime := time; eid := next_id q; epay := pay |}).
  destruct (time =? tcur q) eqn:E2.
  - (* zero bucket *)
    apply N.eqb_eq in E2. split; [reflexivity|]. split; [reflexivity|]. eexists; split; [reflexivity|].
    assert (Hpend : pend (add_zero q e) = zero q ++ e :: concat (buckets q)).
    { unfold pend. cbn [add_zero zero buckets]. rewrite <- app_assoc. reflexivity. }
    assert (Hin : forall x, In x (pend (add_zero q e)) <-> x = e \/ In x (pend q)).
    { intros x. rewrite Hpend. unfold pend. rewrite !in_app_iff. cbn [In]. intuition. }
    constructor; cbn [add_zero zero tcur next_id buckets qlen s_zero s_tcur s_next s_rest]; try assumption; try reflexivity.
    + eapply J_ext; [exact HJ|reflexivity..].
    + rewrite Hz. reflexivity.
    + intros x Hx. apply Hin in Hx. destruct Hx as [->|Hx]; [cbn; lia|]. specialize (Hids x Hx). lia.
    + rewrite Hpend. rewrite map_app. cbn [map]. apply NoDup_Add with (a := eid e) (l := map eid (pend q)).
      * unfold pend. rewrite map_app. apply Add_app.
      * split; [exact Hnd|]. intros Hc. apply in_map_iff in Hc. destruct Hc as [x [Ex Hx]].
        specialize (Hids x Hx). cbn in Ex. lia.
    + intros x Hx. apply in_app_or in Hx. destruct Hx as [Hx|[<-|[]]]; [auto|cbn; exact E2].
    + rewrite Hpend, Hlen. unfold pend. rewrite !app_length. cbn [length]. lia.
    + intros t' i x Hh Hx Ei. apply Hin in Hx. apply in_app_or in Hh. destruct Hh as [Hh|[Hh|[]]].
      * destruct Hx as [->|Hx]; [|eapply Hhs; eassumption]. specialize (Hhid _ _ Hh). cbn in Ei. lia.
      * injection Hh as <- <-. destruct Hx as [->|Hx]; [reflexivity|]. specialize (Hids x Hx). lia.
    + intros t' i Hh. apply in_app_or in Hh. destruct Hh as [Hh|[Hh|[]]]; [specialize (Hhid _ _ Hh); lia|].
      injection Hh as <- <-. lia.
  - (* indexed bucket *)
    apply N.eqb_neq in E2. split; [reflexivity|]. split; [reflexivity|]. eexists; split; [reflexivity|].
    pose proof (J_n q HJ) as Hn. pose proof (J_len q HJ) as Hl.
    set (i := N.to_nat (idx (qn q) (qt q) (etime e))).
    assert (Hi : (i < length (buckets q))%nat).
    { subst i. rewrite Hl. pose proof (idx_lt (qn q) (qt q) (etime e) Hn). lia. }
    destruct (nth_error (buckets q) i) as [b|] eqn:Hb; [|apply nth_error_None in Hb; lia].
    destruct (concat_upd_split (buckets q) i (ins e) b Hb) as [pre [post [Ec Ec']]].
    assert (Pc : Permutation (concat (buckets (add_bucket q e))) (e :: concat (buckets q))).
    { cbn [add_bucket buckets]. fold i. rewrite Ec', Ec.
      rewrite (ins_perm e b). cbn [app]. symmetry. apply Permutation_middle. }
    assert (Pp : Permutation (pend (add_bucket q e)) (e :: pend q)).
    { unfold pend. cbn [add_bucket zero]. rewrite Pc. symmetry. apply Permutation_middle. }
    assert (Hin : forall x, In x (pend (add_bucket q e)) <-> x = e \/ In x (pend q)).
    { intros x. split; intros Hx.
      - eapply Permutation_in in Hx; [|exact Pp]. destruct Hx; auto.
      - eapply Permutation_in; [symmetry; exact Pp|]. destruct Hx; [left|right]; auto. }
    assert (Hfresh : forall x, In x (concat (buckets q)) -> eid x < eid e).
    { intros x Hx. apply Hids. unfold pend. apply in_or_app. right; exact Hx. }
    constructor; cbn [add_bucket zero tcur next_id qlen s_zero s_tcur s_next s_rest t0]; try assumption; try reflexivity.
    + apply J_add_bucket; [exact HJ|cbn; lia].
    + rewrite Pc, sins_perm. constructor. exact Hp.
    + intros j c Hj. cbn [add_bucket buckets] in Hj. fold i in Hj. destruct (Nat.eq_dec i j) as [<-|Hne].
      * rewrite (nth_error_upd_eq _ _ _ _ Hb) in Hj. injection Hj as <-.
        apply ins_key_sorted; [eapply Hbs; eassumption|]. intros x Hx. apply Hfresh.
        apply in_concat_nth. exists i, b. split; assumption.
      * rewrite nth_error_upd_ne in Hj by assumption. eapply Hbs; eassumption.
    + apply sins_key_sorted; [exact Hrs|]. intros x Hx. apply Hfresh.
      eapply Permutation_in; [symmetry; exact Hp|exact Hx].
    + intros x Hx. apply Hin in Hx. destruct Hx as [->|Hx]; [cbn; lia|]. specialize (Hids x Hx). lia.
    + eapply Permutation_NoDup; [symmetry; apply Permutation_map; exact Pp|]. cbn [map]. constructor; [|exact Hnd].
      intros Hc. apply in_map_iff in Hc. destruct Hc as [x [Ex Hx]]. specialize (Hids x Hx). cbn in Ex. lia.
    + intros x Hx. eapply Permutation_in in Hx; [|exact Pc]. destruct Hx as [<-|Hx]; [cbn; lia|auto].
    + rewrite (Permutation_length Pp), Hlen. cbn [length]. lia.
    + intros t' j x Hh Hx Ei. apply Hin in Hx. apply in_app_or in Hh. destruct Hh as [Hh|[Hh|[]]].
      * destruct Hx as [->|Hx]; [|eapply Hhs; eassumption]. specialize (Hhid _ _ Hh). cbn in Ei. lia.
      * injection Hh as <- <-. destruct Hx as [->|Hx]; [reflexivity|]. specialize (Hids x Hx). lia.
    + intros t' j Hh. apply in_app_or in Hh. destruct Hh as [Hh|[Hh|[]]]; [specialize (Hhid _ _ Hh); lia|].
      injection Hh as <- <-. lia.
Qed.

(* ---- removing an element from the zero bucket ---- *)
Lemma R_remove_zero q s hs z' e :
  R q s hs -> Permutation (zero q) (e :: z') -> (forall x, In x z' -> In x (zero q)) ->
  R (set_zero q z' (qlen q - 1))
    {| s_tcur := s_tcur s; s_zero := z'; s_rest := s_rest s; s_next := s_next s |} hs.
Proof.
  intros HR P Hsub. pose proof HR as [HJ Hz Htc Hnx Hp Hbs Hrs Hids Hnd Hzt Hbt Hlen Ht0 Hhs Hhid].
  assert (Pp : Permutation (pend q) (e :: pend (set_zero q z' (qlen q - 1)))).
  { unfold pend. cbn [set_zero zero buckets]. rewrite P. reflexivity. }
  destruct (perm_sub_facts _ _ _ Pp) as [Hin [Hnd' Hl]].
  constructor; cbn [set_zero zero tcur next_id buckets qlen s_zero s_tcur s_next s_rest t0]; try assumption; try reflexivity.
  - eapply J_ext; [exact HJ|reflexivity..].
  - intros x Hx. apply Hids. apply Hin. exact Hx.
  - apply Hnd'. exact Hnd.
  - intros x Hx. apply Hzt. apply Hsub. exact Hx.
  - unfold pend in *. cbn [set_zero zero buckets] in *. rewrite Hlen, Hl. lia.
  - intros t' i x Hh Hx Ei. eapply Hhs; [exact Hh|apply Hin; exact Hx|exact Ei].
Qed.

(* ---- removing an element from an indexed bucket ---- *)
Lemma R_remove_bucket q qm s hs i b b' r' e tc :
  R q s hs -> J qm -> buckets qm = buckets q -> qn qm = qn q -> qt qm = qt q ->
  nth_error (buckets q) i = Some b ->
  Permutation b (e :: b') -> (forall x, In x b' -> In x b) -> key_sorted b' ->
  Permutation (s_rest s) (e :: r') -> key_sorted r' ->
  (forall x, In x (zero q) -> etime x = tc) ->
  (forall x, In x (concat (upd i (fun _ => b') (buckets q))) -> tc <= etime x) ->
  t0 qm <= tc ->
  R {| qn := qn q; qt := qt q; zero := zero q; buckets := upd i (fun _ => b') (buckets q);
       head := head qm; tcur := tc; t0 := t0 qm; t1 := t1 qm; next_id := next_id q; qlen := qlen q - 1 |}
    {| s_tcur := tc; s_zero := s_zero s; s_rest := r'; s_next := s_next s |} hs.
Proof.
  intros HR HJm Eb En Et Hb Pb Hsub Hsb Pr Hsr Hzt' Hbt' Ht0'.
  pose proof HR as [HJ Hz Htc Hnx Hp Hbs Hrs Hids Hnd Hzt Hbt Hlen Ht0 Hhs Hhid].
  destruct (concat_upd_split (buckets q) i (fun _ => b') b Hb) as [pre [post [Ec Ec']]].
  assert (Pc : Permutation (concat (buckets q)) (e :: concat (upd i (fun _ => b') (buckets q)))).
  { rewrite Ec, Ec', Pb. cbn [app]. symmetry. apply Permutation_middle. }
  set (q' := {| qn := qn q; qt := qt q; zero := zero q; buckets := upd i (fun _ => b') (buckets q);
       head := head qm; tcur := tc; t0 := t0 qm; t1 := t1 qm; next_id := next_id q; qlen := qlen q - 1 |}).
  assert (Pp : Permutation (pend q) (e :: pend q')).
  { unfold pend. cbn [q' zero buckets]. rewrite Pc. symmetry. apply Permutation_middle. }
  destruct (perm_sub_facts _ _ _ Pp) as [Hin [Hnd' Hl]].
  constructor; cbn [q' zero tcur next_id buckets qlen s_zero s_tcur s_next s_rest t0]; try assumption; try reflexivity.
  - apply (J_ext (set_buckets qm (upd i (fun _ => b') (buckets qm)) (qlen q - 1))); cbn [q' set_buckets qn qt buckets head t0 t1]; try reflexivity; try congruence.
    rewrite <- Eb in Hb.
    eapply J_upd_sub; [exact HJm|exact Hb|exact Hsub|apply key_sorted_time_sorted; exact Hsb].
  - eapply Permutation_cons_inv with (a := e). rewrite <- Pc, <- Pr. exact Hp.
  - intros j c Hj. destruct (Nat.eq_dec i j) as [<-|Hne].
    + rewrite (nth_error_upd_eq _ _ _ _ Hb) in Hj. injection Hj as <-. exact Hsb.
    + rewrite nth_error_upd_ne in Hj by assumption. eapply Hbs; eassumption.
  - intros x Hx. apply Hids. apply Hin. exact Hx.
  - apply Hnd'. exact Hnd.
  - unfold pend in *. cbn [q' zero buckets] in *. rewrite Hlen, Hl. lia.
  - intros t' j x Hh Hx Ei. eapply Hhs; [exact Hh|apply Hin; exact Hx|exact Ei].
Qed.

(* ---- cancel ---- *)
Lemma bucket_of q e :
  J q -> In e (concat (buckets q)) ->
  exists b, nth_error (buckets q) (N.to_nat (idx (qn q) (qt q) (etime e))) = Some b /\ In e b.
Proof.
  intros HJ Hin. apply in_concat_nth in Hin. destruct Hin as [i [b [Hb He]]].
  destruct (J_ev q HJ i b e Hb He) as [Hi _].
  rewrite idx_alt by (apply HJ). rewrite <- Hi, Nat2N.id. exists b. split; assumption.
Qed.

Lemma nodup_bucket q i b :
  NoDup (map eid (pend q)) -> nth_error (buckets q) i = Some b -> NoDup (map eid b).
Proof.
  intros Hnd Hb. unfold pend in Hnd. rewrite map_app in Hnd. apply NoDup_app_remove_l in Hnd.
  destruct (concat_upd_split (buckets q) i (fun x => x) b Hb) as [pre [post [Ec _]]].
  rewrite Ec, !map_app in Hnd. apply NoDup_app_remove_l in Hnd. apply NoDup_app_remove_r in Hnd. exact Hnd.
Qed.

Lemma R_cancel_bucket q s hs ht hid :
  R q s hs -> In (ht, hid) hs -> remove_id hid (zero q) = None -> tcur q <= ht ->
  R (cancel_bucket q ht hid)
    match remove_id hid (s_rest s) with
    | Some r' => {| s_tcur := s_tcur s; s_zero := s_zero s; s_rest := r'; s_next := s_next s |}
    | None => s
    end hs.
Proof.
  intros HR Hh Hnz Hge. pose proof HR as [HJ Hz Htc Hnx Hp Hbs Hrs Hids Hnd Hzt Hbt Hlen Ht0 Hhs Hhid].
  unfold cancel_bucket.
  set (i := N.to_nat (idx (qn q) (qt q) ht)).
  destruct (remove_id hid (s_rest s)) as [r'|] eqn:Hr.
  - (* the event is pending in some bucket *)
    destruct (remove_id_Some _ _ _ Hr) as [e [m1 [m2 [Er [Er' Ee]]]]].
    assert (Her : In e (s_rest s)) by (rewrite Er; apply in_or_app; right; left; reflexivity).
    assert (Hec : In e (concat (buckets q))) by (eapply Permutation_in; [symmetry; exact Hp|exact Her]).
    assert (Het : etime e = ht).
    { eapply Hhs; [exact Hh| |exact Ee]. unfold pend. apply in_or_app. right; exact Hec. }
    destruct (bucket_of q e HJ Hec) as [b [Hb Heb]]. rewrite Het in Hb. fold i in Hb.
    rewrite (nth_nth_error _ _ [] _ Hb).
    destruct (remove_id_exists b e Heb) as [b' Hb']. rewrite Ee in Hb'. rewrite Hb'.
    pose proof (nodup_bucket q i b Hnd Hb) as Hndb.
    assert (Pb : Permutation b (e :: b')) by (apply remove_id_perm; [exact Hndb|exact Heb|rewrite Ee; exact Hb']).
    assert (Hndr : NoDup (map eid (s_rest s))).
    { eapply Permutation_NoDup; [apply Permutation_map; exact Hp|].
      unfold pend in Hnd. rewrite map_app in Hnd. apply NoDup_app_remove_l in Hnd. exact Hnd. }
    assert (Pr : Permutation (s_rest s) (e :: r')) by (apply remove_id_perm; [exact Hndr|exact Her|rewrite Ee; exact Hr]).
    rewrite <- Htc.
    apply (R_remove_bucket q q s hs i b b' r' e (tcur q) HR HJ eq_refl eq_refl eq_refl Hb Pb).
    + intros x Hx. eapply remove_id_In; eassumption.
    + eapply remove_id_sorted; [eapply Hbs; exact Hb|exact Hb'].
    + exact Pr.
    + eapply remove_id_sorted; [exact Hrs|exact Hr].
    + exact Hzt.
    + intros x Hx. apply Hbt. destruct (concat_upd_split (buckets q) i (fun _ => b') b Hb) as [pre [post [Ec Ec']]].
      rewrite Ec' in Hx. rewrite Ec. rewrite !in_app_iff in *. destruct Hx as [Hx|[Hx|Hx]]; auto.
      right; left. eapply remove_id_In; eassumption.
    + exact Ht0.
  - (* not pending: nothing happens on either side *)
    rewrite remove_id_None in Hr.
    destruct (remove_id hid (nth i (buckets q) [])) as [b'|] eqn:Hb'; [|exact HR].
    exfalso. destruct (remove_id_Some _ _ _ Hb') as [e [l1 [l2 [El [_ Ee]]]]].
    assert (Hi : (i < length (buckets q))%nat).
    { destruct (le_lt_dec (length (buckets q)) i) as [Hle|]; [|assumption].
      rewrite nth_overflow in El by assumption. destruct l1; discriminate. }
    apply (Hr e); [|exact Ee]. eapply Permutation_in; [exact Hp|].
    apply in_concat_nth. exists i, (nth i (buckets q) []). split.
    + apply nth_error_nth'; exact Hi.
    + rewrite El. apply in_or_app. right; left; reflexivity.
Qed.

Lemma R_cancel q s hs ht hid :
  R q s hs -> In (ht, hid) hs -> R (cancel true q ht hid) (sp_cancel s hid) hs.
Proof.
  intros HR Hh. pose proof HR as [HJ Hz Htc Hnx Hp Hbs Hrs Hids Hnd Hzt Hbt Hlen Ht0 Hhs Hhid].
  unfold cancel, sp_cancel.
  replace (remove_id hid (s_zero s)) with (remove_id hid (zero q)) by (rewrite Hz; reflexivity).
  destruct (ht <? tcur q) eqn:E1.
  - (* the event was fetched before: it is not pending *)
    apply N.ltb_lt in E1.
    assert (Hno : forall e, In e (pend q) -> eid e <> hid).
    { intros e He Ee. pose proof (Hhs _ _ _ Hh He Ee) as Et. unfold pend in He. apply in_app_or in He.
      destruct He as [He|He]; [specialize (Hzt e He)|specialize (Hbt e He)]; lia. }
    assert (N1 : remove_id hid (zero q) = None).
    { apply remove_id_None. intros e He. apply Hno. unfold pend. apply in_or_app. left; exact He. }
    assert (N2 : remove_id hid (s_rest s) = None).
    { apply remove_id_None. intros e He. apply Hno. unfold pend. apply in_or_app. right.
      eapply Permutation_in; [symmetry; exact Hp|exact He]. }
    rewrite N1, N2. exact HR.
  - apply N.ltb_ge in E1. destruct (remove_id hid (zero q)) as [z'|] eqn:Hzr.
    + (* in the zero bucket: its time is the current time *)
      destruct (remove_id_Some _ _ _ Hzr) as [e [l1 [l2 [El [El' Ee]]]]].
      assert (Hez : In e (zero q)) by (rewrite El; apply in_or_app; right; left; reflexivity).
      assert (Het : etime e = ht).
      { eapply Hhs; [exact Hh| |exact Ee]. unfold pend. apply in_or_app. left; exact Hez. }
      rewrite <- Het, (Hzt e Hez), N.eqb_refl.
      apply (R_remove_zero q s hs z' e HR).
      * rewrite El, El'. symmetry. apply Permutation_middle.
      * intros x Hx. eapply remove_id_In; eassumption.
    + destruct (ht =? tcur q); apply R_cancel_bucket; assumption.
Qed.

(* ---- fetch ---- *)
Lemma t0_le_event q i b e : J q -> nth_error (buckets q) i = Some b -> In e b -> t0 q <= etime e.
Proof.
  intros HJ Hb He. destruct (J_ev q HJ i b e Hb He) as [_ Hle].
  pose proof (J_t0 q HJ) as Ht0. pose proof (J_t q HJ) as Ht. unfold slot in *.
  pose proof (N.mul_div_le (etime e) (qt q) Ht). nia.
Qed.

Lemma succ_pos_nat k : Pos.to_nat (N.succ_pos k) = S (N.to_nat k).
Proof.
  change (Pos.to_nat (N.succ_pos k)) with (N.to_nat (N.pos (N.succ_pos k))).
  rewrite N.succ_pos_spec, N2Nat.inj_succ. reflexivity.
Qed.

Lemma scan_result q s hs :
  R q s hs -> zero q = [] -> qlen q <> 0 ->
  exists qm x r0,
    iter_until (scan_fuel q) scan_step q = inr (pop_head qm x r0, OFetched (epay x) (etime x)) /\
    J qm /\ same_content q qm /\
    nth_error (buckets qm) (N.to_nat (head qm)) = Some (x :: r0) /\ etime x <= t1 qm.
Proof.
  intros HR Ez El. pose proof HR as [HJ Hz Htc Hnx Hp Hbs Hrs Hids Hnd Hzt Hbt Hlen Ht0 Hhs Hhid].
  destruct (concat (buckets q)) as [|e0 c0] eqn:Ec.
  { exfalso. unfold pend in Hlen. rewrite Ez, Ec in Hlen. cbn in Hlen. lia. }
  assert (He0 : In e0 (concat (buckets q))) by (rewrite Ec; left; reflexivity).
  pose proof He0 as He0'. apply in_concat_nth in He0'. destruct He0' as [i0 [b0 [Hb0 Hi0]]].
  rewrite iter_until_nat.
  destruct (scan_terminates (Pos.to_nat (scan_fuel q)) q i0 b0 e0 HJ Hb0 Hi0) as [r Hr].
  { unfold scan_fuel. rewrite succ_pos_nat. unfold slot.
    pose proof (max_time_ge _ _ He0) as Hm.
    pose proof (N.div_le_mono _ _ (qt q) (J_t q HJ) Hm). lia. }
  destruct (scan_iter_inr _ _ _ HJ Hr) as [qm [HJm [Hsc Hst]]].
  destruct r as [q' o]. destruct (scan_step_inr qm q' o HJm Hst) as [x [r0 [Hb [Hle [-> ->]]]]].
  exists qm, x, r0. split; [exact Hr|]. split; [exact HJm|]. split; [exact Hsc|]. split; assumption.
Qed.

Lemma R_fetch q s hs :
  R q s hs ->
  let '(q', o) := fetch_next q in
  let '(s', o') := sp_fetch s in
  o = o' /\ R q' s' hs.
Proof.
  intros HR. pose proof HR as [HJ Hz Htc Hnx Hp Hbs Hrs Hids Hnd Hzt Hbt Hlen Ht0 Hhs Hhid].
  unfold fetch_next, sp_fetch.
  replace (s_zero s) with (zero q) by exact Hz.
  destruct (qlen q =? 0) eqn:El.
  - (* empty *)
    apply N.eqb_eq in El. rewrite El in Hlen. unfold pend in Hlen. rewrite app_length in Hlen.
    destruct (zero q) as [|x z]; [|cbn in Hlen; lia].
    destruct (concat (buckets q)) as [|y c] eqn:Ec; [|cbn in Hlen; lia].
    apply Permutation_nil in Hp. rewrite Hp. split; [reflexivity|exact HR].
  - apply N.eqb_neq in El. destruct (zero q) as [|x z] eqn:Ez.
    + (* scan *)
      destruct (scan_result q s hs HR Ez El) as [qm [x [r0 [Hit [HJm [Hsc [Hb Hle]]]]]]].
      rewrite Hit. destruct Hsc as [Sb Sz Stc Sl Sid Sn St Sslot].
      rewrite Sb in Hb.
      assert (Hxb : In x (concat (buckets q))).
      { apply in_concat_nth. exists (N.to_nat (head qm)), (x :: r0). split; [exact Hb|left; reflexivity]. }
      assert (Hxr : In x (s_rest s)) by (eapply Permutation_in; [exact Hp|exact Hxb]).
      destruct (s_rest s) as [|y r'] eqn:Er; [destruct Hxr|].
      (* the front of the head bucket is the head of the sorted rest *)
      assert (Hmin : forall i b e, nth_error (buckets q) i = Some b -> In e b -> etime x <= etime e).
      { intros i b e Hi He. rewrite <- Sb in Hi, Hb. eapply head_front_is_min; eassumption. }
      assert (Exy : x = y).
      { destruct Hxr as [E|Hxr]; [symmetry; exact E|].
        inversion Hrs as [|? ? _ Hall]; subst. rewrite Forall_forall in Hall. specialize (Hall x Hxr).
        assert (Hyb : In y (concat (buckets q))) by (eapply Permutation_in; [symmetry; exact Hp|left; reflexivity]).
        apply in_concat_nth in Hyb. destruct Hyb as [i [b [Hi Hy]]].
        pose proof (Hmin i b y Hi Hy) as Hxy.
        assert (Et : etime y = etime x) by (unfold key_lt in Hall; lia).
        (* equal times: same bucket *)
        assert (Ei : i = N.to_nat (head qm)).
        { rewrite <- Sb in Hi, Hb.
          destruct (J_ev qm HJm i b y Hi Hy) as [Hi1 _].
          destruct (J_ev qm HJm _ _ x Hb (or_introl eq_refl)) as [Hi2 _].
          rewrite Et in Hi1. rewrite <- Hi2 in Hi1. lia. }
        subst i. rewrite Hb in Hi. injection Hi as <-.
        specialize (Hbs _ _ Hb). inversion Hbs as [|? ? _ Hall']; subst.
        destruct Hy as [E|Hy]; [exact E|]. rewrite Forall_forall in Hall'. specialize (Hall' y Hy).
        exfalso. eapply key_lt_asym; eassumption. }
      subst y. split; [reflexivity|].
      assert (Pb : Permutation (x :: r0) (x :: r0)) by reflexivity.
      assert (Eb' : buckets qm = buckets q) by exact Sb.
      assert (HR' := R_remove_bucket q qm s hs (N.to_nat (head qm)) (x :: r0) r0 r' x (etime x) HR HJm Sb Sn St Hb Pb).
      rewrite Er in HR'. unfold pop_head. rewrite Sn, St, Sz, Sb, Sid, Sl. rewrite Ez in HR'. rewrite <- Hz in HR'. rewrite Ez. apply HR'.
      * intros e He. right; exact He.
      * specialize (Hbs _ _ Hb). inversion Hbs; assumption.
      * reflexivity.
      * inversion Hrs; assumption.
      * intros e [].
      * intros e He. destruct (concat_upd_split (buckets q) (N.to_nat (head qm)) (fun _ => r0) (x :: r0) Hb) as [pre [post [Ec Ec']]].
        rewrite Ec' in He. assert (He' : In e (concat (buckets q))).
        { rewrite Ec. rewrite !in_app_iff in *. destruct He as [He|[He|He]]; auto. right; left; right; exact He. }
        apply in_concat_nth in He'. destruct He' as [i [b [Hi Hb']]]. eapply Hmin; eassumption.
      * rewrite <- Sb in Hb. eapply t0_le_event; [exact HJm|exact Hb|left; reflexivity].
    + (* zero bucket *)
      split; [reflexivity|].
      apply (R_remove_zero q s hs z x HR).
      * rewrite Ez. reflexivity.
      * intros e He. rewrite Ez. right; exact He.
Qed.

(* ---- new_at ---- *)
Lemma J_new_at n t ts : n <> 0 -> t <> 0 -> J (cq_new_at n t ts).
Proof.
  intros Hn Ht.
  assert (Hs : slot t (ts / t * t) = ts / t) by (unfold slot; apply N.div_mul; assumption).
  constructor; cbn [cq_new_at qn qt buckets t0 t1 head]; try assumption.
  - apply repeat_length.
  - rewrite Hs. lia.
  - reflexivity.
  - rewrite Hs. reflexivity.
  - intros i b H. apply nth_error_repeat in H. subst b. constructor.
  - intros i b e H Hin. apply nth_error_repeat in H. subst b. destruct Hin.
Qed.

Lemma R_new_at n t ts : n <> 0 -> t <> 0 -> R (cq_new_at n t ts) (sp_new_at ts) [].
Proof.
  intros Hn Ht. constructor; try (cbn; reflexivity).
  - apply J_new_at; assumption.
  - cbn [cq_new_at buckets sp_new_at s_rest]. rewrite concat_repeat_nil. constructor.
  - intros i b H. cbn in H. apply nth_error_repeat in H. subst b. constructor.
  - constructor.
  - unfold pend. cbn [cq_new_at zero buckets]. rewrite concat_repeat_nil. intros e [].
  - unfold pend. cbn [cq_new_at zero buckets]. rewrite concat_repeat_nil. constructor.
  - intros e [].
  - cbn [cq_new_at buckets]. rewrite concat_repeat_nil. intros e [].
  - unfold pend. cbn [cq_new_at zero buckets qlen]. rewrite concat_repeat_nil. reflexivity.
  - cbn [cq_new_at t0 tcur]. rewrite N.mul_comm. apply N.mul_div_le. assumption.
  - intros t' i e [].
  - intros t' i [].
Qed.

(* ---- peek_time ---- *)
Lemma R_peek q s hs : R q s hs -> peek_time q = sp_peek s.
Proof.
  intros HR. pose proof (R_fetch q s hs HR) as H.
  pose proof HR as [HJ Hz Htc Hnx Hp Hbs Hrs Hids Hnd Hzt Hbt Hlen Ht0 Hhs Hhid].
  unfold peek_time, sp_peek. unfold fetch_next, sp_fetch in H.
  replace (s_zero s) with (zero q) in * by exact Hz.
  destruct (qlen q =? 0) eqn:El.
  - destruct (zero q) as [|x z]; [|destruct H as [H _]; discriminate].
    destruct (s_rest s) as [|y r]; [reflexivity|]. destruct H as [H _]; discriminate.
  - apply N.eqb_neq in El. destruct (zero q) as [|x z] eqn:Ez; [|reflexivity].
    destruct (scan_result q s hs HR Ez El) as [qm [x [r0 [Hit _]]]]. rewrite Hit in *.
    destruct (s_rest s) as [|y r]; destruct H as [H _]; [discriminate|]. injection H as _ <-. reflexivity.
Qed.
