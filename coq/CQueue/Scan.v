(* Loop invariant J of the fetch_next scan and the two lemmas the argument rests on. *)
From Coq Require Import List Arith NArith PArith Lia Bool Sorting.Sorted Permutation.
From DesVerif Require Import Common.Fuel Common.Codec CQueue.Model.
Import ListNotations.
Open Scope N_scope.

Definition slot (t x : N) := x / t.

Lemma idx_alt n t x : t <> 0 -> n <> 0 -> idx n t x = (slot t x) mod n.
Proof.
  intros Ht Hn. unfold idx, slot. rewrite N.mod_mul_r by assumption.
  rewrite N.mul_comm, N.div_add by assumption.
  rewrite N.div_small by (apply N.mod_lt; assumption).
  rewrite N.add_0_l. apply N.mod_mod; assumption.
Qed.

Definition time_sorted (b : list ev) := StronglySorted (fun a c => etime a <= etime c) b.

Record J (q : cq) : Prop := {
  J_n : qn q <> 0; J_t : qt q <> 0;
  J_len : length (buckets q) = N.to_nat (qn q);
  J_t0 : t0 q = qt q * slot (qt q) (t0 q);
  J_t1 : t1 q = t0 q + qt q;
  J_head : head q = slot (qt q) (t0 q) mod qn q;
  J_sorted : forall i b, nth_error (buckets q) i = Some b -> time_sorted b;
  J_ev : forall i b e, nth_error (buckets q) i = Some b -> In e b ->
           N.of_nat i = slot (qt q) (etime e) mod qn q /\ slot (qt q) (t0 q) <= slot (qt q) (etime e)
}.

Lemma slot_mul t k : t <> 0 -> slot t (t * k) = k.
Proof. intros. unfold slot. rewrite N.mul_comm. apply N.div_mul; assumption. Qed.

Lemma slot_lower t k x : t <> 0 -> t * k <= x -> k <= slot t x.
Proof. intros Ht H. unfold slot. apply N.div_le_lower_bound; assumption. Qed.

Lemma slot_lt_upper t k x : t <> 0 -> k + 1 <= slot t x -> t * (k + 1) <= x.
Proof.
  intros Ht H. unfold slot in H.
  pose proof (N.mul_div_le x t Ht). nia.
Qed.

Lemma nth_nth_error {A} (l : list A) i d b : nth_error l i = Some b -> nth i l d = b.
Proof. revert i; induction l as [|x l IH]; intros [|i] H; simpl in *; try discriminate; [congruence|auto]. Qed.

Lemma head_lt q : J q -> (N.to_nat (head q) < length (buckets q))%nat.
Proof.
  intros [Hn Ht Hl _ _ Hh _ _]. rewrite Hl, Hh.
  pose proof (N.mod_lt (slot (qt q) (t0 q)) (qn q) Hn). lia.
Qed.

Lemma advance_J q :
  J q ->
  (forall b e, nth_error (buckets q) (N.to_nat (head q)) = Some b -> In e b -> t1 q < etime e) ->
  J (advance q).
Proof.
  intros HJ Hskip. destruct HJ as [Hn Ht Hl Ht0 Ht1 Hh Hs He].
  assert (Hk : slot (qt q) (t0 q + qt q) = slot (qt q) (t0 q) + 1).
  { rewrite Ht0 at 1. replace (qt q * slot (qt q) (t0 q) + qt q) with (qt q * (slot (qt q) (t0 q) + 1)) by lia.
    apply slot_mul; assumption. }
  constructor; cbn [advance qn qt buckets t0 t1 head]; try assumption.
  - rewrite Hk. lia.
  - lia.
  - rewrite Hk, Hh. rewrite N.add_mod_idemp_l by assumption. reflexivity.
  - intros i b e Hb Hin. destruct (He i b e Hb Hin) as [Hi Hle]. split; [exact Hi|].
    rewrite Hk.
    destruct (N.eq_dec (N.of_nat i) (head q)) as [Heq|Hne].
    + (* head bucket: all events are later than t1 *)
      assert (Hi' : i = N.to_nat (head q)) by lia. subst i.
      specialize (Hskip b e Hb Hin).
      apply slot_lower; [assumption|]. rewrite Ht1, Ht0 in Hskip. nia.
    + (* other bucket: different residue, so a different slot *)
      assert (slot (qt q) (etime e) <> slot (qt q) (t0 q)) by (intro E; apply Hne; rewrite Hi, Hh, E; reflexivity).
      lia.
Qed.

(* the event returned by the scan is a global minimum of the bucketed events *)
Lemma head_front_is_min q x r :
  J q -> nth_error (buckets q) (N.to_nat (head q)) = Some (x :: r) -> etime x <= t1 q ->
  forall i b e, nth_error (buckets q) i = Some b -> In e b -> etime x <= etime e.
Proof.
  intros HJ Hb Hx i b e Hb' Hin. pose proof HJ as [Hn Ht Hl Ht0 Ht1 Hh Hs He].
  destruct (He i b e Hb' Hin) as [Hi Hle].
  destruct (N.eq_dec (N.of_nat i) (head q)) as [Heq|Hne].
  - assert (i = N.to_nat (head q)) by lia. subst i. rewrite Hb in Hb'. injection Hb' as <-.
    specialize (Hs _ _ Hb). inversion Hs as [|? ? _ Hall]; subst.
    destruct Hin as [<-|Hin]; [lia|]. rewrite Forall_forall in Hall. apply Hall; assumption.
  - assert (slot (qt q) (etime e) <> slot (qt q) (t0 q)) by (intro E; apply Hne; rewrite Hi, Hh, E; reflexivity).
    assert (H1 : slot (qt q) (t0 q) + 1 <= slot (qt q) (etime e)) by lia.
    apply slot_lt_upper in H1; [|assumption]. rewrite Ht1, Ht0 in Hx. nia.
Qed.
