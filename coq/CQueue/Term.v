(* Termination of the scan. *)
From Coq Require Import List Arith NArith PArith Lia Bool Sorting.Sorted Permutation.
From DesVerif Require Import Common.Fuel Common.Codec CQueue.Model.
Import ListNotations.
Open Scope N_scope.
From DesVerif Require Import CQueue.Scan.

(* what scan_step does *)
Lemma scan_step_inl q q' :
  J q -> scan_step q = inl q' ->
  q' = advance q /\
  (forall b e, nth_error (buckets q) (N.to_nat (head q)) = Some b -> In e b -> t1 q < etime e).
Proof.
  intros HJ H. unfold scan_step in H.
  pose proof (head_lt q HJ) as Hlt.
  destruct (nth_error (buckets q) (N.to_nat (head q))) as [b|] eqn:Hb.
  2:{ apply nth_error_None in Hb. lia. }
  rewrite (nth_nth_error _ _ [] _ Hb) in H.
  destruct b as [|x r].
  - injection H as <-. split; [reflexivity|]. intros b e Hb' Hin. injection Hb' as <-. destruct Hin.
  - destruct (t1 q <? etime x) eqn:Hc; [|discriminate]. injection H as <-. split; [reflexivity|].
    intros b e Hb' Hin. injection Hb' as <-. apply N.ltb_lt in Hc.
    pose proof (J_sorted q HJ _ _ Hb) as Hs. inversion Hs as [|? ? _ Hall]; subst.
    destruct Hin as [<-|Hin]; [exact Hc|]. rewrite Forall_forall in Hall. specialize (Hall _ Hin). lia.
Qed.

(* if the head bucket's slot is the event's slot, the scan stops here *)
Lemma scan_step_stops q i b e :
  J q -> nth_error (buckets q) i = Some b -> In e b ->
  slot (qt q) (etime e) = slot (qt q) (t0 q) ->
  exists r, scan_step q = inr r.
Proof.
  intros HJ Hb Hin Hs. pose proof HJ as [Hn Ht Hl Ht0 Ht1 Hh Hsort He].
  destruct (He i b e Hb Hin) as [Hi _].
  assert (Hih : i = N.to_nat (head q)) by (rewrite Hh, <- Hs, <- Hi; lia). subst i.
  unfold scan_step. rewrite (nth_nth_error _ _ [] _ Hb).
  destruct b as [|x r]; [destruct Hin|].
  assert (Hxe : etime x <= etime e).
  { specialize (Hsort _ _ Hb). inversion Hsort as [|? ? _ Hall]; subst.
    destruct Hin as [<-|Hin]; [lia|]. rewrite Forall_forall in Hall. apply Hall; assumption. }
  assert (He1 : etime e < t1 q).
  { rewrite Ht1, Ht0. unfold slot in *. pose proof (N.mod_lt (etime e) (qt q) Ht).
    pose proof (N.div_mod (etime e) (qt q) Ht). rewrite <- Hs. nia. }
  destruct (t1 q <? etime x) eqn:Hc; [apply N.ltb_lt in Hc; lia|]. eexists; reflexivity.
Qed.

Lemma advance_buckets q : buckets (advance q) = buckets q. Proof. reflexivity. Qed.
Lemma advance_qt q : qt (advance q) = qt q. Proof. reflexivity. Qed.

Lemma scan_terminates k : forall q i b e,
  J q -> nth_error (buckets q) i = Some b -> In e b ->
  (N.to_nat (slot (qt q) (etime e) - slot (qt q) (t0 q)) < k)%nat ->
  exists r, iter_nat k scan_step q = inr r.
Proof.
  induction k as [|k IH]; intros q i b e HJ Hb Hin Hm; [lia|].
  cbn [iter_nat]. destruct (scan_step q) as [q'|r] eqn:Hst; [|eexists; reflexivity].
  destruct (scan_step_inl q q' HJ Hst) as [-> Hskip].
  pose proof (advance_J q HJ Hskip) as HJ'.
  assert (Hne : slot (qt q) (etime e) <> slot (qt q) (t0 q)).
  { intro E. destruct (scan_step_stops q i b e HJ Hb Hin E) as [r Hr]. congruence. }
  pose proof (J_ev q HJ i b e Hb Hin) as [_ Hle].
  apply (IH (advance q) i b e HJ'); [exact Hb|exact Hin|].
  rewrite advance_qt. cbn [advance t0].
  assert (Hk : slot (qt q) (t0 q + qt q) = slot (qt q) (t0 q) + 1).
  { pose proof (J_t0 q HJ) as Ht0. pose proof (J_t q HJ) as Ht. rewrite Ht0 at 1.
    replace (qt q * slot (qt q) (t0 q) + qt q) with (qt q * (slot (qt q) (t0 q) + 1)) by lia.
    apply slot_mul; assumption. }
  rewrite Hk. lia.
Qed.
