From Coq Require Import List Arith NArith PArith Lia Bool Sorting.Sorted Permutation.
From DesVerif Require Import Common.Fuel Common.Codec CQueue.Model.
Import ListNotations.
Open Scope N_scope.
From DesVerif Require Import CQueue.Scan CQueue.Term.

(* states reachable by advancing the window only *)
Record same_content (q qm : cq) : Prop := {
  sc_b : buckets qm = buckets q; sc_z : zero qm = zero q; sc_tc : tcur qm = tcur q;
  sc_len : qlen qm = qlen q; sc_id : next_id qm = next_id q; sc_n : qn qm = qn q; sc_t : qt qm = qt q;
  sc_slot : slot (qt q) (t0 q) <= slot (qt q) (t0 qm) }.

Lemma same_content_refl q : same_content q q.
Proof. constructor; first [reflexivity | lia]. Qed.

Lemma slot_advance q : J q -> slot (qt q) (t0 q + qt q) = slot (qt q) (t0 q) + 1.
Proof.
  intros HJ. pose proof (J_t0 q HJ) as Ht0. pose proof (J_t q HJ) as Ht. rewrite Ht0 at 1.
  replace (qt q * slot (qt q) (t0 q) + qt q) with (qt q * (slot (qt q) (t0 q) + 1)) by lia.
  apply slot_mul; assumption.
Qed.

Lemma scan_iter_inr k : forall q r,
  J q -> iter_nat k scan_step q = inr r ->
  exists qm, J qm /\ same_content q qm /\ scan_step qm = inr r.
Proof.
  induction k as [|k IH]; intros q r HJ H; cbn [iter_nat] in H; [discriminate|].
  destruct (scan_step q) as [q'|r'] eqn:Hst.
  - destruct (scan_step_inl q q' HJ Hst) as [-> Hskip].
    pose proof (advance_J q HJ Hskip) as HJ'.
    destruct (IH _ _ HJ' H) as [qm [HJm [Hsc Hr]]]. exists qm. split; [exact HJm|]. split; [|exact Hr].
    destruct Hsc as [? ? ? ? ? ? ? Hs]. constructor; cbn [advance buckets zero tcur qlen next_id qn qt] in *; try assumption.
    cbn [advance t0 qt] in Hs. rewrite (slot_advance q HJ) in Hs. lia.
  - injection H as <-. exists q. split; [exact HJ|]. split; [apply same_content_refl|exact Hst].
Qed.

Lemma scan_step_inr q q' o :
  J q -> scan_step q = inr (q', o) ->
  exists x r, nth_error (buckets q) (N.to_nat (head q)) = Some (x :: r) /\ etime x <= t1 q /\
              q' = pop_head q x r /\ o = OFetched (epay x) (etime x).
Proof.
  intros HJ H. unfold scan_step in H. pose proof (head_lt q HJ) as Hlt.
  destruct (nth_error (buckets q) (N.to_nat (head q))) as [b|] eqn:Hb.
  2:{ apply nth_error_None in Hb. lia. }
  rewrite (nth_nth_error _ _ [] _ Hb) in H.
  destruct b as [|x r]; [discriminate|].
  destruct (t1 q <? etime x) eqn:Hc; [discriminate|]. apply N.ltb_ge in Hc.
  injection H as <- <-. exists x, r. repeat split; [exact Hc].
Qed.

Lemma nth_error_upd_eq {A} (l : list A) i f x : nth_error l i = Some x -> nth_error (upd i f l) i = Some (f x).
Proof. revert i; induction l as [|y l IH]; intros [|i] H; cbn in *; try discriminate; [congruence|auto]. Qed.
Lemma nth_error_upd_ne {A} (l : list A) i j f : i <> j -> nth_error (upd i f l) j = nth_error l j.
Proof. revert i j; induction l as [|y l IH]; intros [|i] [|j] H; cbn; try reflexivity; try lia. apply IH; lia. Qed.
Lemma length_upd {A} (l : list A) i f : length (upd i f l) = length l.
Proof. revert i; induction l as [|y l IH]; intros [|i]; cbn; auto. Qed.

Lemma J_pop q x r :
  J q -> nth_error (buckets q) (N.to_nat (head q)) = Some (x :: r) -> J (pop_head q x r).
Proof.
  intros HJ Hb. destruct HJ as [Hn Ht Hl Ht0 Ht1 Hh Hs He].
  constructor; cbn [pop_head qn qt buckets t0 t1 head]; try assumption.
  - rewrite length_upd; assumption.
  - intros i b Hi. destruct (Nat.eq_dec (N.to_nat (head q)) i) as [<-|Hne].
    + rewrite (nth_error_upd_eq _ _ _ _ Hb) in Hi. injection Hi as <-.
      specialize (Hs _ _ Hb). inversion Hs; assumption.
    + rewrite nth_error_upd_ne in Hi by assumption. eapply Hs; eassumption.
  - intros i b e Hi Hin. destruct (Nat.eq_dec (N.to_nat (head q)) i) as [<-|Hne].
    + rewrite (nth_error_upd_eq _ _ _ _ Hb) in Hi. injection Hi as <-.
      apply (He _ _ e Hb). right; assumption.
    + rewrite nth_error_upd_ne in Hi by assumption. eapply He; eassumption.
Qed.
