(* The executable representation-invariant bits are all ones in every state
   related to a specification state, hence in every reachable state. *)
From Coq Require Import List Arith NArith PArith Lia Bool Sorting.Sorted Permutation ZifyBool.
From DesVerif Require Import Common.Fuel Common.Codec CQueue.Model CQueue.Spec CQueue.Scan CQueue.Term CQueue.Fetch CQueue.AddInv CQueue.ListX CQueue.Refine.
Import ListNotations.
Open Scope N_scope.

Lemma key_sorted_sortedb b : key_sorted b -> sortedb b = true.
Proof.
  unfold key_sorted. induction 1 as [|x l Hs IH Hall]; [reflexivity|].
  cbn [sortedb]. destruct l as [|y l']; [reflexivity|].
  inversion Hall as [|? ? Hxy _]; subst. unfold key_lt in Hxy. rewrite Hxy. exact IH.
Qed.

Lemma forallb_nth {A} (f : A -> bool) l :
  (forall i x, nth_error l i = Some x -> f x = true) -> forallb f l = true.
Proof.
  intros H. apply forallb_forall. intros x Hx. apply In_nth_error in Hx. destruct Hx as [i Hi]. eapply H; exact Hi.
Qed.

Lemma indexb_ok n t bs : forall i0,
  (forall j b e, nth_error bs j = Some b -> In e b -> idx n t (etime e) = i0 + N.of_nat j) ->
  indexb n t i0 bs = true.
Proof.
  induction bs as [|b bs IH]; intros i0 H; cbn [indexb]; [reflexivity|].
  apply andb_true_intro. split.
  - apply forallb_forall. intros e He. apply N.eqb_eq. rewrite (H 0%nat b e eq_refl He). cbn. lia.
  - apply IH. intros j b' e Hj He. rewrite (H (S j) b' e Hj He). lia.
Qed.

Lemma R_inv_bits q s hs : R q s hs -> inv_bits q = [1; 1; 1; 1; 1].
Proof.
  intros HR. pose proof HR as [HJ Hz Htc Hnx Hp Hbs Hrs Hids Hnd Hzt Hbt Hlen Ht0 Hhs Hhid].
  pose proof HJ as [Hn Ht Hl Jt0 Jt1 Jh Js Je].
  unfold inv_bits.
  assert (B1 : forallb sortedb (buckets q) = true).
  { apply forallb_nth. intros i b Hi. apply key_sorted_sortedb. eapply Hbs; exact Hi. }
  assert (B2 : indexb (qn q) (qt q) 0 (buckets q) && (N.of_nat (length (buckets q)) =? qn q) = true).
  { apply andb_true_intro. split.
    - apply indexb_ok. intros j b e Hj He. destruct (Je j b e Hj He) as [Hi _].
      rewrite idx_alt by assumption. lia.
    - apply N.eqb_eq. rewrite Hl. lia. }
  assert (B3 : forallb (fun e => etime e =? tcur q) (zero q) &&
               forallb (forallb (fun e => tcur q <=? etime e)) (buckets q) = true).
  { apply andb_true_intro. split.
    - apply forallb_forall. intros e He. apply N.eqb_eq. apply Hzt. exact He.
    - apply forallb_nth. intros i b Hi. apply forallb_forall. intros e He. apply N.leb_le. apply Hbt.
      apply in_concat_nth. exists i, b. split; assumption. }
  assert (B4 : (qlen q =? N.of_nat (length (zero q) + length (concat (buckets q)))) = true).
  { apply N.eqb_eq. rewrite Hlen. unfold pend. rewrite app_length. reflexivity. }
  assert (B5 : (t1 q =? t0 q + qt q) && (t0 q mod qt q =? 0) && (head q =? t0 q / qt q mod qn q) = true).
  { apply andb_true_intro. split; [apply andb_true_intro; split|].
    - apply N.eqb_eq. exact Jt1.
    - apply N.eqb_eq. rewrite Jt0. rewrite N.mul_comm. apply N.mod_mul. exact Ht.
    - apply N.eqb_eq. exact Jh. }
  rewrite B1, B2, B3, B4, B5. reflexivity.
Qed.
