(* Lifting the per-operation simulation to whole histories. *)
From Coq Require Import List Arith NArith PArith Lia Bool Sorting.Sorted Permutation ZifyBool.
From DesVerif Require Import Common.Fuel Common.Codec CQueue.Model CQueue.Spec CQueue.Scan CQueue.Term CQueue.Fetch CQueue.AddInv CQueue.ListX CQueue.Refine CQueue.InvBits.
Import ListNotations.
Open Scope N_scope.

Definition Rst (s : st) (a : sst) : Prop := R (sq s) (ss a) (handles s) /\ handles s = shandles a.

Lemma pick_handle_In hs k h : pick_handle hs k = Some h -> In h hs.
Proof.
  unfold pick_handle. destruct hs as [|h0 hs]; [discriminate|]. intros H. eapply nth_error_In; exact H.
Qed.

Lemma step_sim s a o :
  Rst s a ->
  let '(s', x) := step true s o in
  let '(a', x') := sp_step a o in
  x = x' /\ Rst s' a'.
Proof.
  intros [HR Hh]. destruct o as [t p|k| | | | |]; cbn [step sp_step].
  - (* add *)
    destruct (t <? tcur (sq s)) eqn:E.
    + unfold add, sp_add. rewrite <- (R_tcur _ _ _ HR), E. split; [reflexivity|]. split; assumption.
    + apply N.ltb_ge in E. pose proof (R_add (sq s) (ss a) (handles s) t p HR E) as H.
      destruct (add (sq s) t p) as [[q' h] x]. destruct (sp_add (ss a) t p) as [[a' h'] x'].
      destruct H as [-> [-> [hd [-> H]]]]. split; [reflexivity|]. split; cbn [sq handles ss shandles]; [exact H|].
      rewrite Hh; reflexivity.
  - (* cancel *)
    assert (Ep : pick_handle (shandles a) k = pick_handle (handles s) k) by (rewrite Hh; reflexivity).
    rewrite Ep. destruct (pick_handle (handles s) k) as [[t i]|] eqn:Hp.
    + split; [reflexivity|]. split; cbn [sq handles ss shandles]; [|exact Hh].
      apply R_cancel; [exact HR|]. eapply pick_handle_In; exact Hp.
    + split; [reflexivity|]. split; assumption.
  - (* fetch *)
    pose proof (R_fetch (sq s) (ss a) (handles s) HR) as H.
    destruct (fetch_next (sq s)) as [q' x]. destruct (sp_fetch (ss a)) as [a' x'].
    destruct H as [-> H]. split; [reflexivity|]. split; cbn [sq handles ss shandles]; assumption.
  - (* len *)
    split; [|split; assumption]. f_equal. rewrite (R_len _ _ _ HR). unfold sp_len, pend.
    rewrite (R_zero _ _ _ HR), !app_length, (Permutation_length (R_perm _ _ _ HR)). reflexivity.
  - split; [|split; assumption]. f_equal. apply (R_tcur _ _ _ HR).
  - split; [|split; assumption]. apply (R_peek _ _ _ HR).
  - split; [|split; assumption]. f_equal. apply (R_inv_bits _ _ _ HR).
Qed.

Lemma run_sim ops : forall s a,
  Rst s a ->
  snd (run_from true s ops) = snd (sp_run_from a ops) /\
  Rst (fst (run_from true s ops)) (fst (sp_run_from a ops)).
Proof.
  induction ops as [|o ops IH]; intros s a HR; cbn [run_from sp_run_from].
  - split; [reflexivity|exact HR].
  - pose proof (step_sim s a o HR) as H.
    destruct (step true s o) as [s' x]. destruct (sp_step a o) as [a' x'].
    destruct H as [-> HR']. specialize (IH s' a' HR').
    destruct (run_from true s' ops) as [s'' xs]. destruct (sp_run_from a' ops) as [a'' xs'].
    cbn [fst snd] in *. destruct IH as [-> IH]. split; [reflexivity|exact IH].
Qed.

Lemma Rst_init n t : n <> 0 -> t <> 0 -> Rst (init n t) sp_init.
Proof. intros Hn Ht. split; [apply R_new; assumption|reflexivity]. Qed.

Lemma Rst_init_at n t ts : n <> 0 -> t <> 0 -> Rst (init_at n t ts) (sp_init_at ts).
Proof. intros Hn Ht. split; [apply R_new_at; assumption|reflexivity]. Qed.

Theorem cq_refines_at n t ts ops : n <> 0 -> t <> 0 -> run_ops_at true n t ts ops = sp_run_ops_at ts ops.
Proof. intros Hn Ht. apply run_sim. apply Rst_init_at; assumption. Qed.

Theorem cq_inv_reachable_at n t ts ops : n <> 0 -> t <> 0 ->
  Rst (fst (run_from true (init_at n t ts) ops)) (fst (sp_run_from (sp_init_at ts) ops)).
Proof. intros Hn Ht. apply run_sim. apply Rst_init_at; assumption. Qed.

(* C01.3: outputs do not depend on (n, t) *)
Theorem cq_refines n t ops : n <> 0 -> t <> 0 -> run_ops true n t ops = sp_run_ops ops.
Proof. intros Hn Ht. apply run_sim. apply Rst_init; assumption. Qed.

(* C01.1: the representation invariant holds in every reachable state *)
Theorem cq_inv_reachable n t ops : n <> 0 -> t <> 0 ->
  Rst (fst (run_from true (init n t) ops)) (fst (sp_run_from sp_init ops)).
Proof. intros Hn Ht. apply run_sim. apply Rst_init; assumption. Qed.

(* C01.2: the scan never runs out of fuel, i.e. the Rust loop terminates *)
Lemma sp_step_no_fuel a o : snd (sp_step a o) <> OOutOfFuel.
Proof.
  destruct o as [t p|k| | | | |]; cbn [sp_step].
  - unfold sp_add. destruct (t <? s_tcur (ss a)); [cbn; discriminate|]. destruct (t =? s_tcur (ss a)); cbn; discriminate.
  - destruct (pick_handle (shandles a) k) as [[? ?]|]; cbn; discriminate.
  - unfold sp_fetch. destruct (s_zero (ss a)); [destruct (s_rest (ss a))|]; cbn; discriminate.
  - cbn; discriminate.
  - cbn; discriminate.
  - cbn. unfold sp_peek. destruct (s_zero (ss a)); [destruct (s_rest (ss a))|]; discriminate.
  - cbn; discriminate.
Qed.

Lemma sp_run_no_fuel ops : forall a, ~ In OOutOfFuel (snd (sp_run_from a ops)).
Proof.
  induction ops as [|o ops IH]; intros a; cbn [sp_run_from]; [intros []|].
  pose proof (sp_step_no_fuel a o) as H. destruct (sp_step a o) as [a' x]. specialize (IH a').
  destruct (sp_run_from a' ops) as [a'' xs]. cbn [snd] in *. intros [E|Hin]; [exact (H E)|exact (IH Hin)].
Qed.

Theorem cq_scan_total n t ops : n <> 0 -> t <> 0 -> ~ In OOutOfFuel (run_ops true n t ops).
Proof. intros Hn Ht. rewrite cq_refines by assumption. apply sp_run_no_fuel. Qed.

Theorem cq_scan_total_at n t ts ops : n <> 0 -> t <> 0 -> ~ In OOutOfFuel (run_ops_at true n t ts ops).
Proof. intros Hn Ht. rewrite cq_refines_at by assumption. apply sp_run_no_fuel. Qed.

(* wire-level statement: the two runners agree on every input line *)
Theorem run_eq_sp_run input : run input = sp_run input.
Proof.
  unfold run, sp_run. destruct input as [|n [|t [|ts [|u0 r]]]]; try reflexivity.
  cbn zeta. destruct (n =? 0) eqn:En; [reflexivity|]. destruct (t =? 0) eqn:Et; [reflexivity|]. cbn [orb].
  apply N.eqb_neq in En, Et. destruct (ts =? 0) eqn:Es.
  - apply N.eqb_eq in Es. subst ts. rewrite cq_refines by assumption. rewrite N.mul_0_l. reflexivity.
  - rewrite cq_refines_at by assumption. reflexivity.
Qed.

(* ---- adaptive clients ----
   A client that chooses every next operation from the answers it has seen so
   far (the runtime's dispatch loop is such a client: it only calls add,
   fetch_next, peek_time and len) cannot distinguish the calendar queue from the
   specification, whatever n and t are. *)
Fixpoint interact (fuel : nat) (c : list out -> option op) (s : st) (hist : list out) : list out :=
  match fuel with
  | O => hist
  | S f => match c hist with
           | None => hist
           | Some o => let '(s', x) := step true s o in interact f c s' (hist ++ [x])
           end
  end.

Fixpoint sp_interact (fuel : nat) (c : list out -> option op) (a : sst) (hist : list out) : list out :=
  match fuel with
  | O => hist
  | S f => match c hist with
           | None => hist
           | Some o => let '(a', x) := sp_step a o in sp_interact f c a' (hist ++ [x])
           end
  end.

Lemma interact_sim fuel c : forall s a hist, Rst s a -> interact fuel c s hist = sp_interact fuel c a hist.
Proof.
  induction fuel as [|f IH]; intros s a hist HR; cbn [interact sp_interact]; [reflexivity|].
  destruct (c hist) as [o|]; [|reflexivity].
  pose proof (step_sim s a o HR) as H. destruct (step true s o) as [s' x]. destruct (sp_step a o) as [a' x'].
  destruct H as [-> HR']. apply IH. exact HR'.
Qed.

Theorem cq_indistinguishable n t ts fuel c : n <> 0 -> t <> 0 ->
  interact fuel c (init_at n t ts) [] = sp_interact fuel c (sp_init_at ts) [].
Proof. intros Hn Ht. apply interact_sim. apply Rst_init_at; assumption. Qed.
