(* List facts about upd / concat / remove_id / ins / sins used by the refinement. *)
From Coq Require Import List Arith NArith PArith Lia Bool Sorting.Sorted Permutation ZifyBool.
From DesVerif Require Import Common.Fuel Common.Codec CQueue.Model CQueue.Spec CQueue.Scan CQueue.Term CQueue.Fetch CQueue.AddInv.
Import ListNotations.
Open Scope N_scope.

Lemma concat_upd_split {A} (bs : list (list A)) i f b :
  nth_error bs i = Some b ->
  exists pre post, concat bs = pre ++ b ++ post /\ concat (upd i f bs) = pre ++ f b ++ post.
Proof.
  revert i; induction bs as [|c bs IH]; intros [|i] H; cbn in H; try discriminate.
  - injection H as ->. exists [], (concat bs). split; reflexivity.
  - destruct (IH i H) as [pre [post [E1 E2]]]. exists (c ++ pre), post.
    cbn [concat upd]. rewrite E1, E2, <- !app_assoc. split; reflexivity.
Qed.

Lemma in_concat_nth {A} (bs : list (list A)) e :
  In e (concat bs) <-> exists i b, nth_error bs i = Some b /\ In e b.
Proof.
  rewrite in_concat. split.
  - intros [b [Hb He]]. apply In_nth_error in Hb. destruct Hb as [i Hi]. exists i, b. split; assumption.
  - intros [i [b [Hi He]]]. exists b. split; [eapply nth_error_In; eassumption|assumption].
Qed.

(* ---- remove_id ---- *)
Lemma remove_id_None id l : remove_id id l = None <-> (forall e, In e l -> eid e <> id).
Proof.
  induction l as [|x l IH]; cbn [remove_id].
  - split; [intros _ e []|reflexivity].
  - destruct (eid x =? id) eqn:E.
    + apply N.eqb_eq in E. split; [discriminate|]. intros H. exfalso. apply (H x); [left; reflexivity|exact E].
    + apply N.eqb_neq in E. destruct (remove_id id l) as [r|].
      * split; [discriminate|]. intros H. assert (Some r = None) as X; [|discriminate X].
        apply IH. intros e He. apply H. right; exact He.
      * split; [|reflexivity]. intros _ e [<-|He]; [exact E|]. apply IH; [reflexivity|exact He].
Qed.

Lemma remove_id_Some id l l' :
  remove_id id l = Some l' ->
  exists e l1 l2, l = l1 ++ e :: l2 /\ l' = l1 ++ l2 /\ eid e = id.
Proof.
  revert l'; induction l as [|x l IH]; intros l' H; cbn [remove_id] in H; [discriminate|].
  destruct (eid x =? id) eqn:E.
  - injection H as <-. apply N.eqb_eq in E. exists x, [], l. repeat split; assumption.
  - destruct (remove_id id l) as [r|]; [|discriminate]. injection H as <-.
    destruct (IH r eq_refl) as [e [l1 [l2 [-> [-> He]]]]]. exists e, (x :: l1), l2. repeat split; assumption.
Qed.

Lemma nodup_eid_inj l a b : NoDup (map eid l) -> In a l -> In b l -> eid a = eid b -> a = b.
Proof.
  induction l as [|x l IH]; intros Hnd Ha Hb E; [destruct Ha|].
  cbn in Hnd. inversion Hnd as [|? ? Hnin Hnd']; subst.
  destruct Ha as [<-|Ha], Hb as [<-|Hb]; try reflexivity.
  - exfalso. apply Hnin. rewrite E. apply in_map; exact Hb.
  - exfalso. apply Hnin. rewrite <- E. apply in_map; exact Ha.
  - apply IH; assumption.
Qed.

Lemma remove_id_perm l e l' :
  NoDup (map eid l) -> In e l -> remove_id (eid e) l = Some l' -> Permutation l (e :: l').
Proof.
  intros Hnd Hin H. destruct (remove_id_Some _ _ _ H) as [x [l1 [l2 [-> [-> Hx]]]]].
  assert (x = e) as ->.
  { apply (nodup_eid_inj (l1 ++ x :: l2)); [exact Hnd| |exact Hin|exact Hx].
    apply in_or_app; right; left; reflexivity. }
  symmetry. apply Permutation_middle.
Qed.

Lemma remove_id_exists l e : In e l -> exists l', remove_id (eid e) l = Some l'.
Proof.
  intros Hin. destruct (remove_id (eid e) l) as [l'|] eqn:H; [eexists; reflexivity|].
  exfalso. rewrite remove_id_None in H. apply (H e Hin). reflexivity.
Qed.

Lemma remove_id_In id l l' x : remove_id id l = Some l' -> In x l' -> In x l.
Proof.
  intros H Hx. destruct (remove_id_Some _ _ _ H) as [e [l1 [l2 [-> [-> _]]]]].
  apply in_app_or in Hx. apply in_or_app. destruct Hx; [left|right; right]; assumption.
Qed.

Lemma sorted_app_remove {A} (P : A -> A -> Prop) l1 e l2 :
  StronglySorted P (l1 ++ e :: l2) -> StronglySorted P (l1 ++ l2).
Proof.
  induction l1 as [|x l1 IH]; cbn; intros H.
  - inversion H; assumption.
  - inversion H as [|? ? Hs Hall]; subst. constructor; [apply IH; exact Hs|].
    rewrite Forall_forall in *. intros y Hy. apply Hall. apply in_app_or in Hy. apply in_or_app.
    destruct Hy; [left|right; right]; assumption.
Qed.

Lemma remove_id_sorted (P : ev -> ev -> Prop) id l l' :
  StronglySorted P l -> remove_id id l = Some l' -> StronglySorted P l'.
Proof.
  intros Hs H. destruct (remove_id_Some _ _ _ H) as [e [l1 [l2 [-> [-> _]]]]].
  eapply sorted_app_remove; eassumption.
Qed.

(* ---- key order ---- *)
Definition key_sorted (l : list ev) := StronglySorted (fun a b => key_lt a b = true) l.

Lemma key_lt_asym a b : key_lt a b = true -> key_lt b a = true -> False.
Proof. unfold key_lt. intros H1 H2. lia. Qed.

Lemma key_lt_trans a b c : key_lt a b = true -> key_lt b c = true -> key_lt a c = true.
Proof. unfold key_lt. intros H1 H2. lia. Qed.

Lemma key_lt_total a b : key_lt a b = false -> a = b \/ key_lt b a = true \/ (etime a = etime b /\ eid a = eid b).
Proof. unfold key_lt. intros H. right. lia. Qed.

Lemma key_sorted_time_sorted l : key_sorted l -> time_sorted l.
Proof.
  unfold key_sorted, time_sorted. induction 1 as [|x l Hs IH Hall]; constructor; [exact IH|].
  rewrite Forall_forall in *. intros y Hy. specialize (Hall y Hy). unfold key_lt in Hall. lia.
Qed.

(* inserting a fresh (largest) id by time only keeps the (time,id) order *)
Lemma ins_key_sorted e l :
  key_sorted l -> (forall x, In x l -> eid x < eid e) -> key_sorted (ins e l).
Proof.
  unfold key_sorted. induction l as [|y l IH]; intros Hs Hid; cbn [ins].
  - repeat constructor.
  - inversion Hs as [|? ? Hs' Hall]; subst.
    destruct (etime e <? etime y) eqn:Hc.
    + apply N.ltb_lt in Hc. constructor; [exact Hs|]. constructor; [unfold key_lt; lia|].
      rewrite Forall_forall in *. intros z Hz. specialize (Hall z Hz). unfold key_lt in *. lia.
    + apply N.ltb_ge in Hc. constructor; [apply IH; [exact Hs'|intros x Hx; apply Hid; right; exact Hx]|].
      rewrite Forall_forall in *. intros z Hz. apply In_ins in Hz. destruct Hz as [->|Hz]; [|auto].
      specialize (Hid y (or_introl eq_refl)). unfold key_lt. lia.
Qed.

Lemma In_sins e x l : In x (sins e l) <-> x = e \/ In x l.
Proof.
  induction l as [|y l IH]; cbn [sins].
  - cbn. intuition.
  - destruct (key_lt e y); cbn [In]; [intuition|]. rewrite IH. intuition.
Qed.

Lemma sins_perm e l : Permutation (sins e l) (e :: l).
Proof.
  induction l as [|y l IH]; cbn [sins]; [reflexivity|].
  destruct (key_lt e y); [reflexivity|]. rewrite IH. apply perm_swap.
Qed.

Lemma sins_key_sorted e l :
  key_sorted l -> (forall x, In x l -> eid x < eid e) -> key_sorted (sins e l).
Proof.
  unfold key_sorted. induction l as [|y l IH]; intros Hs Hid; cbn [sins].
  - repeat constructor.
  - inversion Hs as [|? ? Hs' Hall]; subst.
    destruct (key_lt e y) eqn:Hc.
    + constructor; [exact Hs|]. constructor; [exact Hc|].
      rewrite Forall_forall in *. intros z Hz. specialize (Hall z Hz). eapply key_lt_trans; eassumption.
    + constructor; [apply IH; [exact Hs'|intros x Hx; apply Hid; right; exact Hx]|].
      rewrite Forall_forall in *. intros z Hz. apply In_sins in Hz. destruct Hz as [->|Hz]; [|auto].
      specialize (Hid y (or_introl eq_refl)). unfold key_lt in *. lia.
Qed.

Lemma max_time_ge bs e : In e (concat bs) -> etime e <= max_time bs.
Proof.
  induction bs as [|b bs IH]; cbn [concat max_time fold_right]; [intros []|].
  intros H. apply in_app_or in H.
  fold (max_time bs).
  assert (Hmono : forall l m, m <= fold_right (fun e m' => N.max (etime e) m') m l).
  { induction l as [|x l IHl]; intros m; cbn [fold_right]; [lia|]. specialize (IHl m). lia. }
  destruct H as [H|H].
  - clear IH. induction b as [|x b IHb]; [destruct H|]. cbn [fold_right].
    destruct H as [<-|H]; [lia|]. specialize (IHb H). lia.
  - specialize (IH H). specialize (Hmono b (max_time bs)). lia.
Qed.

Lemma NoDup_app_remove_l {A} (l l' : list A) : NoDup (l ++ l') -> NoDup l'.
Proof. induction l as [|x l IH]; cbn; intros H; [exact H|]. inversion H; auto. Qed.

Lemma NoDup_app_remove_r {A} (l l' : list A) : NoDup (l ++ l') -> NoDup l.
Proof.
  induction l as [|x l IH]; cbn; intros H; [constructor|].
  inversion H as [|? ? Hn Hd]; subst. constructor; [|auto].
  intros Hc. apply Hn. apply in_or_app. left; exact Hc.
Qed.
