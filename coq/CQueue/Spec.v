(* Abstract future event set: a FIFO of events scheduled for the current instant
   plus a list of the other pending events kept sorted by (time, id).  It does
   not mention bucket count or bucket width.  No proofs in this file. *)
From Coq Require Import List NArith Bool.
From DesVerif Require Import Common.Codec CQueue.Model.
Import ListNotations.
Open Scope N_scope.

Record sp := { s_tcur : N; s_zero : list ev; s_rest : list ev; s_next : N }.

Definition key_lt (a b : ev) : bool :=
  (etime a <? etime b) || ((etime a =? etime b) && (eid a <? eid b)).

Fixpoint sins (e : ev) (l : list ev) : list ev :=
  match l with
  | [] => [e]
  | x :: r => if key_lt e x then e :: x :: r else x :: sins e r
  end.

Definition sp_new_at (ts : N) : sp := {| s_tcur := ts; s_zero := []; s_rest := []; s_next := 0 |}.
Definition sp_new : sp := sp_new_at 0.

Definition sp_len (s : sp) : N := N.of_nat (length (s_zero s) + length (s_rest s)).

Definition sp_add (s : sp) (time pay : N) : sp * option (N * N) * out :=
  if time <? s_tcur s then (s, None, OPanic 1) else
  let e := {| etime := time; eid := s_next s; epay := pay |} in
  if time =? s_tcur s
  then ({| s_tcur := s_tcur s; s_zero := s_zero s ++ [e]; s_rest := s_rest s; s_next := s_next s + 1 |},
        Some (time, s_next s), OAdded)
  else ({| s_tcur := s_tcur s; s_zero := s_zero s; s_rest := sins e (s_rest s); s_next := s_next s + 1 |},
        Some (time, s_next s), OAdded).

(* cancel looks the event up by id only; the time in the handle is irrelevant *)
Definition sp_cancel (s : sp) (id : N) : sp :=
  match remove_id id (s_zero s) with
  | Some z' => {| s_tcur := s_tcur s; s_zero := z'; s_rest := s_rest s; s_next := s_next s |}
  | None => match remove_id id (s_rest s) with
            | Some r' => {| s_tcur := s_tcur s; s_zero := s_zero s; s_rest := r'; s_next := s_next s |}
            | None => s
            end
  end.

Definition sp_fetch (s : sp) : sp * out :=
  match s_zero s with
  | x :: z => ({| s_tcur := s_tcur s; s_zero := z; s_rest := s_rest s; s_next := s_next s |},
               OFetched (epay x) (etime x))
  | [] => match s_rest s with
          | x :: r => ({| s_tcur := etime x; s_zero := []; s_rest := r; s_next := s_next s |},
                       OFetched (epay x) (etime x))
          | [] => (s, OPanic 2)
          end
  end.

Definition sp_peek (s : sp) : out :=
  match s_zero s with
  | x :: _ => OPeek (Some (etime x))
  | [] => match s_rest s with
          | x :: _ => OPeek (Some (etime x))
          | [] => OPeek None
          end
  end.

Record sst := { ss : sp; shandles : list (N * N) }.

Definition sp_step (s : sst) (o : op) : sst * out :=
  match o with
  | Add t p => let '(q', h, x) := sp_add (ss s) t p in
               ({| ss := q'; shandles := match h with Some h => shandles s ++ [h] | None => shandles s end |}, x)
  | Cancel k => match pick_handle (shandles s) k with
                | Some (_, i) => ({| ss := sp_cancel (ss s) i; shandles := shandles s |}, OUnit)
                | None => (s, OUnit)
                end
  | Fetch => let '(q', x) := sp_fetch (ss s) in ({| ss := q'; shandles := shandles s |}, x)
  | Len => (s, OLen (sp_len (ss s)))
  | Time => (s, OTime (s_tcur (ss s)))
  | Peek => (s, sp_peek (ss s))
  | Check => (s, OInv [1; 1; 1; 1; 1])   (* the representation invariant always holds *)
  end.

Fixpoint sp_run_from (s : sst) (ops : list op) : sst * list out :=
  match ops with
  | [] => (s, [])
  | o :: r => let '(s', x) := sp_step s o in
              let '(s'', xs) := sp_run_from s' r in (s'', x :: xs)
  end.

Definition sp_init_at (ts : N) : sst := {| ss := sp_new_at ts; shandles := [] |}.
Definition sp_init : sst := sp_init_at 0.

Definition sp_run_ops (ops : list op) : list out := snd (sp_run_from sp_init ops).
Definition sp_run_ops_at (ts : N) (ops : list op) : list out := snd (sp_run_from (sp_init_at ts) ops).

(* same wire format as Model.run; n and t are read and ignored *)
Definition sp_run (input : list N) : list N :=
  match input with
  | n :: t :: ts :: u0 :: r =>
      let u := unit_of u0 in
      let ops := map (scale_op u) (decode_all dec_op r) in
      if (n =? 0) || (t =? 0) then [7]
      else flat_map enc_out (map (unscale_out u) (sp_run_ops_at (ts * u) ops))
  | _ => [7]
  end.
