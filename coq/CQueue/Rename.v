(* Event identifiers are only compared with each other: starting the sequence
   numbers of a future event set at any other value (as happens to process-global
   counters between two runs in one process) changes no answer. *)
From Coq Require Import List Arith NArith PArith Lia Bool ZifyBool.
From DesVerif Require Import Common.Fuel Common.Codec CQueue.Model CQueue.Spec.
Import ListNotations.
Open Scope N_scope.

Definition shift_ev (c : N) (e : ev) : ev := {| etime := etime e; eid := eid e + c; epay := epay e |}.

Definition shift_sp (c : N) (s : sp) : sp :=
  {| s_tcur := s_tcur s; s_zero := map (shift_ev c) (s_zero s); s_rest := map (shift_ev c) (s_rest s);
     s_next := s_next s + c |}.

Definition shift_h (c : N) (h : N * N) : N * N := (fst h, snd h + c).

Definition shift_sst (c : N) (a : sst) : sst :=
  {| ss := shift_sp c (ss a); shandles := map (shift_h c) (shandles a) |}.

Lemma key_lt_shift c a b : key_lt (shift_ev c a) (shift_ev c b) = key_lt a b.
Proof. unfold key_lt, shift_ev; cbn. destruct (etime a <? etime b), (etime a =? etime b); cbn; try reflexivity.
  destruct (eid a <? eid b) eqn:E1, (eid a + c <? eid b + c) eqn:E2; try reflexivity; lia. Qed.

Lemma sins_shift c e l : sins (shift_ev c e) (map (shift_ev c) l) = map (shift_ev c) (sins e l).
Proof.
  induction l as [|x l IH]; cbn [sins map]; [reflexivity|]. rewrite key_lt_shift.
  destruct (key_lt e x); cbn [map]; [reflexivity|]. rewrite IH. reflexivity.
Qed.

Lemma remove_id_shift c i l :
  remove_id (i + c) (map (shift_ev c) l) = option_map (map (shift_ev c)) (remove_id i l).
Proof.
  induction l as [|x l IH]; cbn [remove_id map option_map]; [reflexivity|].
  assert (E : (eid (shift_ev c x) =? i + c) = (eid x =? i)).
  { cbn. destruct (eid x =? i) eqn:E1, (eid x + c =? i + c) eqn:E2; try reflexivity; lia. }
  rewrite E. destruct (eid x =? i); [reflexivity|]. rewrite IH.
  destruct (remove_id i l); reflexivity.
Qed.

Lemma pick_handle_shift c hs k :
  pick_handle (map (shift_h c) hs) k = option_map (shift_h c) (pick_handle hs k).
Proof.
  unfold pick_handle. destruct hs as [|h hs]; [reflexivity|]. cbn [map]. rewrite <- map_cons.
  rewrite map_length. rewrite nth_error_map. reflexivity.
Qed.

Lemma sp_step_shift c a o :
  sp_step (shift_sst c a) o = (shift_sst c (fst (sp_step a o)), snd (sp_step a o)).
Proof.
  destruct o as [t p|k| | | | |]; cbn [sp_step].
  - unfold sp_add. cbn [shift_sst ss shift_sp s_tcur s_next s_zero s_rest shandles].
    destruct (t <? s_tcur (ss a)); [reflexivity|]. destruct (t =? s_tcur (ss a)); cbn [fst snd].
    + unfold shift_sst, shift_sp. cbn. rewrite !map_app. cbn. unfold shift_h, shift_ev. cbn.
      replace (s_next (ss a) + c + 1) with (s_next (ss a) + 1 + c) by lia. reflexivity.
    + unfold shift_sst, shift_sp. cbn. rewrite !map_app. cbn.
      change {| etime := t; eid := s_next (ss a) + c; epay := p |} with (shift_ev c {| etime := t; eid := s_next (ss a); epay := p |}).
      rewrite sins_shift. unfold shift_h. cbn.
      replace (s_next (ss a) + c + 1) with (s_next (ss a) + 1 + c) by lia. reflexivity.
  - cbn [shift_sst shandles]. rewrite pick_handle_shift. destruct (pick_handle (shandles a) k) as [[t i]|]; cbn [option_map shift_h fst snd]; [|reflexivity].
    f_equal. unfold shift_sst. cbn [ss shandles]. f_equal. unfold sp_cancel. cbn [shift_sp s_zero s_rest s_tcur s_next].
    rewrite !remove_id_shift. destruct (remove_id i (s_zero (ss a))); cbn [option_map]; [reflexivity|].
    destruct (remove_id i (s_rest (ss a))); reflexivity.
  - unfold sp_fetch. cbn [shift_sst ss shift_sp s_zero s_rest s_tcur s_next shandles].
    destruct (s_zero (ss a)) as [|x z]; cbn [map].
    + destruct (s_rest (ss a)) as [|x r]; cbn [map fst snd]; reflexivity.
    + reflexivity.
  - cbn [fst snd]. f_equal. f_equal. unfold sp_len. cbn. rewrite !map_length. reflexivity.
  - reflexivity.
  - cbn [fst snd]. f_equal. unfold sp_peek. cbn. destruct (s_zero (ss a)); cbn; [destruct (s_rest (ss a))|]; reflexivity.
  - reflexivity.
Qed.

Theorem outputs_independent_of_id_origin c ops : forall a,
  snd (sp_run_from (shift_sst c a) ops) = snd (sp_run_from a ops).
Proof.
  induction ops as [|o ops IH]; intros a; cbn [sp_run_from]; [reflexivity|].
  rewrite sp_step_shift. destruct (sp_step a o) as [a' x]. cbn [fst snd]. specialize (IH a').
  destruct (sp_run_from (shift_sst c a') ops) as [b xs]. destruct (sp_run_from a' ops) as [b' xs']. cbn [snd] in *.
  rewrite IH. reflexivity.
Qed.
