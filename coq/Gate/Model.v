(* Concrete model of des/src/net/gate.rs (Connections, Connection, PathIter,
   Gate::{kind,connect,path_iter,next_gate,path_end}) and of the message walk of
   des/src/net/runtime/events.rs (MessageExitingConnection::handle_with_sink) +
   des/src/net/runtime/ctx.rs (buf_send_at).  Function names and branch
   structure follow the Rust code.  No proofs in this file.

   Gates are a finite map (association list keyed by the gate id) to two
   optional slots.  A slot holds (peer gate, slot index used on the peer,
   channel?).  A channel is (latency, bitrate), jitter 0.  Each direction of a
   hop has its own Channel instance (Gate::connect dups it).  Messages are
   treated independently: every hop delays by the idle-channel duration
   tx(len) + latency.  That is the code's behaviour as long as no message meets
   a busy channel, i.e. as long as the traffic of ONE direction of a hop does
   not overlap in time (busy / drop / queue is C07's subject); opposite
   directions may overlap freely.

   std::sync::Mutex poisoning is modelled because it is observable once the
   documented panics of connect are caught: the assert "gates allready connected
   to multiple points" fires while both gates' guards are held, which poisons
   both mutexes; every later lock of such a gate panics. *)
From Coq Require Import List NArith Bool.
From DesVerif Require Import Common.Codec.
Import ListNotations.
Open Scope N_scope.

(* slot index of Connections.connections : [Option<Connection>; 2] *)
Inductive sid := S0 | S1.
(* [1, 0][endpoint_id] *)
Definition opp (i : sid) : sid := match i with S0 => S1 | S1 => S0 end.
Definition sid_eqb (i j : sid) : bool :=
  match i, j with S0, S0 => true | S1, S1 => true | _, _ => false end.

(* a channel: (latency ns, bitrate bit/s); jitter 0, bitrate 0 = unlimited *)
Definition chan := (N * N)%type.
(* every message of a script is 72 bytes long (64 header + u64 content) *)
Definition MSG_BITS : N := 576.
(* ChannelMetrics::calculate_busy: len*8/bitrate seconds; scripts only use bitrates
   for which this is a whole number of ns (see [norm_br]) *)
Definition tx (br : N) : N := if br =? 0 then 0 else (MSG_BITS * 1000000000) / br.
(* ChannelMetrics::calculate_duration of an idle channel, jitter 0: latency + transmission time *)
Definition hop_delay (c : chan) : N := tx (snd c) + fst c.

Record conn := { endpoint : N; endpoint_id : sid; channel : option chan }.
Record gate := { owner : N; c0 : option conn; c1 : option conn }.
Definition gates := list (N * gate).

Definition get (i : sid) (x : gate) : option conn := match i with S0 => c0 x | S1 => c1 x end.

Fixpoint lookup (gs : gates) (g : N) : option gate :=
  match gs with
  | [] => None
  | (k, x) :: r => if k =? g then Some x else lookup r g
  end.

Fixpoint upd (gs : gates) (g : N) (f : gate -> gate) : gates :=
  match gs with
  | [] => []
  | (k, x) :: r => (if k =? g then (k, f x) else (k, x)) :: upd r g f
  end.

Definition slot (gs : gates) (g : N) (i : sid) : option conn :=
  match lookup gs g with Some x => get i x | None => None end.

Definition owner_of (gs : gates) (g : N) : N :=
  match lookup gs g with Some x => owner x | None => 0 end.

Definition is_some {A} (o : option A) : bool := match o with Some _ => true | None => false end.

(* Connections::len *)
Definition len (x : gate) : nat :=
  ((if is_some (c0 x) then 1 else 0) + (if is_some (c1 x) then 1 else 0))%nat.

(* Connections::put: first free slot *)
Definition put (c : conn) (x : gate) : gate :=
  match c0 x with
  | None => {| owner := owner x; c0 := Some c; c1 := c1 x |}
  | Some _ =>
      match c1 x with
      | None => {| owner := owner x; c0 := c0 x; c1 := Some c |}
      | Some _ => x                       (* unreachable!() *)
      end
  end.

(* `conns_pos = conns.len()` used as `endpoint_id`; only called with len < 2 *)
Definition sid_of_len (n : nat) : sid := match n with O => S0 | _ => S1 end.

Inductive gkind := Standalone | Endpoint | Transit.
Definition kind_of (x : gate) : gkind :=
  match len x with O => Standalone | S O => Endpoint | _ => Transit end.

(* the loop `if Arc::ptr_eq(&con.endpoint, &other) { return; }` *)
Definition connected_to (x : gate) (h : N) : bool :=
  (match c0 x with Some c => endpoint c =? h | None => false end) ||
  (match c1 x with Some c => endpoint c =? h | None => false end).

Record state := { sgates : gates; poisoned : list N }.

Definition is_poisoned (s : state) (g : N) : bool := existsb (N.eqb g) (poisoned s).
Definition poison (s : state) (l : list N) : state :=
  {| sgates := sgates s; poisoned := l ++ poisoned s |}.

Inductive out :=
| OUnit                                (* connect returned *)
| OKind (k : gkind)
| ONext (h : option N)
| OEnd (h : option N)
| OIter (p : option (list conn))       (* None: transit gate, no iterator *)
| OSent
| ORule
| OSpawn
| OMask
| OInvalid                             (* script names a gate that does not exist *)
| OPanic (site : N)
| OOutOfFuel.
(* panic sites: 1 = "Cannot connect gate to itself."
                2 = "Cannot add connection, gates allready connected to multiple points"
                3 = Connection::new assertion (send on a transit gate)
                4 = poisoned lock in kind / next_hop
                5 = poisoned lock in connect *)

(* Gate::connect(self = a, other = b, channel) *)
Definition connect (s : state) (a b : N) (ch : option chan) : state * out :=
  match lookup (sgates s) a, lookup (sgates s) b with
  | Some ga, Some gb =>
      if a =? b then (s, OPanic 1)                               (* assert!(!Arc::ptr_eq(..)) *)
      else if is_poisoned s a then (s, OPanic 5)                 (* self.connections.try_lock().expect(..) *)
      else if connected_to ga b then (s, OUnit)                  (* allready connected: return *)
      else if is_poisoned s b then (poison s [a], OPanic 5)      (* other..try_lock().expect(..), guard of a held *)
      else if (Nat.ltb (len ga) 2) && (Nat.ltb (len gb) 2) then
        let ca := {| endpoint := b; endpoint_id := sid_of_len (len gb); channel := ch |} in
        let cb := {| endpoint := a; endpoint_id := sid_of_len (len ga); channel := ch |} in
        ({| sgates := upd (upd (sgates s) a (put ca)) b (put cb); poisoned := poisoned s |}, OUnit)
      else (poison s [a; b], OPanic 2)                           (* assert!(conns_pos < 2 && other_conns_pos < 2), both guards held *)
  | _, _ => (s, OInvalid)
  end.

(* Connection::new_unchecked *)
Definition new_unchecked (g : N) : conn := {| endpoint := g; endpoint_id := S1; channel := None |}.

(* Connection::next_hop *)
Definition next_hop (gs : gates) (c : conn) : option conn :=
  slot gs (endpoint c) (opp (endpoint_id c)).

(* PathIter, collected; None = out of fuel *)
Fixpoint walk (fuel : nat) (gs : gates) (c : conn) : option (list conn) :=
  match fuel with
  | O => None
  | S f =>
      match next_hop gs c with
      | None => Some []
      | Some n => match walk f gs n with Some p => Some (n :: p) | None => None end
      end
  end.

Definition fuel_of (gs : gates) : nat := (2 * length gs + 1)%nat.

(* Gate::path_iter(..).collect(): outer None = transit gate *)
Definition path_iter (gs : gates) (g : N) : option (option (list conn)) :=
  match lookup gs g with
  | None => None
  | Some x => match kind_of x with
              | Transit => None
              | _ => Some (walk (fuel_of gs) gs (new_unchecked g))
              end
  end.

(* handle_with_sink, with the MessageExitingConnection event that a channel
   schedules at now + latency folded into the same recursion (the event handler
   is handle_with_sink again, on the connection that was exited).
   [last] is msg.header.last_gate.  Result: (receiving module, time, last_gate). *)
Fixpoint handle_with_sink (fuel : nat) (gs : gates) (cur : conn) (now last : N) : option (N * N * N) :=
  match fuel with
  | O => None
  | S f =>
      match next_hop gs cur with
      | Some next =>
          (* msg.header.last_gate = Some(next.endpoint) *)
          match channel next with
          | Some ch => handle_with_sink f gs next (now + hop_delay ch) (endpoint next)  (* ch.send_message(msg, next, sink): idle channel *)
          | None => handle_with_sink f gs next now (endpoint next)              (* cur = next *)
          end
      | None => Some (owner_of gs (endpoint cur), now, last)                     (* HandleMessageEvent at SimTime::now() *)
      end
  end.

(* The header fields of the message OBJECT that C08 talks about.  A message that
   was delivered and is sent on by the receiving module (forwarded, echoed) still
   carries the values stamped on its previous leg.  None = ModuleId::NULL / no gate. *)
Record header := { h_sender : option N; h_receiver : option N; h_last : option N }.
Definition fresh_header : header := {| h_sender := None; h_receiver := None; h_last := None |}.
Definition hN (o : option N) : N := match o with Some x => x | None => 0 end.

Record delivery := { d_to : N; d_time : N; d_sender : N; d_receiver : N; d_last : N }.
(* the header of the delivered object, as handle_message sees it *)
Definition hdr_of (d : delivery) : header :=
  {| h_sender := Some (d_sender d); h_receiver := Some (d_receiver d); h_last := Some (d_last d) |}.

Inductive sres := SDelivered (d : delivery) | SPanic (site : N) | SOutOfFuel.

(* buf_send_at(msg, gate, send_time) called by module [cur] on a message whose
   header is [h]: `msg.header.sender_module_id = current().id()` is unconditional.
   Whether the walk starts inline (send_time = now) or from a
   MessageExitingConnection event at send_time, it is handle_with_sink on
   Connection::new(gate) at send_time (which overwrites last_gate);
   HandleMessageEvent::handle stamps receiver_module_id with the handling module. *)
Definition buf_send_at (gs : gates) (h : header) (cur g send_time : N) : sres :=
  let h1 := {| h_sender := Some cur; h_receiver := h_receiver h; h_last := h_last h |} in
  match lookup gs g with
  | None => SPanic 0
  | Some x =>
      if Nat.ltb 1 (len x) then SPanic 3                         (* Connection::new: assert!(len <= 1) *)
      else match handle_with_sink (fuel_of gs) gs (new_unchecked g) send_time g with
           | Some (o, t, l) =>
               SDelivered {| d_to := o; d_time := t; d_sender := hN (h_sender h1); d_receiver := o; d_last := l |}
           | None => SOutOfFuel
           end
  end.

(* RELAY: a forwarding rule (g, g', dl) makes the module that receives a message
   through gate g (header.last_gate = g) send THE RECEIVED message object on gate
   g' after dl ns, as long as the hop budget carried in the message content is
   not used up.  g' = g echoes the message back along the chain it arrived on. *)
Definition rule := (N * N * N)%type.
Fixpoint find_rule (rules : list rule) (g : N) : option (N * N) :=
  match rules with
  | [] => None
  | (a, b, dl) :: r => if a =? g then Some (b, dl) else find_rule r g
  end.

(* all legs of one message: (leg number, result); [budget] = relays still allowed *)
Fixpoint legs (budget : nat) (gs : gates) (rules : list rule) (h : header) (cur g send_time leg : N)
  : list (N * sres) :=
  let r := buf_send_at gs h cur g send_time in
  (leg, r) ::
  match r, budget with
  | SDelivered d, S b' =>
      match find_rule rules (d_last d) with
      | Some (g', dl) => legs b' gs rules (hdr_of d) (d_to d) g' (d_time d + dl) (leg + 1)
      | None => []
      end
  | _, _ => []
  end.

(* channel.rs Buffer (the queue of a busy ChannelDropBehaviour::Queue channel):
   VecDeque<(Message, Connection)>; a message is a number here *)
Definition buffer := list (N * conn).
(* Buffer::enqueue: `con.channel = None; packets.push_back((msg, con))` *)
Definition enqueue (b : buffer) (m : N) (con : conn) : buffer :=
  b ++ [(m, {| endpoint := endpoint con; endpoint_id := endpoint_id con; channel := None |})].
(* Buffer::dequeue: pop_front *)
Definition dequeue (b : buffer) : option ((N * conn) * buffer) :=
  match b with [] => None | x :: r => Some (x, r) end.
(* send_message on the dequeued pair: `Connection { channel: Some(self.clone()), ..via }` *)
Definition restore (ch : chan) (via : conn) : conn :=
  {| endpoint := endpoint via; endpoint_id := endpoint_id via; channel := Some ch |}.

(* ---- scripts ---- *)
Inductive op :=
| Connect (a b : N) (ch : option chan)
| Kind (g : N) | NextGate (g : N) | PathEnd (g : N) | PathIter (g : N)
| Send (g t d b : N)          (* b = relay budget *)
| Relay (g g' d : N)
(* run time, inside at_sim_start: module [caller] executes the call; who executes it does not matter *)
| Spawn (caller target size : N)              (* target.spawner().gate(name, size): the gates belong to [target] *)
| RConnect (caller a b : N) (ch : option chan)
(* m <> 0: arrival times are not reported (scripts in which messages wait in channel queues: the waiting time is C07's subject) *)
| Mask (m : N).

Definition any_poisoned (s : state) (l : list N) : bool := existsb (is_poisoned s) l.

Definition q_kind (s : state) (g : N) : out :=
  match lookup (sgates s) g with
  | None => OInvalid
  | Some x => if is_poisoned s g then OPanic 4 else OKind (kind_of x)
  end.

(* path_iter()? then iteration; every gate whose mutex is locked on the way must be unpoisoned *)
Definition q_iter (s : state) (g : N) : out :=
  match lookup (sgates s) g with
  | None => OInvalid
  | Some x =>
      if is_poisoned s g then OPanic 4 else
      match path_iter (sgates s) g with
      | None => OIter None
      | Some None => OOutOfFuel
      | Some (Some p) => if any_poisoned s (map endpoint p) then OPanic 4 else OIter (Some p)
      end
  end.

Definition q_end (s : state) (g : N) : out :=
  match q_iter s g with
  | OIter None => OEnd None
  | OIter (Some p) => OEnd (match rev p with c :: _ => Some (endpoint c) | [] => None end)
  | o => o
  end.

(* nth(0): a single next_hop, which locks only the gate itself *)
Definition q_next (s : state) (g : N) : out :=
  match lookup (sgates s) g with
  | None => OInvalid
  | Some x =>
      if is_poisoned s g then OPanic 4 else
      match kind_of x with
      | Transit => ONext None
      | _ => ONext (match next_hop (sgates s) (new_unchecked g) with Some c => Some (endpoint c) | None => None end)
      end
  end.

Fixpoint mk_gates (k : N) (owners : list N) : gates :=
  match owners with
  | [] => []
  | o :: r => (k, {| owner := o; c0 := None; c1 := None |}) :: mk_gates (k + 1) r
  end.

(* Spawner::gate: Gate::new(owner = the module the spawner is bound to, ..) for
   each position, appended to that module's gate list; ids continue the numbering *)
Definition spawn (s : state) (target size : N) : state :=
  {| sgates := sgates s ++ mk_gates (N.of_nat (length (sgates s))) (repeat target (N.to_nat size));
     poisoned := poisoned s |}.

Definition step (s : state) (o : op) : state * out :=
  match o with
  | Connect a b ch => connect s a b ch
  | Kind g => (s, q_kind s g)
  | NextGate g => (s, q_next s g)
  | PathEnd g => (s, q_end s g)
  | PathIter g => (s, q_iter s g)
  | Send g _ _ _ => (s, match lookup (sgates s) g with Some _ => OSent | None => OInvalid end)
  | Relay g g' _ => (s, match lookup (sgates s) g, lookup (sgates s) g' with Some _, Some _ => ORule | _, _ => OInvalid end)
  | Spawn _ target size => (spawn s target size, OSpawn)
  | RConnect _ a b ch => connect s a b ch
  | Mask _ => (s, OMask)
  end.

Fixpoint exec (s : state) (ops : list op) : state * list out :=
  match ops with
  | [] => (s, [])
  | o :: r => let '(s', x) := step s o in
              let '(s'', xs) := exec s' r in (s'', x :: xs)
  end.

(* the sends of a script, in order, restricted to existing gates *)
Fixpoint sends_of (gs : gates) (ops : list op) : list (N * N * N * N) :=
  match ops with
  | [] => []
  | Send g t d b :: r => match lookup gs g with
                         | Some _ => (g, t, d, b) :: sends_of gs r
                         | None => sends_of gs r
                         end
  | _ :: r => sends_of gs r
  end.

(* the forwarding rules of a script, in order, restricted to existing gates *)
Fixpoint rules_of (gs : gates) (ops : list op) : list rule :=
  match ops with
  | [] => []
  | Relay g g' d :: r => match lookup gs g, lookup gs g' with
                         | Some _, Some _ => (g, g', d) :: rules_of gs r
                         | _, _ => rules_of gs r
                         end
  | _ :: r => rules_of gs r
  end.

(* send number k: at time t the owner of g calls send_at(fresh msg, g, t + d);
   the message is relayed at most b times *)
Definition send_one (gs : gates) (rules : list rule) (x : N * N * N * N) : list (N * sres) :=
  let '(g, t, d, b) := x in legs (N.to_nat b) gs rules fresh_header (owner_of gs g) g (t + d) 0.

Definition init (owners : list N) : state := {| sgates := mk_gates 0 owners; poisoned := [] |}.

(* ---- wire format ---- *)
(* script: nmod L (owner size){L/2} op*
     op = 1 a b l   connect(a, b, channel: l = 0 none, else latency l-1 ns, bitrate 0)
        | 9 a b l br  as 1, with bitrate br bit/s
        | 2 g kind | 3 g next_gate | 4 g path_end | 5 g path_iter
        | 6 g t d   at time t the owner of g calls send_at(msg, g, t+d)
        | 7 g g' d  forwarding rule: a message received through g is sent on, as the same object, on g' after d ns
        | 8 g t d b as 6, with a budget of min(b,8) relays
        | 10 c m sz  at sim start module c calls m.spawner().gate(name, sz): sz new gates owned by m
        | 11 c a b l br  at sim start module c calls a.connect(b, channel)
        | 12 a b l br q / 13 c a b l br q  as 9 / 11 with drop behaviour q: 0 Drop, 1 Queue(None), q >= 2 Queue(Some(q-2))
                    (which gate a message is routed to does not depend on it: a queued message resumes on the
                    connection it was offered on, see [enqueue] / [dequeue] / [restore] below)
        | 14 m      m <> 0: arrival times are reported as 0
      Build-time operations (1-5, 9) are executed first, in order; then, inside
      at_sim_start, the run-time ones (6-8, 10, 11) in order; records come out in that order. *)
Definition clamp (lo hi x : N) : N := N.max lo (N.min hi x).

Fixpoint groups (nm : N) (l : list N) : list N :=
  match l with
  | o :: sz :: r => repeat (o mod nm) (N.to_nat (clamp 1 6 sz)) ++ groups nm r
  | _ => []
  end.

(* bitrates whose transmission time for MSG_BITS is not a whole number of ns are read as 0 *)
Definition norm_br (br : N) : N :=
  if br =? 0 then 0 else if (MSG_BITS * 1000000000) mod br =? 0 then br else 0.
Definition dec_ch (l br : N) : option chan := if l =? 0 then None else Some (l - 1, norm_br br).

Definition dec_op (nm : N) (l : list N) : option (op * list N) :=
  match l with
  | 1 :: a :: b :: c :: r => Some (Connect a b (dec_ch c 0), r)
  | 9 :: a :: b :: c :: br :: r => Some (Connect a b (dec_ch c br), r)
  | 2 :: g :: r => Some (Kind g, r)
  | 3 :: g :: r => Some (NextGate g, r)
  | 4 :: g :: r => Some (PathEnd g, r)
  | 5 :: g :: r => Some (PathIter g, r)
  | 6 :: g :: t :: d :: r => Some (Send g t d 0, r)
  | 7 :: g :: g' :: d :: r => Some (Relay g g' d, r)
  | 8 :: g :: t :: d :: b :: r => Some (Send g t d (N.min b 8), r)
  | 10 :: c :: tg :: sz :: r => Some (Spawn (c mod nm) (tg mod nm) (clamp 1 6 sz), r)
  | 11 :: c :: a :: b :: l :: br :: r => Some (RConnect (c mod nm) a b (dec_ch l br), r)
  | 12 :: a :: b :: l :: br :: q :: r => Some (Connect a b (dec_ch l br), r)
  | 13 :: c :: a :: b :: l :: br :: q :: r => Some (RConnect (c mod nm) a b (dec_ch l br), r)
  | 14 :: m :: r => Some (Mask m, r)
  | _ => None
  end.

Definition enc_opt (o : option N) : N := match o with Some x => x + 1 | None => 0 end.
Definition enc_kind (k : gkind) : N := match k with Standalone => 0 | Endpoint => 1 | Transit => 2 end.

Definition enc_out (o : out) : list N :=
  match o with
  | OUnit => [1]
  | OKind k => [2; enc_kind k]
  | ONext h => [3; enc_opt h]
  | OEnd h => [4; enc_opt h]
  | OIter None => [5; 0]
  | OIter (Some p) => 5 :: 1 :: N.of_nat (length p) ::
      flat_map (fun c => [endpoint c; enc_opt (option_map fst (channel c)); match channel c with Some ch => snd ch | None => 0 end]) p
  | OSent => [6]
  | ORule => [14]
  | OSpawn => [16]
  | OMask => [17]
  | OInvalid => [7]
  | OOutOfFuel => [8]
  | OPanic s => [9; s]
  end.

Definition enc_leg (mask : bool) (k : N) (x : N * sres) : list N :=
  match x with
  | (leg, SDelivered d) => [11; k; leg; d_to d; if mask then 0 else d_time d; d_sender d; d_receiver d; d_last d + 1]
  | (leg, SPanic s) => [12; k; leg; s]
  | (_, SOutOfFuel) => [8]
  end.

Fixpoint enc_sends (mask : bool) (k : N) (l : list (list (N * sres))) : list N :=
  match l with
  | [] => []
  | x :: r => flat_map (enc_leg mask k) x ++ enc_sends mask (k + 1) r
  end.

Definition run_script (owners : list N) (ops : list op) : list N :=
  let '(s, outs) := exec (init owners) ops in
  flat_map enc_out outs ++
  match poisoned s with
  | [] => enc_sends (existsb (fun o => match o with Mask m => negb (m =? 0) | _ => false end) ops) 0 (map (send_one (sgates s) (rules_of (sgates s) ops)) (sends_of (sgates s) ops))
  | _ => [10]          (* a mutex is poisoned: the simulation is not run *)
  end.

Definition is_rt (o : op) : bool :=
  match o with Send _ _ _ _ | Relay _ _ _ | Spawn _ _ _ | RConnect _ _ _ _ | Mask _ => true | _ => false end.

Definition run (input : list N) : list N :=
  match input with
  | nmod :: r =>
      let nm := clamp 1 8 nmod in
      let '(grp, rest) := take_lp r in
      let ops := decode_all (dec_op nm) rest in
      run_script (groups nm grp) (filter (fun o => negb (is_rt o)) ops ++ filter is_rt ops)
  | [] => [7]
  end.
