(* The representation invariant of the gate table and its preservation by
   Gate::connect, for every sequence of operations (panicking ones included). *)
From Coq Require Import List Arith NArith Lia Bool.
From DesVerif Require Import Gate.Model Gate.Map.
Import ListNotations.
Open Scope N_scope.

(* if g.slot i = (h, j) then h.slot j = (g, i), with the same channel metrics *)
Definition Sym (gs : gates) : Prop :=
  forall g i c, slot gs g i = Some c ->
    exists c', slot gs (endpoint c) (endpoint_id c) = Some c' /\
               endpoint c' = g /\ endpoint_id c' = i /\ channel c' = channel c.
(* slot 1 is used only if slot 0 is *)
Definition Fill (gs : gates) : Prop := forall g, slot gs g S1 <> None -> slot gs g S0 <> None.
Definition NoSelf (gs : gates) : Prop := forall g i c, slot gs g i = Some c -> endpoint c <> g.
Definition Distinct (gs : gates) : Prop :=
  forall g c c', slot gs g S0 = Some c -> slot gs g S1 = Some c' -> endpoint c <> endpoint c'.

Record Inv (gs : gates) : Prop :=
  { inv_sym : Sym gs; inv_fill : Fill gs; inv_noself : NoSelf gs; inv_distinct : Distinct gs }.

Definition connected (gs : gates) (a b : N) : Prop := exists i c, slot gs a i = Some c /\ endpoint c = b.

Lemma connected_sym gs a b : Sym gs -> connected gs a b -> connected gs b a.
Proof.
  intros HS [i [c [Hc He]]]. destruct (HS a i c Hc) as [c' [Hc' [E1 _]]].
  exists (endpoint_id c), c'. subst b. split; assumption.
Qed.

(* what a successful, state-changing connect does, in terms of slots *)
Record Linked (gs gs' : gates) (a : N) (ia : sid) (b : N) (ib : sid) (ch : option chan) : Prop := {
  lk_ne : a <> b;
  lk_free_a : slot gs a ia = None;
  lk_free_b : slot gs b ib = None;
  lk_fill_a : ia = S1 -> slot gs a S0 <> None;
  lk_fill_b : ib = S1 -> slot gs b S0 <> None;
  lk_empty_a : ia = S0 -> slot gs a S1 = None;
  lk_empty_b : ib = S0 -> slot gs b S1 = None;
  lk_new_a : forall i c, slot gs a i = Some c -> endpoint c <> b;
  lk_new_b : forall i c, slot gs b i = Some c -> endpoint c <> a;
  lk_slot : forall g i, slot gs' g i =
     if (g =? a) && sid_eqb i ia then Some {| endpoint := b; endpoint_id := ib; channel := ch |}
     else if (g =? b) && sid_eqb i ib then Some {| endpoint := a; endpoint_id := ia; channel := ch |}
     else slot gs g i }.

Lemma and_eqb g a i ia : (g =? a) && sid_eqb i ia = true -> g = a /\ i = ia.
Proof. intros H. apply andb_true_iff in H. destruct H as [H1 H2]. apply N.eqb_eq in H1. apply sid_eqb_eq in H2. split; assumption. Qed.

Lemma and_eqb_refl a ia : (a =? a) && sid_eqb ia ia = true.
Proof. rewrite N.eqb_refl, sid_eqb_refl. reflexivity. Qed.

Lemma and_eqb_ne g a i ia : g <> a -> (g =? a) && sid_eqb i ia = false.
Proof. intros H. apply N.eqb_neq in H. rewrite H. reflexivity. Qed.

Lemma Linked_sym gs gs' a ia b ib ch : Sym gs -> Linked gs gs' a ia b ib ch -> Sym gs'.
Proof.
  intros HS [Hne Hfa Hfb _ _ _ _ _ _ Hsl] g i c H. rewrite Hsl in H.
  destruct ((g =? a) && sid_eqb i ia) eqn:Ea.
  - apply and_eqb in Ea. destruct Ea as [-> ->]. injection H as <-. cbn [endpoint endpoint_id channel].
    exists {| endpoint := a; endpoint_id := ia; channel := ch |}. rewrite Hsl.
    rewrite (and_eqb_ne b a ib ia) by (intros E; apply Hne; symmetry; exact E).
    rewrite and_eqb_refl. repeat split; reflexivity.
  - destruct ((g =? b) && sid_eqb i ib) eqn:Eb.
    + apply and_eqb in Eb. destruct Eb as [-> ->]. injection H as <-. cbn [endpoint endpoint_id channel].
      exists {| endpoint := b; endpoint_id := ib; channel := ch |}. rewrite Hsl.
      rewrite and_eqb_refl. repeat split; reflexivity.
    + destruct (HS g i c H) as [c' [Hc' HE]]. exists c'. split; [|exact HE]. rewrite Hsl.
      destruct ((endpoint c =? a) && sid_eqb (endpoint_id c) ia) eqn:Ec.
      * apply and_eqb in Ec. destruct Ec as [E1 E2]. rewrite E1, E2, Hfa in Hc'. discriminate.
      * destruct ((endpoint c =? b) && sid_eqb (endpoint_id c) ib) eqn:Ec'; [|exact Hc'].
        apply and_eqb in Ec'. destruct Ec' as [E1 E2]. rewrite E1, E2, Hfb in Hc'. discriminate.
Qed.

Lemma Linked_fill gs gs' a ia b ib ch : Fill gs -> Linked gs gs' a ia b ib ch -> Fill gs'.
Proof.
  intros HF [Hne _ _ Hla Hlb _ _ _ _ Hsl] g H. rewrite Hsl in *.
  pose proof (proj2 (N.eqb_neq a b) Hne) as Eab.
  destruct (N.eqb_spec g a) as [Ega|Nga]; [subst g|].
  - rewrite Eab in *. cbn [andb] in *. destruct ia; cbn [sid_eqb] in *; [discriminate|]. apply Hla. reflexivity.
  - cbn [andb] in *. destruct (N.eqb_spec g b) as [Egb|Ngb]; [subst g|]; cbn [andb] in *.
    + destruct ib; cbn [sid_eqb] in *; [discriminate|]. apply Hlb. reflexivity.
    + apply HF. exact H.
Qed.

Lemma Linked_noself gs gs' a ia b ib ch : NoSelf gs -> Linked gs gs' a ia b ib ch -> NoSelf gs'.
Proof.
  intros HN [Hne _ _ _ _ _ _ _ _ Hsl] g i c H. rewrite Hsl in H.
  destruct ((g =? a) && sid_eqb i ia) eqn:Ea.
  - apply and_eqb in Ea. destruct Ea as [-> ->]. injection H as <-. cbn [endpoint]. intros E. apply Hne. symmetry; exact E.
  - destruct ((g =? b) && sid_eqb i ib) eqn:Eb.
    + apply and_eqb in Eb. destruct Eb as [-> ->]. injection H as <-. cbn [endpoint]. exact Hne.
    + eapply HN; exact H.
Qed.

Lemma Linked_distinct gs gs' a ia b ib ch : Distinct gs -> Linked gs gs' a ia b ib ch -> Distinct gs'.
Proof.
  intros HD [Hne Hfa Hfb _ _ Hea Heb Hna Hnb Hsl] g c c' H0 H1. rewrite Hsl in H0, H1.
  pose proof (proj2 (N.eqb_neq a b) Hne) as Eab.
  destruct (N.eqb_spec g a) as [Ega|Nga]; [subst g|].
  - rewrite Eab in *. cbn [andb] in *. destruct ia; cbn [sid_eqb] in *.
    + rewrite (Hea eq_refl) in H1. discriminate.
    + injection H1 as <-. cbn [endpoint]. eapply Hna; exact H0.
  - cbn [andb] in *. destruct (N.eqb_spec g b) as [Egb|Ngb]; [subst g|]; cbn [andb] in *.
    + destruct ib; cbn [sid_eqb] in *.
      * rewrite (Heb eq_refl) in H1. discriminate.
      * injection H1 as <-. cbn [endpoint]. eapply Hnb; exact H0.
    + eapply HD; eassumption.
Qed.

Lemma Linked_inv gs gs' a ia b ib ch : Inv gs -> Linked gs gs' a ia b ib ch -> Inv gs'.
Proof.
  intros [H1 H2 H3 H4] L. split.
  - eapply Linked_sym; eassumption.
  - eapply Linked_fill; eassumption.
  - eapply Linked_noself; eassumption.
  - eapply Linked_distinct; eassumption.
Qed.

Lemma Linked_mono gs gs' a ia b ib ch g i c :
  Linked gs gs' a ia b ib ch -> slot gs g i = Some c -> slot gs' g i = Some c.
Proof.
  intros [_ Hfa Hfb _ _ _ _ _ _ Hsl] H. rewrite Hsl.
  destruct ((g =? a) && sid_eqb i ia) eqn:Ea.
  - apply and_eqb in Ea. destruct Ea as [-> ->]. rewrite Hfa in H. discriminate.
  - destruct ((g =? b) && sid_eqb i ib) eqn:Eb; [|exact H].
    apply and_eqb in Eb. destruct Eb as [-> ->]. rewrite Hfb in H. discriminate.
Qed.

Lemma fillok_of gs g x : Fill gs -> lookup gs g = Some x -> fillok x.
Proof.
  intros HF L H. pose proof (HF g) as F. rewrite !(slot_lookup _ _ _ _ L) in F. cbn [get] in F. apply F. exact H.
Qed.

Lemma connected_to_slot gs a ga b : lookup gs a = Some ga -> (connected_to ga b = true <-> connected gs a b).
Proof.
  intros L. rewrite connected_to_spec. unfold connected. split; intros [i [c [H1 H2]]]; exists i, c.
  - rewrite (slot_lookup _ _ _ _ L). split; assumption.
  - rewrite (slot_lookup _ _ _ _ L) in H1. split; assumption.
Qed.

(* the state-changing branch of connect *)
Lemma link_Linked gs a b ga gb ch :
  Inv gs -> a <> b -> lookup gs a = Some ga -> lookup gs b = Some gb ->
  connected_to ga b = false -> (len ga < 2)%nat -> (len gb < 2)%nat ->
  Linked gs
    (upd (upd gs a (put {| endpoint := b; endpoint_id := sid_of_len (len gb); channel := ch |})) b
         (put {| endpoint := a; endpoint_id := sid_of_len (len ga); channel := ch |}))
    a (sid_of_len (len ga)) b (sid_of_len (len gb)) ch.
Proof.
  intros HI Hne La Lb Hct Hla Hlb.
  pose proof (fillok_of _ _ _ (inv_fill _ HI) La) as Fa.
  pose proof (fillok_of _ _ _ (inv_fill _ HI) Lb) as Fb.
  assert (Hnab : forall i c, slot gs a i = Some c -> endpoint c <> b).
  { intros i c H E. assert (connected_to ga b = true) as X; [|rewrite X in Hct; discriminate].
    apply (connected_to_slot gs a ga b La). exists i, c. split; assumption. }
  split.
  - exact Hne.
  - rewrite (slot_lookup _ _ _ _ La). apply get_free; assumption.
  - rewrite (slot_lookup _ _ _ _ Lb). apply get_free; assumption.
  - intros E. rewrite (slot_lookup _ _ _ _ La). cbn [get]. apply len_S1; assumption.
  - intros E. rewrite (slot_lookup _ _ _ _ Lb). cbn [get]. apply len_S1; assumption.
  - intros E. rewrite (slot_lookup _ _ _ _ La). cbn [get]. apply len_S0. exact E.
  - intros E. rewrite (slot_lookup _ _ _ _ Lb). cbn [get]. apply len_S0. exact E.
  - exact Hnab.
  - intros i c H E.
    destruct (connected_sym gs b a (inv_sym _ HI)) as [j [c' [H1 H2]]]; [exists i, c; split; assumption|].
    eapply Hnab; eassumption.
  - intros g i. unfold slot at 1. rewrite !lookup_upd.
    destruct (N.eqb_spec b g) as [Ebg|Nbg]; [subst g|].
    + destruct (N.eqb_spec a b) as [E|_]; [contradiction|]. rewrite Lb. cbn [option_map].
      rewrite (and_eqb_ne b a) by (intros E; apply Hne; symmetry; exact E).
      rewrite N.eqb_refl. cbn [andb]. rewrite get_put by assumption.
      rewrite (slot_lookup _ _ _ _ Lb). reflexivity.
    + destruct (N.eqb_spec a g) as [Eag|Nag]; [subst g|].
      * rewrite La. cbn [option_map]. rewrite N.eqb_refl. cbn [andb]. rewrite get_put by assumption.
        rewrite (and_eqb_ne a b) by exact Hne. rewrite (slot_lookup _ _ _ _ La). reflexivity.
      * rewrite (and_eqb_ne g a) by (intros E; apply Nag; symmetry; exact E).
        rewrite (and_eqb_ne g b) by (intros E; apply Nbg; symmetry; exact E). reflexivity.
Qed.

(* connect either leaves the gate table alone or links two free slots *)
Lemma connect_gates s a b ch :
  Inv (sgates s) ->
  sgates (fst (connect s a b ch)) = sgates s \/
  (snd (connect s a b ch) = OUnit /\
   exists ia ib, Linked (sgates s) (sgates (fst (connect s a b ch))) a ia b ib ch).
Proof.
  intros HI. unfold connect.
  destruct (lookup (sgates s) a) as [ga|] eqn:La; [|left; reflexivity].
  destruct (lookup (sgates s) b) as [gb|] eqn:Lb; [|left; reflexivity].
  destruct (N.eqb_spec a b) as [Eab|Nab]; [left; reflexivity|].
  destruct (is_poisoned s a); [left; reflexivity|].
  destruct (connected_to ga b) eqn:Ect; [left; reflexivity|].
  destruct (is_poisoned s b); [left; reflexivity|].
  destruct (Nat.ltb (len ga) 2 && Nat.ltb (len gb) 2) eqn:El; [|left; reflexivity].
  apply andb_true_iff in El. destruct El as [El1 El2]. apply Nat.ltb_lt in El1. apply Nat.ltb_lt in El2.
  right. cbn [fst snd sgates]. split; [reflexivity|].
  exists (sid_of_len (len ga)), (sid_of_len (len gb)). apply link_Linked; assumption.
Qed.

Lemma connect_inv s a b ch : Inv (sgates s) -> Inv (sgates (fst (connect s a b ch))).
Proof.
  intros HI. destruct (connect_gates s a b ch HI) as [E|[_ [ia [ib L]]]].
  - rewrite E. exact HI.
  - eapply Linked_inv; eassumption.
Qed.

Lemma connect_mono s a b ch g i c :
  Inv (sgates s) -> slot (sgates s) g i = Some c -> slot (sgates (fst (connect s a b ch))) g i = Some c.
Proof.
  intros HI H. destruct (connect_gates s a b ch HI) as [E|[_ [ia [ib L]]]].
  - rewrite E. exact H.
  - eapply Linked_mono; eassumption.
Qed.

(* ---- all reachable states ---- *)
Lemma slot_mk_gates k owners g i : slot (mk_gates k owners) g i = None.
Proof.
  unfold slot. destruct (lookup (mk_gates k owners) g) as [x|] eqn:L; [|reflexivity].
  destruct (lookup_mk_gates _ _ _ _ L) as [H0 H1]. destruct i; cbn [get]; assumption.
Qed.

(* gates created at run time through a spawner have empty slots and leave every other gate alone *)
Lemma slot_spawn s target size g i : slot (sgates (spawn s target size)) g i = slot (sgates s) g i.
Proof.
  unfold spawn. cbn [sgates]. unfold slot at 1. rewrite lookup_app. unfold slot.
  destruct (lookup (sgates s) g) as [x|]; [reflexivity|].
  change (slot (mk_gates (N.of_nat (length (sgates s))) (repeat target (N.to_nat size))) g i = None).
  apply slot_mk_gates.
Qed.

Lemma Inv_ext gs gs' : (forall g i, slot gs' g i = slot gs g i) -> Inv gs -> Inv gs'.
Proof.
  intros E [H1 H2 H3 H4]. split.
  - intros g i c H. rewrite E in H. destruct (H1 g i c H) as [c' [Hc' HE]]. exists c'. rewrite E. split; assumption.
  - intros g H. rewrite E in *. apply H2. exact H.
  - intros g i c H. rewrite E in H. eapply H3; exact H.
  - intros g c c' Ha Hb. rewrite E in Ha, Hb. eapply H4; eassumption.
Qed.

Lemma step_inv s o : Inv (sgates s) -> Inv (sgates (fst (step s o))).
Proof.
  intros HI. destruct o; cbn [step fst]; try exact HI; try (apply connect_inv; exact HI).
  eapply Inv_ext; [|exact HI]. intros g i. apply slot_spawn.
Qed.

Lemma exec_cons s o r : fst (exec s (o :: r)) = fst (exec (fst (step s o)) r).
Proof. cbn [exec]. destruct (step s o) as [s' x]. cbn [fst]. destruct (exec s' r). reflexivity. Qed.

Lemma exec_inv s ops : Inv (sgates s) -> Inv (sgates (fst (exec s ops))).
Proof.
  revert s; induction ops as [|o r IH]; intros s HI; [exact HI|].
  rewrite exec_cons. apply IH. apply step_inv. exact HI.
Qed.

Lemma init_inv owners : Inv (sgates (init owners)).
Proof.
  cbn [init sgates]. split.
  - intros g i c H. rewrite slot_mk_gates in H. discriminate.
  - intros g H. rewrite slot_mk_gates in H. contradiction H; reflexivity.
  - intros g i c H. rewrite slot_mk_gates in H. discriminate.
  - intros g c c' H. rewrite slot_mk_gates in H. discriminate.
Qed.

Theorem inv_reachable owners ops : Inv (sgates (fst (exec (init owners) ops))).
Proof. apply exec_inv. apply init_inv. Qed.

(* occupied slots are never rewritten, whatever is executed afterwards *)
Lemma exec_mono s ops g i c :
  Inv (sgates s) -> slot (sgates s) g i = Some c -> slot (sgates (fst (exec s ops))) g i = Some c.
Proof.
  revert s; induction ops as [|o r IH]; intros s HI H; [exact H|].
  rewrite exec_cons. apply IH; [apply step_inv; exact HI|].
  destruct o; cbn [step fst]; try exact H; try (apply connect_mono; assumption).
  rewrite slot_spawn. exact H.
Qed.

(* ---- at most two peers ---- *)
Definition peers (gs : gates) (g : N) : list N :=
  match slot gs g S0 with Some c => [endpoint c] | None => [] end ++
  match slot gs g S1 with Some c => [endpoint c] | None => [] end.

Lemma degree_le_2 gs g : Inv gs -> (length (peers gs g) <= 2)%nat /\ NoDup (peers gs g) /\ ~ In g (peers gs g).
Proof.
  intros HI. unfold peers.
  destruct (slot gs g S0) as [c|] eqn:E0; destruct (slot gs g S1) as [c'|] eqn:E1; cbn [app length In].
  - split; [lia|]. split.
    + constructor; [|constructor; [intros []|constructor]]. intros [E|[]].
      apply (inv_distinct _ HI g c c' E0 E1). symmetry; exact E.
    + intros [E|[E|[]]]; [apply (inv_noself _ HI g S0 c E0 E)|apply (inv_noself _ HI g S1 c' E1 E)].
  - split; [lia|]. split; [constructor; [intros []|constructor]|].
    intros [E|[]]. apply (inv_noself _ HI g S0 c E0 E).
  - split; [lia|]. split; [constructor; [intros []|constructor]|].
    intros [E|[]]. apply (inv_noself _ HI g S1 c' E1 E).
  - split; [lia|]. split; [constructor|intros []].
Qed.

Lemma len2_slots gs g x : lookup gs g = Some x -> (len x < 2)%nat -> Fill gs -> slot gs g S1 = None.
Proof.
  intros L Hl HF. pose proof (fillok_of _ _ _ HF L) as F. rewrite (slot_lookup _ _ _ _ L). cbn [get].
  unfold fillok, len in *. destruct x as [o [p|] [q|]]; cbn in *; try reflexivity; try lia.
  exfalso. assert (X : @None conn <> None) by (apply F; discriminate). apply X; reflexivity.
Qed.

(* a gate with two peers rejects a third one, in either orientation, and the table is unchanged *)
Lemma third_peer_rejected s a b ch p q :
  Inv (sgates s) ->
  slot (sgates s) a S0 = Some p -> slot (sgates s) a S1 = Some q ->
  endpoint p <> b -> endpoint q <> b -> lookup (sgates s) b <> None ->
  (exists site, snd (connect s a b ch) = OPanic site) /\ sgates (fst (connect s a b ch)) = sgates s /\
  (exists site, snd (connect s b a ch) = OPanic site) /\ sgates (fst (connect s b a ch)) = sgates s.
Proof.
  intros HI H0 H1 Np Nq Lb.
  destruct (slot_some_lookup _ _ _ _ H0) as [ga [La G0]]. cbn [get] in G0.
  pose proof H1 as G1. rewrite (slot_lookup _ _ _ _ La) in G1. cbn [get] in G1.
  destruct (lookup (sgates s) b) as [gb|] eqn:Lb'; [clear Lb|contradiction Lb; reflexivity].
  assert (Hlen : Nat.ltb (len ga) 2 = false).
  { apply Nat.ltb_ge. unfold len. rewrite G0, G1. cbn. lia. }
  assert (Hc1 : connected_to ga b = false).
  { unfold connected_to. rewrite G0, G1. apply N.eqb_neq in Np. apply N.eqb_neq in Nq. rewrite Np, Nq. reflexivity. }
  assert (Hc2 : connected_to gb a = false).
  { destruct (connected_to gb a) eqn:E; [|reflexivity]. exfalso.
    apply (connected_to_slot _ _ _ _ Lb') in E. apply (connected_sym _ _ _ (inv_sym _ HI)) in E.
    destruct E as [i [c [Hc He]]]. destruct i; rewrite Hc in *.
    - injection H0 as <-. contradiction.
    - injection H1 as <-. contradiction. }
  unfold connect. rewrite La, Lb'.
  destruct (N.eqb_spec a b) as [Eab|Nab].
  - subst b. rewrite N.eqb_refl. cbn [fst snd]. repeat split; eauto.
  - destruct (N.eqb_spec b a) as [E|_]; [symmetry in E; contradiction|].
    rewrite Hc1, Hc2, Hlen, andb_false_r. cbn [andb].
    destruct (is_poisoned s a), (is_poisoned s b); cbn [fst snd poison sgates]; repeat split; eauto.
Qed.

(* ---- orientation does not matter ---- *)
Lemma connected_to_sym gs a b ga gb :
  Sym gs -> lookup gs a = Some ga -> lookup gs b = Some gb -> connected_to ga b = connected_to gb a.
Proof.
  intros HS La Lb. destruct (connected_to ga b) eqn:E1, (connected_to gb a) eqn:E2; try reflexivity; exfalso.
  - apply (connected_to_slot _ _ _ _ La) in E1. apply (connected_sym _ _ _ HS) in E1.
    apply (connected_to_slot _ _ _ _ Lb) in E1. rewrite E1 in E2. discriminate.
  - apply (connected_to_slot _ _ _ _ Lb) in E2. apply (connected_sym _ _ _ HS) in E2.
    apply (connected_to_slot _ _ _ _ La) in E2. rewrite E2 in E1. discriminate.
Qed.

Theorem connect_symmetric s a b ch :
  Inv (sgates s) ->
  sgates (fst (connect s a b ch)) = sgates (fst (connect s b a ch)) /\
  (poisoned s = [] -> snd (connect s a b ch) = snd (connect s b a ch)).
Proof.
  intros HI. unfold connect, is_poisoned.
  destruct (lookup (sgates s) a) as [ga|] eqn:La; destruct (lookup (sgates s) b) as [gb|] eqn:Lb;
    try (split; reflexivity).
  rewrite (N.eqb_sym b a).
  destruct (N.eqb_spec a b) as [Eab|Nab]; [split; reflexivity|].
  rewrite (connected_to_sym _ _ _ _ _ (inv_sym _ HI) Lb La).
  rewrite (andb_comm (Nat.ltb (len gb) 2)).
  split.
  - destruct (existsb (N.eqb a) (poisoned s)), (existsb (N.eqb b) (poisoned s)), (connected_to ga b),
      (Nat.ltb (len ga) 2 && Nat.ltb (len gb) 2); cbn [fst sgates poison]; try reflexivity.
    apply upd_comm. exact Nab.
  - intros Hp. rewrite Hp. cbn [existsb].
    destruct (connected_to ga b), (Nat.ltb (len ga) 2 && Nat.ltb (len gb) 2); reflexivity.
Qed.

(* a successful connect leaves the two gates connected to each other *)
Lemma connect_connected s a b ch :
  Inv (sgates s) -> snd (connect s a b ch) = OUnit ->
  connected (sgates (fst (connect s a b ch))) a b /\ connected (sgates (fst (connect s a b ch))) b a.
Proof.
  intros HI HO.
  assert (H : connected (sgates (fst (connect s a b ch))) a b).
  { revert HO. unfold connect.
    destruct (lookup (sgates s) a) as [ga|] eqn:La; [|cbn [snd]; discriminate].
    destruct (lookup (sgates s) b) as [gb|] eqn:Lb; [|cbn [snd]; discriminate].
    destruct (N.eqb_spec a b) as [Eab|Nab]; [cbn [snd]; discriminate|].
    destruct (is_poisoned s a); [cbn [snd]; discriminate|].
    destruct (connected_to ga b) eqn:Ect.
    - intros _. cbn [fst]. apply (connected_to_slot _ _ _ _ La). exact Ect.
    - destruct (is_poisoned s b); [cbn [snd]; discriminate|].
      destruct (Nat.ltb (len ga) 2 && Nat.ltb (len gb) 2) eqn:El; [|cbn [snd]; discriminate].
      intros _. cbn [fst sgates].
      apply andb_true_iff in El. destruct El as [El1 El2]. apply Nat.ltb_lt in El1. apply Nat.ltb_lt in El2.
      pose proof (link_Linked _ _ _ _ _ ch HI Nab La Lb Ect El1 El2) as L.
      exists (sid_of_len (len ga)). eexists. rewrite (lk_slot _ _ _ _ _ _ _ L), and_eqb_refl. split; reflexivity. }
  split; [exact H|]. apply connected_sym; [|exact H]. apply inv_sym. apply connect_inv. exact HI.
Qed.

(* connected gates: a further connect, in either orientation and with any channel, returns at once *)
Lemma connect_when_connected s a b ch :
  Inv (sgates s) -> poisoned s = [] -> connected (sgates s) a b -> lookup (sgates s) b <> None ->
  connect s a b ch = (s, OUnit).
Proof.
  intros HI Hp Hc Lb. unfold connect, is_poisoned. rewrite Hp. cbn [existsb].
  destruct Hc as [i [c [Hc He]]]. destruct (slot_some_lookup _ _ _ _ Hc) as [ga [La Hg]]. rewrite La.
  destruct (lookup (sgates s) b) as [gb|]; [|contradiction Lb; reflexivity].
  destruct (N.eqb_spec a b) as [Eab|Nab].
  - exfalso. apply (inv_noself _ HI a i c Hc). rewrite He. symmetry; exact Eab.
  - assert (connected_to ga b = true) as ->; [|reflexivity].
    apply connected_to_spec. exists i, c. split; assumption.
Qed.

Theorem connect_idempotent s a b ch ch' :
  Inv (sgates s) -> poisoned s = [] -> snd (connect s a b ch) = OUnit ->
  let s1 := fst (connect s a b ch) in
  connect s1 a b ch' = (s1, OUnit) /\ connect s1 b a ch' = (s1, OUnit).
Proof.
  intros HI Hp HO s1.
  assert (HI1 : Inv (sgates s1)) by (apply connect_inv; exact HI).
  destruct (connect_connected s a b ch HI HO) as [Cab Cba]. fold s1 in Cab, Cba.
  assert (Hp1 : poisoned s1 = []).
  { subst s1. revert HO. unfold connect.
    destruct (lookup (sgates s) a); [|intros _; exact Hp]. destruct (lookup (sgates s) b); [|intros _; exact Hp].
    destruct (a =? b); [intros _; exact Hp|]. destruct (is_poisoned s a); [intros _; exact Hp|].
    destruct (connected_to g b); [intros _; exact Hp|]. destruct (is_poisoned s b); [cbn [snd]; discriminate|].
    destruct (Nat.ltb (len g) 2 && Nat.ltb (len g0) 2); [intros _; exact Hp|cbn [snd]; discriminate]. }
  split; apply connect_when_connected; try assumption.
  - destruct Cba as [i [c [Hc _]]]. destruct (slot_some_lookup _ _ _ _ Hc) as [x [L _]]. rewrite L. discriminate.
  - destruct Cab as [i [c [Hc _]]]. destruct (slot_some_lookup _ _ _ _ Hc) as [x [L _]]. rewrite L. discriminate.
Qed.
