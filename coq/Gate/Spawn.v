(* Gates created at run time through Spawner::gate: they continue the numbering,
   belong to the module the spawner is bound to (whoever executed the call), keep
   that owner for the rest of the run, and are covered by every C08 theorem because
   those are stated for all operation lists. *)
From Coq Require Import List Arith NArith Lia Bool.
From DesVerif Require Import Gate.Model Gate.Map Gate.Sym Gate.Reach.
Import ListNotations.
Open Scope N_scope.

(* gate ids are k, k+1, ... in table order *)
Fixpoint contig (k : N) (gs : gates) : Prop :=
  match gs with
  | [] => True
  | (key, _) :: r => key = k /\ contig (k + 1) r
  end.

Lemma contig_mk_gates k owners : contig k (mk_gates k owners).
Proof. revert k; induction owners as [|o r IH]; intros k; cbn [mk_gates contig]; [exact I|]. split; [reflexivity|apply IH]. Qed.

Lemma contig_upd k gs g f : contig k gs -> contig k (upd gs g f).
Proof.
  revert k; induction gs as [|[key x] r IH]; intros k H; cbn [upd contig] in *; [exact I|].
  destruct H as [H1 H2]. destruct (key =? g); cbn [contig]; (split; [exact H1|apply IH; exact H2]).
Qed.

Lemma contig_app k a b : contig k a -> contig (k + N.of_nat (length a)) b -> contig k (a ++ b).
Proof.
  revert k; induction a as [|[key x] r IH]; intros k Ha Hb; cbn [app length contig] in *.
  - rewrite N.add_0_r in Hb. exact Hb.
  - destruct Ha as [H1 H2]. split; [exact H1|]. apply IH; [exact H2|].
    replace (k + 1 + N.of_nat (length r)) with (k + N.of_nat (S (length r))) by lia. exact Hb.
Qed.

Lemma contig_lookup_high k gs g : contig k gs -> k + N.of_nat (length gs) <= g -> lookup gs g = None.
Proof.
  revert k; induction gs as [|[key x] r IH]; intros k H Hg; cbn [lookup]; [reflexivity|].
  cbn [contig length] in *. destruct H as [H1 H2]. subst key.
  destruct (N.eqb_spec k g) as [E|_]; [lia|]. apply (IH (k + 1)); [exact H2|lia].
Qed.

Lemma lookup_mk_gates_nth k owners j o :
  nth_error owners j = Some o ->
  lookup (mk_gates k owners) (k + N.of_nat j) = Some {| owner := o; c0 := None; c1 := None |}.
Proof.
  revert k j; induction owners as [|o' r IH]; intros k j H; [destruct j; discriminate|].
  cbn [mk_gates lookup]. destruct j as [|j]; cbn [nth_error] in H.
  - injection H as <-. rewrite N.add_0_r, N.eqb_refl. reflexivity.
  - destruct (N.eqb_spec k (k + N.of_nat (S j))) as [E|_]; [lia|].
    replace (k + N.of_nat (S j)) with (k + 1 + N.of_nat j) by lia. apply IH. exact H.
Qed.

Lemma connect_contig s a b ch : contig 0 (sgates s) -> contig 0 (sgates (fst (connect s a b ch))).
Proof.
  intros H. unfold connect. destruct (lookup (sgates s) a); [|exact H]. destruct (lookup (sgates s) b); [|exact H].
  destruct (a =? b); [exact H|]. destruct (is_poisoned s a); [exact H|].
  destruct (connected_to g b); [exact H|]. destruct (is_poisoned s b); [exact H|].
  destruct (Nat.ltb (len g) 2 && Nat.ltb (len g0) 2); [|exact H].
  cbn [fst sgates]. apply contig_upd. apply contig_upd. exact H.
Qed.

Lemma step_contig s o : contig 0 (sgates s) -> contig 0 (sgates (fst (step s o))).
Proof.
  intros H. destruct o; cbn [step fst]; try exact H; try (apply connect_contig; exact H).
  unfold spawn. cbn [sgates]. apply contig_app; [exact H|]. apply contig_mk_gates.
Qed.

Lemma exec_contig s ops : contig 0 (sgates s) -> contig 0 (sgates (fst (exec s ops))).
Proof.
  revert s; induction ops as [|o r IH]; intros s H; [exact H|]. rewrite exec_cons. apply IH. apply step_contig. exact H.
Qed.

Lemma reach_contig owners ops : contig 0 (rgates owners ops).
Proof. apply exec_contig. apply contig_mk_gates. Qed.

(* the j-th gate of a spawn call belongs to the spawner's module *)
Lemma spawn_owner s target size j :
  contig 0 (sgates s) -> (j < N.to_nat size)%nat ->
  lookup (sgates (spawn s target size)) (N.of_nat (length (sgates s)) + N.of_nat j) =
  Some {| owner := target; c0 := None; c1 := None |}.
Proof.
  intros HC Hj. unfold spawn. cbn [sgates]. rewrite lookup_app.
  rewrite (contig_lookup_high 0 (sgates s)); [|exact HC|lia].
  apply lookup_mk_gates_nth. apply nth_error_repeat. exact Hj.
Qed.

(* no operation changes the owner of an existing gate *)
Lemma connect_owner s a b ch g : owner_of (sgates (fst (connect s a b ch))) g = owner_of (sgates s) g.
Proof.
  unfold connect. destruct (lookup (sgates s) a); [|reflexivity]. destruct (lookup (sgates s) b); [|reflexivity].
  destruct (a =? b); [reflexivity|]. destruct (is_poisoned s a); [reflexivity|].
  destruct (connected_to g0 b); [reflexivity|]. destruct (is_poisoned s b); [reflexivity|].
  destruct (Nat.ltb (len g0) 2 && Nat.ltb (len g1) 2); [|reflexivity].
  cbn [fst sgates]. unfold owner_of. rewrite !lookup_upd.
  destruct (b =? g), (a =? g), (lookup (sgates s) g) as [x|]; cbn [option_map]; rewrite ?put_owner; reflexivity.
Qed.

Lemma step_owner s o g : lookup (sgates s) g <> None -> owner_of (sgates (fst (step s o))) g = owner_of (sgates s) g.
Proof.
  intros L. destruct o; cbn [step fst]; try reflexivity; try apply connect_owner.
  unfold spawn, owner_of. cbn [sgates]. rewrite lookup_app. destruct (lookup (sgates s) g); [reflexivity|contradiction L; reflexivity].
Qed.

Lemma step_lookup_some s o g : lookup (sgates s) g <> None -> lookup (sgates (fst (step s o))) g <> None.
Proof.
  intros L. assert (C : forall a b ch, lookup (sgates (fst (connect s a b ch))) g <> None).
  { intros a b ch. unfold connect. destruct (lookup (sgates s) a); [|exact L]. destruct (lookup (sgates s) b); [|exact L].
    destruct (a =? b); [exact L|]. destruct (is_poisoned s a); [exact L|].
    destruct (connected_to g0 b); [exact L|]. destruct (is_poisoned s b); [exact L|].
    destruct (Nat.ltb (len g0) 2 && Nat.ltb (len g1) 2); [|exact L].
    cbn [fst sgates]. rewrite !lookup_upd.
    destruct (b =? g), (a =? g), (lookup (sgates s) g) as [x|]; cbn [option_map]; try discriminate; exact L. }
  destruct o; cbn [step fst]; try exact L; try apply C.
  unfold spawn. cbn [sgates]. rewrite lookup_app. destruct (lookup (sgates s) g); [discriminate|contradiction L; reflexivity].
Qed.

Lemma exec_owner s ops g : lookup (sgates s) g <> None -> owner_of (sgates (fst (exec s ops))) g = owner_of (sgates s) g.
Proof.
  revert s; induction ops as [|o r IH]; intros s L; [reflexivity|]. rewrite exec_cons.
  rewrite IH; [apply step_owner; exact L|apply step_lookup_some; exact L].
Qed.

(* whoever executes the call, and whatever is executed afterwards: the gates a
   spawn call creates are owned by the module whose spawner was used *)
Theorem spawned_gates_owner owners ops caller target size more j :
  (j < N.to_nat size)%nat ->
  owner_of (rgates owners (ops ++ Spawn caller target size :: more))
           (N.of_nat (length (rgates owners ops)) + N.of_nat j) = target.
Proof.
  intros Hj. unfold rgates, reach.
  assert (E : forall s l1 l2, fst (exec s (l1 ++ l2)) = fst (exec (fst (exec s l1)) l2)).
  { intros s l1; revert s; induction l1 as [|o r IH]; intros s l2; [reflexivity|]. cbn [app]. rewrite !exec_cons. apply IH. }
  rewrite E, exec_cons. cbn [step fst].
  set (s := fst (exec (init owners) ops)).
  pose proof (spawn_owner s target size j (reach_contig owners ops) Hj) as L.
  rewrite exec_owner; [|rewrite L; discriminate]. unfold owner_of. rewrite L. reflexivity.
Qed.
