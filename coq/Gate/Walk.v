(* Walking a gate chain from an endpoint terminates: the fuel 2*|gates|+1 of
   path_iter / handle_with_sink is never exhausted.

   States of the walk are pairs (gate, slot through which we came in).  By Sym
   the step function is injective, and the start state (g0, 1) of a non-transit
   gate has no predecessor because slot 1 of g0 is empty (Fill).  Hence the
   visited states never repeat (NoDup), they all lie in the finite set
   gates x {0,1}, and a pigeonhole bound on the length of the walk follows. *)
From Coq Require Import List Arith NArith Lia Bool.
From DesVerif Require Import Gate.Model Gate.Map Gate.Sym.
Import ListNotations.
Open Scope N_scope.

Definition st := (N * sid)%type.
Definition stc (c : conn) : st := (endpoint c, endpoint_id c).
Definition step_st (gs : gates) (s : st) : option st := option_map stc (slot gs (fst s) (opp (snd s))).

Lemma step_st_next gs c : step_st gs (stc c) = option_map stc (next_hop gs c).
Proof. reflexivity. Qed.

Lemma step_inj gs s1 s2 t : Sym gs -> step_st gs s1 = Some t -> step_st gs s2 = Some t -> s1 = s2.
Proof.
  intros HS H1 H2. unfold step_st in *. destruct s1 as [g1 i1], s2 as [g2 i2]. cbn [fst snd] in *.
  destruct (slot gs g1 (opp i1)) as [c1|] eqn:E1; [|discriminate].
  destruct (slot gs g2 (opp i2)) as [c2|] eqn:E2; [|discriminate].
  cbn [option_map] in *. injection H1 as H1. injection H2 as H2.
  destruct (HS _ _ _ E1) as [d1 [D1 [A1 [B1 _]]]]. destruct (HS _ _ _ E2) as [d2 [D2 [A2 [B2 _]]]].
  assert (Hc : stc c1 = stc c2) by congruence. unfold stc in Hc. injection Hc as Hc1 Hc2.
  rewrite Hc1, Hc2 in D1. rewrite D1 in D2. injection D2 as D2. subst d2.
  f_equal; [congruence|]. apply opp_inj. congruence.
Qed.

Lemma step_no_pred gs s g i : Sym gs -> slot gs g i = None -> step_st gs s <> Some (g, i).
Proof.
  intros HS Hn H. unfold step_st in H. destruct (slot gs (fst s) (opp (snd s))) as [c|] eqn:E; [|discriminate].
  cbn [option_map] in H. unfold stc in H. injection H as H1 H2.
  destruct (HS _ _ _ E) as [d [D _]]. rewrite H1, H2, Hn in D. discriminate.
Qed.

(* the states visited so far, most recent first *)
Inductive Path (gs : gates) (root : st) : list st -> Prop :=
| P0 : Path gs root [root]
| PS s l s' : Path gs root (s :: l) -> step_st gs s = Some s' -> Path gs root (s' :: s :: l).

Lemma path_pred gs root l : Path gs root l ->
  forall l1 y l2, l = l1 ++ y :: l2 ->
  (y = root /\ l2 = []) \/ exists z l3, l2 = z :: l3 /\ step_st gs z = Some y.
Proof.
  induction 1 as [|s l s' HP IH Hst]; intros l1 y l2 E.
  - destruct l1 as [|x l1]; cbn in E.
    + injection E as <- <-. left. split; reflexivity.
    + injection E as _ E. destruct l1; discriminate.
  - destruct l1 as [|x l1]; cbn in E.
    + injection E as <- <-. right. exists s, l. split; [reflexivity|exact Hst].
    + injection E as _ E. eapply IH. exact E.
Qed.

Lemma path_nodup gs root l :
  Sym gs -> (forall s, step_st gs s <> Some root) -> Path gs root l -> NoDup l.
Proof.
  intros HS Hroot. induction 1 as [|s l s' HP IH Hst].
  - constructor; [intros []|constructor].
  - constructor; [|exact IH]. intros Hin.
    destruct (in_split _ _ Hin) as [l1 [l2 E]].
    destruct (path_pred _ _ _ HP l1 s' l2 E) as [[Er _]|[z [l3 [El2 Hz]]]].
    + subst s'. exact (Hroot s Hst).
    + pose proof (step_inj _ _ _ _ HS Hz Hst) as Ez. subst z l2.
      destruct l1 as [|x l1]; cbn in E; injection E as E1 E2.
      * subst s'. subst l. inversion IH as [|? ? Hn _]. apply Hn. left. reflexivity.
      * subst x l. inversion IH as [|? ? Hn _]. apply Hn. apply in_or_app. right. right. left. reflexivity.
Qed.

Definition states (gs : gates) : list st := flat_map (fun kv => [(fst kv, S0); (fst kv, S1)]) gs.

Lemma states_length gs : length (states gs) = (2 * length gs)%nat.
Proof. induction gs as [|kv r IH]; [reflexivity|]. unfold states in *. cbn [flat_map app length]. rewrite IH. lia. Qed.

Lemma in_states gs g i x : lookup gs g = Some x -> In (g, i) (states gs).
Proof.
  induction gs as [|[k y] r IH]; cbn [lookup]; [discriminate|].
  unfold states. cbn [flat_map fst]. destruct (N.eqb_spec k g) as [E|_].
  - intros _. subst k. destruct i; [left|right; left]; reflexivity.
  - intros H. right. right. apply IH. exact H.
Qed.

Lemma path_incl gs root l : Sym gs -> In root (states gs) -> Path gs root l -> incl l (states gs).
Proof.
  intros HS Hr. induction 1 as [|s l s' HP IH Hst]; intros y Hy.
  - destruct Hy as [<-|[]]. exact Hr.
  - destruct Hy as [<-|Hy]; [|apply IH; exact Hy].
    unfold step_st in Hst. destruct (slot gs (fst s) (opp (snd s))) as [c|] eqn:E; [|discriminate].
    cbn [option_map] in Hst. injection Hst as <-. destruct (HS _ _ _ E) as [d [D _]].
    destruct (slot_some_lookup _ _ _ _ D) as [x [L _]]. eapply in_states. exact L.
Qed.

Lemma path_bound gs root l :
  Sym gs -> (forall s, step_st gs s <> Some root) -> In root (states gs) -> Path gs root l ->
  (length l <= 2 * length gs)%nat.
Proof.
  intros HS Hroot Hr HP. rewrite <- states_length. apply NoDup_incl_length.
  - eapply path_nodup; eassumption.
  - eapply path_incl; eassumption.
Qed.

(* enough fuel for the remaining unvisited states suffices *)
Lemma walk_fuel gs root : Sym gs -> (forall s, step_st gs s <> Some root) -> In root (states gs) ->
  forall fuel c l, Path gs root (stc c :: l) ->
  (2 * length gs - length (stc c :: l) < fuel)%nat -> walk fuel gs c <> None.
Proof.
  intros HS Hroot Hr. induction fuel as [|f IH]; intros c l HP Hf; [lia|].
  cbn [walk]. destruct (next_hop gs c) as [n|] eqn:En; [|discriminate].
  assert (HP' : Path gs root (stc n :: stc c :: l)).
  { apply PS; [exact HP|]. rewrite step_st_next, En. reflexivity. }
  pose proof (path_bound _ _ _ HS Hroot Hr HP') as Hb.
  specialize (IH n (stc c :: l) HP'). cbn [length] in *.
  destruct (walk f gs n); [discriminate|]. exfalso. apply IH; [lia|reflexivity].
Qed.

(* a non-transit gate's slot 1 is empty *)
Lemma endpoint_slot1 gs g x : Inv gs -> lookup gs g = Some x -> kind_of x <> Transit -> slot gs g S1 = None.
Proof.
  intros HI L K. apply kind_not_transit in K. eapply len2_slots; [exact L|exact K|apply inv_fill; exact HI].
Qed.

Theorem walk_from_endpoint_terminates gs g x :
  Inv gs -> lookup gs g = Some x -> kind_of x <> Transit ->
  walk (fuel_of gs) gs (new_unchecked g) <> None.
Proof.
  intros HI L K. pose proof (endpoint_slot1 _ _ _ HI L K) as H1.
  apply (walk_fuel gs (g, S1) (inv_sym _ HI)) with (l := []).
  - intros s. apply step_no_pred; [apply inv_sym; exact HI|exact H1].
  - eapply in_states. exact L.
  - apply P0.
  - unfold fuel_of. cbn [length]. lia.
Qed.

Corollary path_iter_total gs g x :
  Inv gs -> lookup gs g = Some x -> kind_of x <> Transit -> exists p, path_iter gs g = Some (Some p).
Proof.
  intros HI L K. pose proof (walk_from_endpoint_terminates _ _ _ HI L K) as W.
  unfold path_iter. rewrite L. destruct (walk (fuel_of gs) gs (new_unchecked g)) as [p|] eqn:E; [|contradiction W; reflexivity].
  exists p. destruct (kind_of x); [reflexivity|reflexivity|contradiction K; reflexivity].
Qed.

(* ---- the walk as a relation ---- *)
Inductive Walk (gs : gates) : st -> list conn -> Prop :=
| W_nil s : slot gs (fst s) (opp (snd s)) = None -> Walk gs s []
| W_cons s c p : slot gs (fst s) (opp (snd s)) = Some c -> Walk gs (stc c) p -> Walk gs s (c :: p).

Lemma walk_Walk gs fuel c p : walk fuel gs c = Some p -> Walk gs (stc c) p.
Proof.
  revert c p; induction fuel as [|f IH]; intros c p H; cbn [walk] in H; [discriminate|].
  destruct (next_hop gs c) as [n|] eqn:En.
  - destruct (walk f gs n) as [q|] eqn:Eq; [|discriminate]. injection H as <-.
    apply W_cons; [exact En|]. apply IH. exact Eq.
  - injection H as <-. apply W_nil. exact En.
Qed.

Lemma Walk_walk gs c p : Walk gs (stc c) p -> forall fuel, (length p < fuel)%nat -> walk fuel gs c = Some p.
Proof.
  intros W. remember (stc c) as s eqn:Es. revert c Es.
  induction W as [s Hn|s d p Hd W IH]; intros c Es fuel Hf; subst s.
  - destruct fuel as [|f]; [lia|]. cbn [walk]. unfold next_hop. cbn [stc fst snd] in Hn. rewrite Hn. reflexivity.
  - destruct fuel as [|f]; [cbn [length] in Hf; lia|]. cbn [walk]. unfold next_hop. cbn [stc fst snd] in Hd. rewrite Hd.
    rewrite (IH d eq_refl f); [reflexivity|]. cbn [length] in Hf. lia.
Qed.

Lemma walk_length gs fuel c p : walk fuel gs c = Some p -> (length p < fuel)%nat.
Proof.
  revert c p; induction fuel as [|f IH]; intros c p H; cbn [walk] in H; [discriminate|].
  destruct (next_hop gs c) as [n|].
  - destruct (walk f gs n) as [q|] eqn:Eq; [|discriminate]. injection H as <-. cbn [length].
    specialize (IH _ _ Eq). lia.
  - injection H as <-. cbn [length]. lia.
Qed.
