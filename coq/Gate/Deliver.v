(* A message sent on a non-transit gate is delivered exactly once, to the owner
   of the far end of the chain, at send time + sum of the per-hop channel
   delays, with header fields sender / receiver / last_gate; both directions. *)
From Coq Require Import List Arith NArith Lia Bool.
From DesVerif Require Import Gate.Model Gate.Map Gate.Sym Gate.Walk Gate.Mirror.
Import ListNotations.
Open Scope N_scope.

Definition delay (ch : option N) : N := match ch with Some l => l | None => 0 end.
(* sum of the channel delays of the hops of a path *)
Fixpoint total (chs : list (option N)) : N :=
  match chs with [] => 0 | ch :: r => delay ch + total r end.
Definition path_delay (p : list conn) : N := total (map channel p).

Lemma total_app a b : total (a ++ b) = total a + total b.
Proof. induction a as [|x a IH]; cbn [total app]; [reflexivity|]. rewrite IH. lia. Qed.

Lemma total_rev a : total (rev a) = total a.
Proof. induction a as [|x a IH]; [reflexivity|]. cbn [rev]. rewrite total_app, IH. cbn [total]. lia. Qed.

(* handle_with_sink follows exactly the hops that path_iter enumerates *)
Lemma hws_walk gs fuel c p : walk fuel gs c = Some p -> forall now last_g,
  handle_with_sink fuel gs c now last_g =
  Some (owner_of gs (last (map endpoint p) (endpoint c)), now + path_delay p, last (map endpoint p) last_g).
Proof.
  revert c p; induction fuel as [|f IH]; intros c p H now last_g; cbn [walk] in H; [discriminate|].
  cbn [handle_with_sink]. destruct (next_hop gs c) as [n|].
  - destruct (walk f gs n) as [q|] eqn:Eq; [|discriminate]. injection H as <-.
    cbn [map]. rewrite !last_cons. unfold path_delay. cbn [map total].
    destruct (channel n) as [lat|]; rewrite (IH _ _ Eq); cbn [delay]; unfold path_delay.
    + rewrite N.add_assoc. reflexivity.
    + rewrite N.add_0_l. reflexivity.
  - injection H as <-. cbn [map last]. unfold path_delay. cbn [map total]. rewrite N.add_0_r. reflexivity.
Qed.

Theorem delivered_once_to_far_owner gs sender g x t :
  Inv gs -> lookup gs g = Some x -> kind_of x <> Transit ->
  exists p, path_iter gs g = Some (Some p) /\
    let far := last (map endpoint p) g in
    buf_send_at gs sender g t =
    SDelivered {| d_to := owner_of gs far; d_time := t + path_delay p;
                  d_sender := sender; d_receiver := owner_of gs far; d_last := far |}.
Proof.
  intros HI L K. destruct (path_iter_total _ _ _ HI L K) as [p HP]. exists p. split; [exact HP|].
  destruct (path_iter_inv _ _ _ HP) as [x' [L' [_ Hw]]]. symmetry in Hw.
  cbn zeta. unfold buf_send_at. rewrite L.
  apply kind_not_transit in K. assert (Nat.ltb 1 (len x) = false) as -> by (apply Nat.ltb_ge; lia).
  rewrite (hws_walk _ _ _ _ Hw). reflexivity.
Qed.

(* the same chain in the other direction: the far end is an endpoint whose
   chain ends at g, with the same total delay *)
Theorem both_directions gs sender g p t :
  Inv gs -> path_iter gs g = Some (Some p) ->
  let far := last (map endpoint p) g in
  buf_send_at gs sender far t =
  SDelivered {| d_to := owner_of gs g; d_time := t + path_delay p;
                d_sender := sender; d_receiver := owner_of gs g; d_last := g |}.
Proof.
  intros HI HP far. destruct (mirror _ _ _ HI HP) as [q [HQ [Eq Cq]]]. fold far in HQ.
  destruct (path_iter_inv _ _ _ HQ) as [y [Ly [Ky Hw]]]. symmetry in Hw.
  unfold buf_send_at. rewrite Ly.
  apply kind_not_transit in Ky. assert (Nat.ltb 1 (len y) = false) as -> by (apply Nat.ltb_ge; lia).
  rewrite (hws_walk _ _ _ _ Hw). cbn [new_unchecked endpoint].
  assert (Hl : forall d, last (map endpoint q) d = last (tl (rev (g :: map endpoint p))) d) by (intros d; rewrite Eq; reflexivity).
  assert (Hd : path_delay q = path_delay p) by (unfold path_delay; rewrite Cq; apply total_rev).
  rewrite Hd, !Hl. clear Hl Hd.
  assert (Hg : last (tl (rev (g :: map endpoint p))) far = g).
  { subst far. destruct (map endpoint p) as [|e l]; [reflexivity|].
    change (rev (g :: e :: l)) with (rev (e :: l) ++ [g]).
    rewrite tl_app; [apply last_last|]. cbn [rev]. intros H. apply app_eq_nil in H. destruct H as [_ H]. discriminate. }
  rewrite Hg. reflexivity.
Qed.

(* ---- scripts: every send of a script is answered by exactly one record ---- *)
Theorem script_deliveries owners ops k g t d x :
  let gs := sgates (fst (exec (init owners) ops)) in
  nth_error (sends_of gs ops) k = Some (g, t, d) ->
  lookup gs g = Some x -> kind_of x <> Transit ->
  length (map (send_one gs) (sends_of gs ops)) = length (sends_of gs ops) /\
  exists p, path_iter gs g = Some (Some p) /\
    let far := last (map endpoint p) g in
    nth_error (map (send_one gs) (sends_of gs ops)) k =
    Some (SDelivered {| d_to := owner_of gs far; d_time := t + d + path_delay p;
                        d_sender := owner_of gs g; d_receiver := owner_of gs far; d_last := far |}).
Proof.
  intros gs Hk L K. split; [apply map_length|].
  pose proof (inv_reachable owners ops) as HI. fold gs in HI.
  destruct (delivered_once_to_far_owner gs (owner_of gs g) g x (t + d) HI L K) as [p [HP HB]].
  exists p. split; [exact HP|]. cbn zeta in *.
  rewrite (map_nth_error _ _ _ Hk). unfold send_one. rewrite HB. reflexivity.
Qed.
