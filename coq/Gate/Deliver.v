(* A message sent on a non-transit gate is delivered exactly once, to the owner
   of the far end of the chain, at send time + sum of the per-hop channel
   delays, with header fields sender / receiver / last_gate; both directions. *)
From Coq Require Import List Arith NArith Lia Bool.
From DesVerif Require Import Gate.Model Gate.Map Gate.Sym Gate.Walk Gate.Mirror.
Import ListNotations.
Open Scope N_scope.

(* idle-hop delay: transmission time of the 72-byte message + latency *)
Definition delay (ch : option chan) : N := match ch with Some c => hop_delay c | None => 0 end.
(* sum of the channel delays of the hops of a path *)
Fixpoint total (chs : list (option chan)) : N :=
  match chs with [] => 0 | ch :: r => delay ch + total r end.
Definition path_delay (p : list conn) : N := total (map channel p).

(* spelled out: sum over the hops of transmission time + latency *)
Lemma path_delay_sum p :
  path_delay p = fold_right N.add 0
    (map (fun c => match channel c with Some (lat, br) => tx br + lat | None => 0 end) p).
Proof.
  unfold path_delay. induction p as [|c p IH]; [reflexivity|]. cbn [map total fold_right]. rewrite IH.
  destruct (channel c) as [[lat br]|]; reflexivity.
Qed.

Lemma total_app a b : total (a ++ b) = total a + total b.
Proof. induction a as [|x a IH]; cbn [total app]; [reflexivity|]. rewrite IH. lia. Qed.

Lemma total_rev a : total (rev a) = total a.
Proof. induction a as [|x a IH]; [reflexivity|]. cbn [rev]. rewrite total_app, IH. cbn [total]. lia. Qed.

(* handle_with_sink follows exactly the hops that path_iter enumerates *)
Lemma hws_walk gs fuel c p : walk fuel gs c = Some p -> forall now last_g,
  handle_with_sink fuel gs c now last_g =
  Some (owner_of gs (last (map endpoint p) (endpoint c)), now + path_delay p, last (map endpoint p) last_g).
Proof.
  revert c p; induction fuel as [|f IH]; intros c p H now last_g; cbn [walk] in H; [discriminate|].
  cbn [handle_with_sink]. destruct (next_hop gs c) as [n|].
  - destruct (walk f gs n) as [q|] eqn:Eq; [|discriminate]. injection H as <-.
    cbn [map]. rewrite !last_cons. unfold path_delay. cbn [map total].
    destruct (channel n) as [lat|]; rewrite (IH _ _ Eq); cbn [delay]; unfold path_delay.
    + rewrite N.add_assoc. reflexivity.
    + rewrite N.add_0_l. reflexivity.
  - injection H as <-. cbn [map last]. unfold path_delay. cbn [map total]. rewrite N.add_0_r. reflexivity.
Qed.

(* [h] is the header the message object carries when it is handed to send: fresh,
   or whatever a previous leg stamped on it.  The delivered header names [cur],
   the module that performed THIS send. *)
Theorem delivered_once_to_far_owner gs h cur g x t :
  Inv gs -> lookup gs g = Some x -> kind_of x <> Transit ->
  exists p, path_iter gs g = Some (Some p) /\
    let far := last (map endpoint p) g in
    buf_send_at gs h cur g t =
    SDelivered {| d_to := owner_of gs far; d_time := t + path_delay p;
                  d_sender := cur; d_receiver := owner_of gs far; d_last := far |}.
Proof.
  intros HI L K. destruct (path_iter_total _ _ _ HI L K) as [p HP]. exists p. split; [exact HP|].
  destruct (path_iter_inv _ _ _ HP) as [x' [L' [_ Hw]]]. symmetry in Hw.
  cbn zeta. unfold buf_send_at. cbn zeta. rewrite L.
  apply kind_not_transit in K. assert (Nat.ltb 1 (len x) = false) as -> by (apply Nat.ltb_ge; lia).
  rewrite (hws_walk _ _ _ _ Hw). reflexivity.
Qed.

(* the same chain in the other direction: the far end is an endpoint whose
   chain ends at g, with the same total delay *)
Theorem both_directions gs h cur g p t :
  Inv gs -> path_iter gs g = Some (Some p) ->
  let far := last (map endpoint p) g in
  buf_send_at gs h cur far t =
  SDelivered {| d_to := owner_of gs g; d_time := t + path_delay p;
                d_sender := cur; d_receiver := owner_of gs g; d_last := g |}.
Proof.
  intros HI HP far. destruct (mirror _ _ _ HI HP) as [q [HQ [Eq Cq]]]. fold far in HQ.
  destruct (path_iter_inv _ _ _ HQ) as [y [Ly [Ky Hw]]]. symmetry in Hw.
  unfold buf_send_at. cbn zeta. rewrite Ly.
  apply kind_not_transit in Ky. assert (Nat.ltb 1 (len y) = false) as -> by (apply Nat.ltb_ge; lia).
  rewrite (hws_walk _ _ _ _ Hw). cbn [new_unchecked endpoint].
  assert (Hl : forall d, last (map endpoint q) d = last (tl (rev (g :: map endpoint p))) d) by (intros d; rewrite Eq; reflexivity).
  assert (Hd : path_delay q = path_delay p) by (unfold path_delay; rewrite Cq; apply total_rev).
  rewrite Hd, !Hl. clear Hl Hd.
  assert (Hg : last (tl (rev (g :: map endpoint p))) far = g).
  { subst far. destruct (map endpoint p) as [|e l]; [reflexivity|].
    change (rev (g :: e :: l)) with (rev (e :: l) ++ [g]).
    rewrite tl_app; [apply last_last|]. cbn [rev]. intros H. apply app_eq_nil in H. destruct H as [_ H]. discriminate. }
  rewrite Hg. reflexivity.
Qed.

(* ---- relayed messages: the header clause holds on every leg ---- *)
(* whatever header the object carried before, a delivery names the module that sent this leg *)
Lemma buf_send_at_hdr gs h cur g t d :
  buf_send_at gs h cur g t = SDelivered d -> d_sender d = cur /\ d_receiver d = d_to d.
Proof.
  unfold buf_send_at. cbn zeta. destruct (lookup gs g) as [x|]; [|discriminate].
  destruct (Nat.ltb 1 (len x)); [discriminate|].
  destruct (handle_with_sink (fuel_of gs) gs (new_unchecked g) t g) as [[[o t'] l]|]; [|discriminate].
  intros H. injection H as <-. split; reflexivity.
Qed.

(* [cur] performs the first send of the list; each later leg is sent by the
   module that received the previous one; only the last leg may fail *)
Fixpoint chain_ok (cur : N) (l : list (N * sres)) : Prop :=
  match l with
  | [] => True
  | (_, SDelivered d) :: r => d_sender d = cur /\ d_receiver d = d_to d /\ chain_ok (d_to d) r
  | (_, _) :: r => r = []
  end.

Theorem legs_sender_chain b gs rules h cur g t leg : chain_ok cur (legs b gs rules h cur g t leg).
Proof.
  revert h cur g t leg; induction b as [|b IH]; intros h cur g t leg; cbn [legs chain_ok];
    destruct (buf_send_at gs h cur g t) as [d| |] eqn:E; try reflexivity.
  - destruct (buf_send_at_hdr _ _ _ _ _ _ E) as [H1 H2]. repeat split; assumption.
  - destruct (buf_send_at_hdr _ _ _ _ _ _ E) as [H1 H2]. split; [exact H1|]. split; [exact H2|].
    destruct (find_rule rules (d_last d)) as [[g' dl]|]; [apply IH|exact I].
Qed.

(* every leg is one application of buf_send_at to the received object, on the
   gate and after the delay the forwarding rule names *)
Lemma legs_unfold b gs rules h cur g t leg :
  legs b gs rules h cur g t leg =
  (leg, buf_send_at gs h cur g t) ::
  match buf_send_at gs h cur g t, b with
  | SDelivered d, S b' =>
      match find_rule rules (d_last d) with
      | Some (g', dl) => legs b' gs rules (hdr_of d) (d_to d) g' (d_time d + dl) (leg + 1)
      | None => []
      end
  | _, _ => []
  end.
Proof. destruct b; reflexivity. Qed.

Lemma legs_length b gs rules h cur g t leg : (1 <= length (legs b gs rules h cur g t leg) <= b + 1)%nat.
Proof.
  revert h cur g t leg; induction b as [|b IH]; intros h cur g t leg; cbn [legs length].
  - destruct (buf_send_at gs h cur g t); cbn [length]; lia.
  - destruct (buf_send_at gs h cur g t) as [d| |]; cbn [length]; try lia.
    destruct (find_rule rules (d_last d)) as [[g' dl]|]; cbn [length]; [|lia].
    specialize (IH (hdr_of d) (d_to d) g' (d_time d + dl) (leg + 1)). lia.
Qed.

(* ---- scripts: every send of a script is answered by exactly one list of legs ---- *)
Theorem script_deliveries owners ops k g t d b x :
  let gs := sgates (fst (exec (init owners) ops)) in
  let rules := rules_of gs ops in
  nth_error (sends_of gs ops) k = Some (g, t, d, b) ->
  lookup gs g = Some x -> kind_of x <> Transit ->
  length (map (send_one gs rules) (sends_of gs ops)) = length (sends_of gs ops) /\
  exists p rest, path_iter gs g = Some (Some p) /\
    let far := last (map endpoint p) g in
    nth_error (map (send_one gs rules) (sends_of gs ops)) k =
    Some ((0, SDelivered {| d_to := owner_of gs far; d_time := t + d + path_delay p;
                            d_sender := owner_of gs g; d_receiver := owner_of gs far; d_last := far |}) :: rest) /\
    chain_ok (owner_of gs far) rest /\ (length rest <= N.to_nat b)%nat.
Proof.
  intros gs rules Hk L K. split; [apply map_length|].
  pose proof (inv_reachable owners ops) as HI. fold gs in HI.
  destruct (delivered_once_to_far_owner gs fresh_header (owner_of gs g) g x (t + d) HI L K) as [p [HP HB]].
  cbn zeta in HB.
  pose proof (legs_sender_chain (N.to_nat b) gs rules fresh_header (owner_of gs g) g (t + d) 0) as HC.
  pose proof (legs_length (N.to_nat b) gs rules fresh_header (owner_of gs g) g (t + d) 0) as HL.
  rewrite legs_unfold in HC, HL. rewrite HB in HC, HL.
  exists p. eexists. split; [exact HP|]. cbn zeta.
  rewrite (map_nth_error _ _ _ Hk). unfold send_one. rewrite legs_unfold, HB.
  split; [reflexivity|]. cbn [chain_ok] in HC. cbn [length] in HL.
  split; [destruct HC as [_ [_ HC]]; exact HC|lia].
Qed.
