(* A message that waits in the queue of a busy channel resumes with exactly the
   connection it was offered on: Buffer::enqueue / dequeue keep (endpoint,
   endpoint_id), send_message puts the channel handle back.  Which gate and
   module a message is routed to does not depend on when it continues. *)
From Coq Require Import List Arith NArith Lia Bool.
From DesVerif Require Import Gate.Model Gate.Map Gate.Sym Gate.Walk Gate.Mirror Gate.Deliver.
Import ListNotations.
Open Scope N_scope.

(* what next_hop looks at *)
Definition pos (c : conn) : N * sid := (endpoint c, endpoint_id c).

Lemma enqueue_keeps_pos b m con :
  exists c', enqueue b m con = b ++ [(m, c')] /\ pos c' = pos con.
Proof. eexists. split; [reflexivity|reflexivity]. Qed.

(* FIFO: enqueueing a list of offers onto a buffer and dequeueing gives them back in order *)
Fixpoint enqueue_all (b : buffer) (offers : list (N * conn)) : buffer :=
  match offers with
  | [] => b
  | (m, c) :: r => enqueue_all (enqueue b m c) r
  end.

Fixpoint dequeue_all (fuel : nat) (b : buffer) : list (N * conn) :=
  match fuel with
  | O => []
  | S f => match dequeue b with Some (x, r) => x :: dequeue_all f r | None => [] end
  end.

Lemma dequeue_all_id b : dequeue_all (length b) b = b.
Proof. induction b as [|x r IH]; [reflexivity|]. cbn [length dequeue_all dequeue]. rewrite IH. reflexivity. Qed.

Lemma enqueue_all_app b offers :
  enqueue_all b offers =
  b ++ map (fun x => (fst x, {| endpoint := endpoint (snd x); endpoint_id := endpoint_id (snd x); channel := None |})) offers.
Proof.
  revert b; induction offers as [|[m c] r IH]; intros b; cbn [enqueue_all map]; [rewrite app_nil_r; reflexivity|].
  rewrite IH. unfold enqueue. rewrite <- app_assoc. reflexivity.
Qed.

Theorem queue_preserves_connection offers :
  let b := enqueue_all [] offers in
  map (fun x => (fst x, pos (snd x))) (dequeue_all (length b) b) = map (fun x => (fst x, pos (snd x))) offers.
Proof.
  cbn zeta. rewrite dequeue_all_id, enqueue_all_app. cbn [app]. rewrite map_map. apply map_ext.
  intros [m c]. reflexivity.
Qed.

(* the connection a channel hands to MessageExitingConnection after the wait is
   the one the message was offered on *)
Theorem resume_same_connection ch con m :
  channel con = Some ch ->
  forall c' r, dequeue (enqueue [] m con) = Some ((m, c'), r) -> restore ch c' = con.
Proof.
  intros Hc c' r H. cbn in H. injection H as <- <-. unfold restore. cbn [endpoint endpoint_id].
  destruct con as [e i c]. cbn [channel] in Hc. subst c. reflexivity.
Qed.

(* routing does not depend on the time at which the walk continues *)
Lemma hws_route_time_indep gs fuel c now last_g o t l :
  handle_with_sink fuel gs c now last_g = Some (o, t, l) ->
  forall now', exists t', handle_with_sink fuel gs c now' last_g = Some (o, t', l).
Proof.
  revert c now last_g; induction fuel as [|f IH]; intros c now last_g H now'; cbn [handle_with_sink] in *; [discriminate|].
  destruct (next_hop gs c) as [n|].
  - destruct (channel n) as [ch|]; eapply IH; exact H.
  - injection H as <- <- <-. eexists. reflexivity.
Qed.
