(* The C08 theorems instantiated on every reachable gate table, i.e. after an
   arbitrary script prefix: any gate declaration, any sequence of connect calls
   (any order, orientation, channels, duplicates, rejected ones) and queries. *)
From Coq Require Import List Arith NArith Lia Bool.
From DesVerif Require Import Gate.Model Gate.Map Gate.Sym Gate.Walk Gate.Mirror Gate.Deliver.
Import ListNotations.
Open Scope N_scope.

Definition reach (owners : list N) (ops : list op) : state := fst (exec (init owners) ops).
Definition rgates (owners : list N) (ops : list op) : gates := sgates (reach owners ops).

Lemma reach_inv owners ops : Inv (rgates owners ops).
Proof. apply inv_reachable. Qed.

Lemma reach_sym owners ops g i c :
  slot (rgates owners ops) g i = Some c ->
  exists c', slot (rgates owners ops) (endpoint c) (endpoint_id c) = Some c' /\
             endpoint c' = g /\ endpoint_id c' = i /\ channel c' = channel c.
Proof. apply (inv_sym _ (reach_inv owners ops)). Qed.

Lemma reach_fill owners ops g :
  slot (rgates owners ops) g S1 <> None -> slot (rgates owners ops) g S0 <> None.
Proof. apply (inv_fill _ (reach_inv owners ops)). Qed.

Lemma reach_degree owners ops g :
  (length (peers (rgates owners ops) g) <= 2)%nat /\ NoDup (peers (rgates owners ops) g) /\
  ~ In g (peers (rgates owners ops) g).
Proof. apply degree_le_2. apply reach_inv. Qed.

(* occupied slots survive whatever is executed later *)
Lemma reach_mono owners ops more g i c :
  slot (rgates owners ops) g i = Some c -> slot (rgates owners (ops ++ more)) g i = Some c.
Proof.
  unfold rgates, reach. intros H.
  assert (E : forall s l1 l2, fst (exec s (l1 ++ l2)) = fst (exec (fst (exec s l1)) l2)).
  { intros s l1; revert s; induction l1 as [|o r IH]; intros s l2; [reflexivity|].
    cbn [app]. rewrite !exec_cons. apply IH. }
  rewrite E. apply exec_mono; [apply inv_reachable|exact H].
Qed.

Lemma reach_third_peer owners ops a b ch p q :
  let s := reach owners ops in
  slot (sgates s) a S0 = Some p -> slot (sgates s) a S1 = Some q ->
  endpoint p <> b -> endpoint q <> b -> lookup (sgates s) b <> None ->
  (exists site, snd (connect s a b ch) = OPanic site) /\ sgates (fst (connect s a b ch)) = sgates s /\
  (exists site, snd (connect s b a ch) = OPanic site) /\ sgates (fst (connect s b a ch)) = sgates s.
Proof. intros s. apply third_peer_rejected. apply reach_inv. Qed.

Lemma reach_connect_symmetric owners ops a b ch :
  let s := reach owners ops in
  sgates (fst (connect s a b ch)) = sgates (fst (connect s b a ch)) /\
  (poisoned s = [] -> snd (connect s a b ch) = snd (connect s b a ch)).
Proof. intros s. apply connect_symmetric. apply reach_inv. Qed.

Lemma reach_connect_connected owners ops a b ch :
  let s := reach owners ops in
  snd (connect s a b ch) = OUnit ->
  connected (sgates (fst (connect s a b ch))) a b /\ connected (sgates (fst (connect s a b ch))) b a.
Proof. intros s. apply connect_connected. apply reach_inv. Qed.

Lemma reach_connect_idempotent owners ops a b ch ch' :
  let s := reach owners ops in
  poisoned s = [] -> snd (connect s a b ch) = OUnit ->
  let s1 := fst (connect s a b ch) in
  connect s1 a b ch' = (s1, OUnit) /\ connect s1 b a ch' = (s1, OUnit).
Proof. intros s. apply connect_idempotent. apply reach_inv. Qed.

Lemma reach_walk_terminates owners ops g x :
  let gs := rgates owners ops in
  lookup gs g = Some x -> kind_of x <> Transit ->
  (exists p, path_iter gs g = Some (Some p)) /\
  (forall h sender t, buf_send_at gs h sender g t <> SOutOfFuel).
Proof.
  intros gs L K. pose proof (reach_inv owners ops) as HI. fold gs in HI. split.
  - eapply path_iter_total; eassumption.
  - intros h sender t. destruct (delivered_once_to_far_owner gs h sender g x t HI L K) as [p [_ H]].
    cbn zeta in H. rewrite H. discriminate.
Qed.

(* no operation of any script ever reports fuel exhaustion *)
Lemma connect_out s a b ch : snd (connect s a b ch) <> OOutOfFuel.
Proof.
  unfold connect. destruct (lookup (sgates s) a); [|discriminate]. destruct (lookup (sgates s) b); [|discriminate].
  destruct (a =? b); [discriminate|]. destruct (is_poisoned s a); [discriminate|].
  destruct (connected_to g b); [discriminate|]. destruct (is_poisoned s b); [discriminate|].
  destruct (Nat.ltb (len g) 2 && Nat.ltb (len g0) 2); discriminate.
Qed.

Lemma q_iter_out s g : Inv (sgates s) -> q_iter s g <> OOutOfFuel.
Proof.
  intros HI. unfold q_iter. destruct (lookup (sgates s) g) as [x|] eqn:L; [|discriminate].
  destruct (is_poisoned s g); [discriminate|].
  destruct (path_iter (sgates s) g) as [[p|]|] eqn:E; [|exfalso|discriminate].
  - destruct (any_poisoned s (map endpoint p)); discriminate.
  - destruct (path_iter_inv _ _ _ E) as [x' [L' [K Hw]]].
    apply (walk_from_endpoint_terminates _ _ _ HI L' K). symmetry. exact Hw.
Qed.

Lemma step_out s o : Inv (sgates s) -> snd (step s o) <> OOutOfFuel.
Proof.
  intros HI. destruct o; cbn [step snd].
  - apply connect_out.
  - unfold q_kind. destruct (lookup (sgates s) g); [|discriminate]. destruct (is_poisoned s g); discriminate.
  - unfold q_next. destruct (lookup (sgates s) g) as [x|]; [|discriminate]. destruct (is_poisoned s g); [discriminate|].
    destruct (kind_of x); discriminate.
  - unfold q_end. pose proof (q_iter_out s g HI) as H. destruct (q_iter s g) as [| | | |p| | | | | | |]; try discriminate; [destruct p; discriminate|contradiction H; reflexivity].
  - apply q_iter_out. exact HI.
  - destruct (lookup (sgates s) g); discriminate.
  - destruct (lookup (sgates s) g); [destruct (lookup (sgates s) g')|]; discriminate.
  - discriminate.
  - apply connect_out.
  - discriminate.
Qed.

Lemma exec_snd_cons s o r : snd (exec s (o :: r)) = snd (step s o) :: snd (exec (fst (step s o)) r).
Proof. cbn [exec]. destruct (step s o) as [s' x]. cbn [fst snd]. destruct (exec s' r). reflexivity. Qed.

Lemma exec_no_fuel s ops : Inv (sgates s) -> ~ In OOutOfFuel (snd (exec s ops)).
Proof.
  revert s; induction ops as [|o r IH]; intros s HI; [intros []|].
  rewrite exec_snd_cons. intros [H|H].
  - apply (step_out s o HI). exact H.
  - apply (IH (fst (step s o))); [apply step_inv; exact HI|exact H].
Qed.

Lemma script_no_fuel owners ops : ~ In OOutOfFuel (snd (exec (init owners) ops)).
Proof. apply exec_no_fuel. apply init_inv. Qed.

Lemma reach_mirror owners ops g p :
  let gs := rgates owners ops in
  path_iter gs g = Some (Some p) ->
  exists q, path_iter gs (last (map endpoint p) g) = Some (Some q) /\
            map endpoint q = tl (rev (g :: map endpoint p)) /\
            map channel q = rev (map channel p).
Proof. intros gs. apply mirror. apply reach_inv. Qed.

Lemma reach_delivered owners ops h sender g x t :
  let gs := rgates owners ops in
  lookup gs g = Some x -> kind_of x <> Transit ->
  exists p, path_iter gs g = Some (Some p) /\
    let far := last (map endpoint p) g in
    buf_send_at gs h sender g t =
    SDelivered {| d_to := owner_of gs far; d_time := t + path_delay p;
                  d_sender := sender; d_receiver := owner_of gs far; d_last := far |}.
Proof. intros gs. apply delivered_once_to_far_owner. apply reach_inv. Qed.

Lemma reach_both_directions owners ops h sender g p t :
  let gs := rgates owners ops in
  path_iter gs g = Some (Some p) ->
  let far := last (map endpoint p) g in
  buf_send_at gs h sender far t =
  SDelivered {| d_to := owner_of gs g; d_time := t + path_delay p;
                d_sender := sender; d_receiver := owner_of gs g; d_last := g |}.
Proof. intros gs. apply both_directions. apply reach_inv. Qed.
