(* A chain enumerates as the exact mirror image when walked from its other end. *)
From Coq Require Import List Arith NArith Lia Bool.
From DesVerif Require Import Gate.Model Gate.Map Gate.Sym Gate.Walk.
Import ListNotations.
Open Scope N_scope.

(* the same gate, entered through the other slot *)
Definition flip (s : st) : st := (fst s, opp (snd s)).
(* the connection stored on the far side of [c], when [c] was taken out of state [s] *)
Definition back (c : conn) (s : st) : conn :=
  {| endpoint := fst s; endpoint_id := opp (snd s); channel := channel c |}.

Fixpoint revconns (s : st) (p : list conn) : list conn :=
  match p with
  | [] => []
  | c :: p' => revconns (stc c) p' ++ [back c s]
  end.

Fixpoint last_st (s : st) (p : list conn) : st :=
  match p with
  | [] => s
  | c :: p' => last_st (stc c) p'
  end.

Lemma Walk_rev gs s p : Sym gs -> Walk gs s p ->
  forall q, Walk gs (flip s) q -> Walk gs (flip (last_st s p)) (revconns s p ++ q).
Proof.
  intros HS W. induction W as [s Hn|s c p Hc W IH]; intros q Hq; cbn [last_st revconns app]; [exact Hq|].
  rewrite <- app_assoc. cbn [app]. apply IH.
  destruct (HS _ _ _ Hc) as [d [D [A [B C]]]].
  assert (Ed : d = back c s).
  { destruct d as [de di dc]. cbn [endpoint endpoint_id channel] in A, B, C. unfold back. subst. reflexivity. }
  subst d. apply W_cons.
  - unfold flip, stc. cbn [fst snd]. rewrite opp_opp. exact D.
  - unfold stc, back. cbn [endpoint endpoint_id]. exact Hq.
Qed.

Lemma Walk_end gs s p : Walk gs s p -> slot gs (fst (last_st s p)) (opp (snd (last_st s p))) = None.
Proof. induction 1 as [s Hn|s c p Hc W IH]; cbn [last_st]; assumption. Qed.

(* after at least one hop the slot we came in through is occupied *)
Lemma Walk_last_in gs s p : Sym gs -> Walk gs s p -> p <> [] ->
  slot gs (fst (last_st s p)) (snd (last_st s p)) <> None.
Proof.
  intros HS W. induction W as [s Hn|s c p Hc W IH]; intros Hp; [contradiction Hp; reflexivity|].
  cbn [last_st]. destruct p as [|c' p'].
  - cbn [last_st stc fst snd]. destruct (HS _ _ _ Hc) as [d [D _]]. rewrite D. discriminate.
  - apply IH. discriminate.
Qed.

Lemma tl_app {A} (l : list A) x : l <> [] -> tl (l ++ [x]) = tl l ++ [x].
Proof. destruct l; [intros H; contradiction H; reflexivity|reflexivity]. Qed.

Lemma revconns_endpoints s p : map endpoint (revconns s p) = tl (rev (fst s :: map endpoint p)).
Proof.
  revert s; induction p as [|c p IH]; intros s; [reflexivity|].
  cbn [revconns map]. rewrite map_app, IH. cbn [map back endpoint stc fst].
  change (rev (fst s :: endpoint c :: map endpoint p)) with (rev (endpoint c :: map endpoint p) ++ [fst s]).
  rewrite tl_app; [reflexivity|]. cbn [rev]. intros H. apply app_eq_nil in H. destruct H as [_ H]. discriminate.
Qed.

Lemma revconns_channels s p : map channel (revconns s p) = rev (map channel p).
Proof.
  revert s; induction p as [|c p IH]; intros s; [reflexivity|].
  cbn [revconns map rev]. rewrite map_app, IH. reflexivity.
Qed.

Lemma revconns_length s p : length (revconns s p) = length p.
Proof.
  revert s; induction p as [|c p IH]; intros s; [reflexivity|].
  cbn [revconns length]. rewrite app_length, IH. cbn [length]. lia.
Qed.

Lemma last_cons {A} (a : A) l d : last (a :: l) d = last l a.
Proof. revert a; induction l as [|b l IH]; intros a; [reflexivity|]. cbn [last] in *. destruct l; [reflexivity|]. apply IH. Qed.

Lemma last_st_endpoint s p : fst (last_st s p) = last (map endpoint p) (fst s).
Proof.
  revert s; induction p as [|c p IH]; intros s; [reflexivity|].
  cbn [last_st map]. rewrite last_cons, IH. reflexivity.
Qed.

Lemma path_iter_inv gs g r : path_iter gs g = Some r ->
  exists x, lookup gs g = Some x /\ kind_of x <> Transit /\ r = walk (fuel_of gs) gs (new_unchecked g).
Proof.
  unfold path_iter. destruct (lookup gs g) as [x|]; [|discriminate]. intros H. exists x. split; [reflexivity|].
  destruct (kind_of x); try discriminate; injection H as <-; (split; [discriminate|reflexivity]).
Qed.

(* path_iter from the far end yields the reversed gate sequence (minus the far
   end itself, plus the start), with the per-hop channels in reverse order *)
Theorem mirror gs g p :
  Inv gs -> path_iter gs g = Some (Some p) ->
  exists q, path_iter gs (last (map endpoint p) g) = Some (Some q) /\
            map endpoint q = tl (rev (g :: map endpoint p)) /\
            map channel q = rev (map channel p).
Proof.
  intros HI HP. destruct (path_iter_inv _ _ _ HP) as [x [L [K Hw]]]. symmetry in Hw.
  destruct p as [|c p].
  - exists []. cbn [map last rev tl app]. split; [exact HP|split; reflexivity].
  - set (s := (g, S1)). set (pp := c :: p) in *.
    pose proof (walk_Walk _ _ _ _ Hw) as W. change (stc (new_unchecked g)) with s in W.
    pose proof (endpoint_slot1 _ _ _ HI L K) as H1.
    assert (W0 : Walk gs (flip s) []) by (apply W_nil; exact H1).
    pose proof (Walk_rev _ _ _ (inv_sym _ HI) W [] W0) as WR. rewrite app_nil_r in WR.
    pose proof (Walk_end _ _ _ W) as Hend.
    assert (Hpp : pp <> []) by discriminate.
    pose proof (Walk_last_in _ _ _ (inv_sym _ HI) W Hpp) as Hin.
    pose proof (last_st_endpoint s pp) as He. cbn [fst] in He. fold s.
    destruct (last_st s pp) as [e j] eqn:El. cbn [fst snd] in *. subst e.
    assert (Hj : j = S0).
    { destruct j; [reflexivity|]. exfalso. cbn [opp] in Hend. apply (inv_fill _ HI _ Hin). exact Hend. }
    subst j. cbn [opp] in Hend.
    set (e := last (map endpoint pp) g) in *.
    destruct (slot gs e S0) as [d|] eqn:Ed; [|contradiction Hin; reflexivity].
    destruct (slot_some_lookup _ _ _ _ Ed) as [y [Ly _]].
    exists (revconns s pp). split; [|split].
    + unfold path_iter. rewrite Ly.
      assert (Ky : (len y < 2)%nat).
      { rewrite (slot_lookup _ _ _ _ Ly) in Hend. cbn [get] in Hend. unfold len. rewrite Hend. cbn.
        destruct (is_some (c0 y)); lia. }
      apply kind_not_transit in Ky.
      assert (Ww : walk (fuel_of gs) gs (new_unchecked e) = Some (revconns s pp)).
      { apply Walk_walk; [exact WR|]. rewrite revconns_length. eapply walk_length. exact Hw. }
      rewrite Ww. destruct (kind_of y); [reflexivity|reflexivity|contradiction Ky; reflexivity].
    + apply (revconns_endpoints s pp).
    + apply revconns_channels.
Qed.
