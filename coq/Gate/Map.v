(* Facts about the association-list gate map of Gate/Model.v: lookup/upd/slot,
   Connections::put and Connections::len. *)
From Coq Require Import List Arith NArith Lia Bool.
From DesVerif Require Import Gate.Model.
Import ListNotations.
Open Scope N_scope.

Lemma sid_eqb_refl i : sid_eqb i i = true.
Proof. destruct i; reflexivity. Qed.

Lemma sid_eqb_eq i j : sid_eqb i j = true <-> i = j.
Proof. destruct i, j; cbn; split; intros H; try reflexivity; discriminate. Qed.

Lemma opp_opp i : opp (opp i) = i.
Proof. destruct i; reflexivity. Qed.

Lemma opp_inj i j : opp i = opp j -> i = j.
Proof. destruct i, j; cbn; intros H; try reflexivity; discriminate. Qed.

Lemma opp_neq i : opp i <> i.
Proof. destruct i; discriminate. Qed.

(* ---- lookup / upd ---- *)
Lemma lookup_upd gs g f g' :
  lookup (upd gs g f) g' = if g =? g' then option_map f (lookup gs g') else lookup gs g'.
Proof.
  induction gs as [|[k x] r IH]; cbn [lookup upd].
  - destruct (g =? g'); reflexivity.
  - destruct (N.eqb_spec k g) as [Ekg|Ekg]; cbn [lookup]; destruct (N.eqb_spec k g') as [Ekg'|Ekg'].
    + subst. rewrite N.eqb_refl. reflexivity.
    + exact IH.
    + subst. destruct (N.eqb_spec g g') as [E|E]; [subst; contradiction|reflexivity].
    + exact IH.
Qed.

Lemma lookup_upd_same gs g f x : lookup gs g = Some x -> lookup (upd gs g f) g = Some (f x).
Proof. intros H. rewrite lookup_upd, N.eqb_refl, H. reflexivity. Qed.

Lemma lookup_upd_other gs g f g' : g <> g' -> lookup (upd gs g f) g' = lookup gs g'.
Proof. intros H. rewrite lookup_upd. destruct (N.eqb_spec g g'); [contradiction|reflexivity]. Qed.

Lemma upd_length gs g f : length (upd gs g f) = length gs.
Proof. induction gs as [|[k x] r IH]; cbn [upd length]; [reflexivity|]. rewrite IH. reflexivity. Qed.

Lemma upd_comm gs a b f h : a <> b -> upd (upd gs a f) b h = upd (upd gs b h) a f.
Proof.
  intros Hab. induction gs as [|[k x] r IH]; cbn [upd]; [reflexivity|]. rewrite IH. f_equal.
  destruct (N.eqb_spec k a) as [Ea|Ea], (N.eqb_spec k b) as [Eb|Eb]; cbn [upd fst snd];
    try (subst; contradiction).
  - destruct (N.eqb_spec k b); [contradiction|]. destruct (N.eqb_spec k a); [reflexivity|contradiction].
  - destruct (N.eqb_spec k b); [|contradiction]. destruct (N.eqb_spec k a); [contradiction|reflexivity].
  - destruct (N.eqb_spec k b); [contradiction|]. destruct (N.eqb_spec k a); [contradiction|reflexivity].
Qed.

Lemma slot_lookup gs g x i : lookup gs g = Some x -> slot gs g i = get i x.
Proof. intros H. unfold slot. rewrite H. reflexivity. Qed.

Lemma slot_some_lookup gs g i c : slot gs g i = Some c -> exists x, lookup gs g = Some x /\ get i x = Some c.
Proof. unfold slot. destruct (lookup gs g) as [x|]; [|discriminate]. intros H. exists x. split; [reflexivity|exact H]. Qed.

(* ---- len / put ---- *)
Definition fillok (x : gate) : Prop := c1 x <> None -> c0 x <> None.

Lemma len_le_2 x : (len x <= 2)%nat.
Proof. unfold len. destruct (is_some (c0 x)), (is_some (c1 x)); lia. Qed.

Lemma put_owner c x : owner (put c x) = owner x.
Proof. unfold put. destruct (c0 x); [destruct (c1 x)|]; reflexivity. Qed.

(* with the fill order respected and a free slot left, [put] writes exactly the
   slot whose index is [len] and leaves the other one alone *)
Lemma get_put c x i : fillok x -> (len x < 2)%nat ->
  get i (put c x) = if sid_eqb i (sid_of_len (len x)) then Some c else get i x.
Proof.
  unfold fillok, len, put. destruct x as [o [a|] [b|]]; cbn; intros F L; destruct i; cbn; try reflexivity; try lia;
    exfalso; assert (X : @None conn <> None) by (apply F; discriminate); apply X; reflexivity.
Qed.

Lemma get_free x : fillok x -> (len x < 2)%nat -> get (sid_of_len (len x)) x = None.
Proof.
  unfold fillok, len. destruct x as [o [a|] [b|]]; cbn; intros F L; try reflexivity; try lia.
  exfalso. assert (X : @None conn <> None) by (apply F; discriminate). apply X; reflexivity.
Qed.

Lemma len_S1 x : fillok x -> (len x < 2)%nat -> sid_of_len (len x) = S1 -> c0 x <> None.
Proof.
  unfold fillok, len. destruct x as [o [a|] [b|]]; cbn; intros F L E; try discriminate; try lia.
  apply F. discriminate.
Qed.

Lemma len_S0 x : sid_of_len (len x) = S0 -> c0 x = None /\ c1 x = None.
Proof. unfold len. destruct x as [o [a|] [b|]]; cbn; intros E; try discriminate. split; reflexivity. Qed.

Lemma connected_to_spec x h :
  connected_to x h = true <-> exists i c, get i x = Some c /\ endpoint c = h.
Proof.
  unfold connected_to. split.
  - intros H. apply orb_true_iff in H. destruct H as [H|H].
    + destruct (c0 x) as [c|] eqn:E; [|discriminate]. apply N.eqb_eq in H. exists S0, c. split; assumption.
    + destruct (c1 x) as [c|] eqn:E; [|discriminate]. apply N.eqb_eq in H. exists S1, c. split; assumption.
  - intros [i [c [Hg He]]]. apply orb_true_iff. destruct i; cbn [get] in Hg; rewrite Hg.
    + left. apply N.eqb_eq. exact He.
    + right. apply N.eqb_eq. exact He.
Qed.

Lemma kind_not_transit x : kind_of x <> Transit <-> (len x < 2)%nat.
Proof.
  unfold kind_of. pose proof (len_le_2 x) as L. destruct (len x) as [|[|[|n]]]; split; intros H; try lia; try discriminate.
  - contradiction H; reflexivity.
Qed.

(* ---- fresh gate table ---- *)
Lemma lookup_mk_gates k owners g x : lookup (mk_gates k owners) g = Some x -> c0 x = None /\ c1 x = None.
Proof.
  revert k; induction owners as [|o r IH]; intros k; cbn [mk_gates lookup]; [discriminate|].
  destruct (k =? g); [|apply IH]. intros H. injection H as <-. split; reflexivity.
Qed.

Lemma lookup_app gs l g :
  lookup (gs ++ l) g = match lookup gs g with Some x => Some x | None => lookup l g end.
Proof.
  induction gs as [|[k x] r IH]; cbn [app lookup]; [reflexivity|]. destruct (k =? g); [reflexivity|exact IH].
Qed.
