//! Build script of the implementation runners: looks into the des sources the runners are built
//! against (the `des = { path = ".." }` dependency of this manifest) and switches optional
//! verification hooks on when they are there, so that runner code using a hook stays inert until
//! the hook has been committed to the repository.
//!   cfg(des_timer_ids): ModuleRef::verif_timer_entry_ids exists (fixes/hook_timer_ids.diff)
//!   cfg(des_own_counts): ModuleRef::verif_own_probe exists (fixes/hook_own_counts.diff)
use std::fs;
use std::path::PathBuf;

fn main() {
    println!("cargo:rustc-check-cfg=cfg(des_timer_ids)");
    println!("cargo:rustc-check-cfg=cfg(des_own_counts)");
    let dir = PathBuf::from(std::env::var("CARGO_MANIFEST_DIR").unwrap());
    let manifest = fs::read_to_string(dir.join("Cargo.toml")).unwrap_or_default();
    println!("cargo:rerun-if-changed=Cargo.toml");
    // des = { path = "/repo/des", ... }
    let des = manifest
        .lines()
        .find(|l| l.trim_start().starts_with("des ") || l.trim_start().starts_with("des="))
        .and_then(|l| l.split("path").nth(1))
        .and_then(|r| r.split('"').nth(1))
        .map(PathBuf::from);
    if let Some(des) = des {
        let des = if des.is_absolute() { des } else { dir.join(des) };
        let refs = des.join("src/net/module/refs.rs");
        println!("cargo:rerun-if-changed={}", refs.display());
        if fs::read_to_string(&refs).map(|s| s.contains("fn verif_timer_entry_ids")).unwrap_or(false) {
            println!("cargo:rustc-cfg=des_timer_ids");
        }
        if fs::read_to_string(&refs).map(|s| s.contains("fn verif_own_probe")).unwrap_or(false) {
            println!("cargo:rustc-cfg=des_own_counts");
        }
    }
}
