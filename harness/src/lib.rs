//! implrun: runs scripts against the real PetrichorIT/des crates.
//!
//! Each binary `src/bin/<model>.rs` reads one script per line from stdin (decimal
//! integers separated by blanks, the same lines `modelrun/build/<model>` reads)
//! and prints one line of integers per script.  A panic that escapes a script's
//! own handling prints the single number 666.
use std::io::{BufRead, Write};
use std::panic::{catch_unwind, AssertUnwindSafe};

pub fn run_main(f: fn(&[u64]) -> Vec<u64>) {
    // scripts provoke panics on purpose; keep stderr quiet
    std::panic::set_hook(Box::new(|_| {}));
    // watchdog: a script that does not finish (e.g. a loop that no longer terminates) kills the
    // process instead of stalling the check; the orchestrator attributes the crash to that script
    let limit: u64 = std::env::var("IMPLRUN_WATCHDOG_SECS").ok().and_then(|v| v.parse().ok()).unwrap_or(10);
    let progress = std::sync::Arc::new(std::sync::atomic::AtomicU64::new(0));
    {
        let progress = progress.clone();
        std::thread::spawn(move || {
            let mut last = 0u64;
            let mut since = std::time::Instant::now();
            loop {
                std::thread::sleep(std::time::Duration::from_millis(500));
                let cur = progress.load(std::sync::atomic::Ordering::SeqCst);
                if cur != last {
                    last = cur;
                    since = std::time::Instant::now();
                } else if cur % 2 == 1 && since.elapsed().as_secs() >= limit {
                    // odd = a script is in flight
                    std::process::abort();
                }
            }
        });
    }
    let stdin = std::io::stdin();
    let stdout = std::io::stdout();
    let mut out = std::io::BufWriter::new(stdout.lock());
    for line in stdin.lock().lines() {
        let line = line.expect("read");
        let nums: Vec<u64> = line
            .split_whitespace()
            .map(|t| t.parse::<u64>().expect("integer"))
            .collect();
        progress.fetch_add(1, std::sync::atomic::Ordering::SeqCst);
        let res = catch_unwind(AssertUnwindSafe(|| f(&nums)));
        progress.fetch_add(1, std::sync::atomic::Ordering::SeqCst);
        let res = res.unwrap_or_else(|_| vec![666]);
        let strs: Vec<String> = res.iter().map(|x| x.to_string()).collect();
        writeln!(out, "{}", strs.join(" ")).unwrap();
        // flush per script: if a later script aborts the process, the results so far survive
        out.flush().unwrap();
    }
    out.flush().unwrap();
}

/// Cursor over a script, with the same totalising conventions as coq/Common/Codec.v.
pub struct Cur<'a> {
    pub v: &'a [u64],
    pub i: usize,
}
impl<'a> Cur<'a> {
    pub fn new(v: &'a [u64]) -> Self { Cur { v, i: 0 } }
    pub fn done(&self) -> bool { self.i >= self.v.len() }
    pub fn left(&self) -> usize { self.v.len().saturating_sub(self.i) }
    pub fn peek(&self) -> Option<u64> { self.v.get(self.i).copied() }
    /// next number, 0 when exhausted (Codec.take1)
    pub fn next(&mut self) -> u64 {
        let x = self.v.get(self.i).copied().unwrap_or(0);
        self.i += 1;
        x
    }
    /// length-prefixed list (Codec.take_lp): `len x1 .. xlen`, truncated at the end of input
    pub fn take_lp(&mut self) -> Vec<u64> {
        if self.done() { return vec![]; }
        let k = self.next() as usize;
        let mut out = Vec::new();
        for _ in 0..k {
            if self.done() { break; }
            out.push(self.next());
        }
        out
    }
}
