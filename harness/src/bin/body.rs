//! Message bodies (C16).  Three script kinds, selected by the first number
//! (mirrors coq/Body/Model.v `run`):
//!
//! `0 op*` — the body protocol on 4 message slots, through the public `Message`
//!   API of the real crate.  Tags 1..=23 name Rust types (see `dispatch!`).
//!   op = 1 s mode t v L (slot := new message with content)   | 12 s (new message without content)
//!      | 2 s mode t v L (set_content & co. on the message)    | 3 s t (can_cast) | 4 s t (try_cast)
//!      | 5 s t (try_content) | 6 s d (try_clone into d) | 7 s d (clone into d) | 8 s (drop)
//!      | 9 s (length) | 10 k (drop k-th cast-out value) | 11 s (observe)
//!   (t is mapped to tag 1 + t % 23; mode 0 new, 1 non_clonable, 2 non_debugable, 3 new_with_len L).
//!   Every record is followed by the sorted list (length-prefixed) of serials whose
//!   destructor ran during the operation (0 for the zero-sized type Z).
//!   Records: 0 (empty slot) | 1 ser len | 2 b | 3 val ser hid (cast ok) | 4 obs (cast failed,
//!   returned message) | 5 val ser | 6 | 7 ser | 8 | 9 1 (clone panicked) | 10 | 11 len charged | 12 | 13 obs
//!   with obs = tag val ser body_len msg_len header_id;  final record 14 serials_drawn drops.
//!   `charged` is ChannelMetrics::calculate_busy of the message at 8 Gbit/s in ns (= bytes charged).
//!
//! `1 decl` — `des_macros_core::message_body::derive_impl` on a generated declaration; prints the
//!   canonical form of its token output (coq/Body/Derive.v `enc_output`).
//!
//! `2 fam k l*` — `byte_len()` of a value of one of eight `#[derive(MessageBody)]` types compiled in
//!   (record `15 len`).
//!
//! `3 fam mode n*` — a value of the (fam % 19)-th of a family of std types (arrays, collections, maps,
//!   options/results, boxes, tuples, net/time types, a derived struct with an array field) built from the
//!   numbers n* with heterogeneous element lengths, stored with Body::new (even mode) or
//!   Body::new_non_clonable (odd); record `16 byte_len Message::length channel_charge`
//!   (coq/Body/StdLen.v `fam_value` / `std_byte_len`).
use des::net::channel::{ChannelDropBehaviour, ChannelMetrics};
use des::net::message::{Body, Message};
use des::time::Duration;
use des::prelude::MessageBody;
use std::any::Any;
use std::cell::{Cell, RefCell};
use std::fmt::Debug;
use std::panic::{catch_unwind, AssertUnwindSafe};

/// The code under test is `unsafe`: a defect there (double free, wild pointer) aborts the
/// process instead of unwinding.  The scripts therefore run in a worker process that answers
/// line by line; when it dies, the supervisor prints 666 for exactly the script that killed it
/// and continues with a fresh worker, so one crash cannot swallow the results of other scripts.
fn main() {
    if std::env::args().nth(1).as_deref() == Some("--worker") {
        worker::run(run_line_guarded);
    } else {
        supervise();
    }
}

mod worker {
    use std::io::{BufRead, Write};
    /// same contract as the shared `implrun::run_main`, but flushes after every line
    pub fn run(f: fn(&[u64]) -> Vec<u64>) {
        std::panic::set_hook(Box::new(|_| {}));
        let stdin = std::io::stdin();
        let mut out = std::io::stdout().lock();
        for line in stdin.lock().lines() {
            let line = line.expect("read");
            let nums: Vec<u64> = line.split_whitespace().map(|t| t.parse::<u64>().expect("integer")).collect();
            let strs: Vec<String> = f(&nums).iter().map(|x| x.to_string()).collect();
            writeln!(out, "{}", strs.join(" ")).unwrap();
            out.flush().unwrap();
        }
    }
}

fn run_line_guarded(nums: &[u64]) -> Vec<u64> {
    catch_unwind(AssertUnwindSafe(|| run_line(nums))).unwrap_or_else(|_| vec![666])
}

fn supervise() {
    use std::io::{BufRead, BufReader, BufWriter, Write};
    use std::process::{Command, Stdio};
    let lines: Vec<String> = std::io::stdin().lock().lines().map(|l| l.expect("read")).collect();
    let exe = std::env::current_exe().expect("own path");
    let mut out = BufWriter::new(std::io::stdout().lock());
    let mut i = 0;
    while i < lines.len() {
        let mut child = Command::new(&exe)
            .arg("--worker")
            .stdin(Stdio::piped())
            .stdout(Stdio::piped())
            .stderr(Stdio::null())
            .spawn()
            .expect("spawn worker");
        let mut cin = child.stdin.take().expect("worker stdin");
        let mut cout = BufReader::new(child.stdout.take().expect("worker stdout"));
        while i < lines.len() {
            let sent = writeln!(cin, "{}", lines[i]).and_then(|()| cin.flush()).is_ok();
            let mut resp = String::new();
            let got = sent && matches!(cout.read_line(&mut resp), Ok(n) if n > 0) && resp.ends_with('\n');
            i += 1;
            if got {
                out.write_all(resp.as_bytes()).unwrap();
            } else {
                writeln!(out, "666").unwrap(); // the worker died on this script
                break;
            }
        }
        drop(cin);
        let _ = child.wait();
    }
    out.flush().unwrap();
}

fn run_line(nums: &[u64]) -> Vec<u64> {
    match nums.first() {
        Some(0) => run_body(&nums[1..]),
        Some(1) => run_derive(&nums[1..]),
        Some(2) => run_family(&nums[1..]),
        Some(3) => run_std(&nums[1..]),
        _ => vec![7],
    }
}

// ------------------------------------------------------------------ counted values
thread_local! {
    static NEXT_SER: Cell<u64> = const { Cell::new(1) };
    static DROPLOG: RefCell<Vec<u64>> = const { RefCell::new(Vec::new()) };
}
fn draw_serial() -> u32 {
    NEXT_SER.with(|c| {
        let s = c.get();
        c.set(s + 1);
        s as u32
    })
}
fn next_serial() -> u64 {
    NEXT_SER.with(Cell::get)
}
fn log_drop(ser: u64) {
    DROPLOG.with(|l| l.borrow_mut().push(ser));
}
fn take_log() -> Vec<u64> {
    let mut l = DROPLOG.with(|l| std::mem::take(&mut *l.borrow_mut()));
    l.sort_unstable();
    l
}

macro_rules! counted {
    ($name:ident, $len:expr) => {
        #[derive(Debug)]
        pub struct $name {
            val: u32,
            ser: u32,
        }
        impl $name {
            fn new(val: u32) -> Self {
                $name { val, ser: draw_serial() }
            }
        }
        impl Drop for $name {
            fn drop(&mut self) {
                log_drop(u64::from(self.ser));
            }
        }
        impl MessageBody for $name {
            fn byte_len(&self) -> usize {
                let f: fn(u32) -> usize = $len;
                f(self.val)
            }
        }
    };
}
counted!(Tok, |v| (v % 5) as usize * 3);
counted!(Tok2, |_| 7);
counted!(NoClone, |_| 5);
// a clone is a new stored value: it gets its own serial
impl Clone for Tok {
    fn clone(&self) -> Self {
        Tok { val: self.val, ser: draw_serial() }
    }
}
impl Clone for Tok2 {
    fn clone(&self) -> Self {
        Tok2 { val: self.val, ser: draw_serial() }
    }
}

/// zero-sized, with an observable destructor
#[derive(Debug, Clone)]
struct Z;
impl Drop for Z {
    fn drop(&mut self) {
        log_drop(0);
    }
}
impl MessageBody for Z {
    fn byte_len(&self) -> usize {
        0
    }
}

#[derive(Debug, Clone, MessageBody)]
struct DS {
    tok: Tok,
    _n: u64,
    s: String,
}

#[derive(Debug, Clone, MessageBody)]
enum DE {
    A(Tok),
    B { t: Tok, _x: u16 },
}

// ------------------------------------------------------------------ the tag universe
const NT: u64 = 23;
const BAD: u64 = 999_999;
const ALPHA: &str = "abcdefghijklmnopqrstuvwxyz";

trait TagT: MessageBody + Any + Send + Debug + Sized + 'static {
    /// the Rust value a script number stands for
    fn make(v: u64) -> Self;
    /// (value, serial) carried by it
    fn read(&self) -> (u64, u64);
    /// store into the message by creation mode; returns the length the body has to declare
    fn store(self, msg: &mut Message, mode: u64, l: u64) -> u64;
    /// the same for a fresh message (uses the builder for mode 0)
    fn store_new(self, msg: Message, mode: u64, l: u64) -> (Message, u64) {
        let mut m = msg;
        let d = self.store(&mut m, mode, l);
        (m, d)
    }
}

macro_rules! clonable_tag {
    ($t:ty, $make:expr, $read:expr) => {
        impl TagT for $t {
            fn make(v: u64) -> Self {
                let f: fn(u64) -> $t = $make;
                f(v)
            }
            fn read(&self) -> (u64, u64) {
                let f: fn(&$t) -> (u64, u64) = $read;
                f(self)
            }
            fn store(self, msg: &mut Message, mode: u64, l: u64) -> u64 {
                match mode % 4 {
                    0 => {
                        let d = self.byte_len() as u64;
                        msg.set_content(self);
                        d
                    }
                    1 => {
                        let d = self.byte_len() as u64;
                        msg.set_content_non_clonable(self);
                        d
                    }
                    2 => {
                        msg.set_content_non_debugable(self);
                        std::mem::size_of::<$t>() as u64
                    }
                    _ => {
                        msg.set_body(Body::new_with_len(self, l as usize));
                        l
                    }
                }
            }
            fn store_new(self, msg: Message, mode: u64, l: u64) -> (Message, u64) {
                if mode % 4 == 0 {
                    let d = self.byte_len() as u64;
                    (msg.with_content(self), d)
                } else {
                    let mut m = msg;
                    let d = self.store(&mut m, mode, l);
                    (m, d)
                }
            }
        }
    };
}

const P32: u64 = 1 << 32;
clonable_tag!(u32, |v| (v % P32) as u32, |x| (u64::from(*x), 0));
clonable_tag!(i32, |v| (v % P32) as u32 as i32, |x| (u64::from(*x as u32), 0));
clonable_tag!(f32, |v| f32::from_bits((v % (1 << 24)) as u32), |x| (u64::from(x.to_bits()), 0));
clonable_tag!([u8; 4], |v| ((v % P32) as u32).to_le_bytes(), |x| (u64::from(u32::from_le_bytes(*x)), 0));
clonable_tag!(u64, |v| v, |x| (*x, 0));
clonable_tag!(
    String,
    |v| (0..(v % 41)).map(|i| (b'a' + (i % 26) as u8) as char).collect(),
    |x| {
        let ok = x.bytes().enumerate().all(|(i, b)| b == b'a' + (i % 26) as u8);
        (if ok { x.len() as u64 } else { BAD }, 0)
    }
);
clonable_tag!(&'static str, |v| &ALPHA[..(v % 27) as usize], |x| {
    (if ALPHA.starts_with(*x) { x.len() as u64 } else { BAD }, 0)
});
clonable_tag!(
    Vec<u16>,
    |v| {
        let w = v % 65536;
        vec![w as u16; (w % 8 + 1) as usize]
    },
    |x| {
        let ok = !x.is_empty() && x.iter().all(|y| *y == x[0]) && x.len() as u64 == u64::from(x[0]) % 8 + 1;
        (if ok { u64::from(x[0]) } else { BAD }, 0)
    }
);
clonable_tag!(Tok, |v| Tok::new((v % P32) as u32), |x| (u64::from(x.val), u64::from(x.ser)));
clonable_tag!(Tok2, |v| Tok2::new((v % P32) as u32), |x| (u64::from(x.val), u64::from(x.ser)));
clonable_tag!(Z, |_| Z, |_| (0, 0));
clonable_tag!(Option<Tok>, |v| Some(Tok::new((v % P32) as u32)), |x| match x {
    Some(t) => (u64::from(t.val), u64::from(t.ser)),
    None => (BAD, 0),
});
clonable_tag!(Box<Tok>, |v| Box::new(Tok::new((v % P32) as u32)), |x| (u64::from(x.val), u64::from(x.ser)));
clonable_tag!(
    DS,
    |v| {
        let w = (v % P32) as u32;
        DS { tok: Tok::new(w), _n: u64::from(w) + 1, s: "x".repeat((w % 7) as usize) }
    },
    |x| {
        let ok = x._n == u64::from(x.tok.val) + 1 && x.s == "x".repeat((x.tok.val % 7) as usize);
        (if ok { u64::from(x.tok.val) } else { BAD }, u64::from(x.tok.ser))
    }
);
clonable_tag!(
    DE,
    |v| {
        let w = (v % P32) as u32;
        if w % 2 == 0 {
            DE::A(Tok::new(w))
        } else {
            DE::B { t: Tok::new(w), _x: 7 }
        }
    },
    |x| match x {
        DE::A(t) if t.val % 2 == 0 => (u64::from(t.val), u64::from(t.ser)),
        DE::B { t, _x: 7 } if t.val % 2 == 1 => (u64::from(t.val), u64::from(t.ser)),
        DE::A(t) | DE::B { t, .. } => (BAD, u64::from(t.ser)),
    }
);
clonable_tag!((), |_| (), |_| (0, 0));

// not Clone: can only be stored through the non-clonable constructor
impl TagT for NoClone {
    fn make(v: u64) -> Self {
        NoClone::new((v % P32) as u32)
    }
    fn read(&self) -> (u64, u64) {
        (u64::from(self.val), u64::from(self.ser))
    }
    fn store(self, msg: &mut Message, _mode: u64, _l: u64) -> u64 {
        let d = self.byte_len() as u64;
        msg.set_content_non_clonable(self);
        d
    }
}

// ---- distinct types that a comparison by name or by layout would confuse (all { val: u32, ser: u32 } + Drop)
/// names a type declared inside a function body from the outside
trait Pick {
    type T: TagT;
}
struct PickA;
struct PickB;
type ReadingA = <PickA as Pick>::T;
type ReadingB = <PickB as Pick>::T;

/// Two different types, both called `Reading`, declared in sibling blocks of one function: their
/// `std::any::type_name` is identical, their `TypeId` is not.
#[allow(dead_code)]
fn same_named_types() {
    {
        counted!(Reading, |_| 3);
        impl Clone for Reading {
            fn clone(&self) -> Self {
                Reading { val: self.val, ser: draw_serial() }
            }
        }
        clonable_tag!(Reading, |v| Reading::new((v % P32) as u32), |x| (u64::from(x.val), u64::from(x.ser)));
        impl Pick for PickA {
            type T = Reading;
        }
    }
    {
        counted!(Reading, |_| 3);
        impl Clone for Reading {
            fn clone(&self) -> Self {
                Reading { val: self.val, ser: draw_serial() }
            }
        }
        clonable_tag!(Reading, |v| Reading::new((v % P32) as u32), |x| (u64::from(x.val), u64::from(x.ser)));
        impl Pick for PickB {
            type T = Reading;
        }
    }
}

/// one generic type at two arguments: the names differ in the generic argument only
#[derive(Debug)]
struct Gen<T: 'static> {
    val: u32,
    ser: u32,
    _p: std::marker::PhantomData<T>,
}
impl<T> Gen<T> {
    fn new(val: u32) -> Self {
        Gen { val, ser: draw_serial(), _p: std::marker::PhantomData }
    }
}
impl<T> Clone for Gen<T> {
    fn clone(&self) -> Self {
        Gen { val: self.val, ser: draw_serial(), _p: std::marker::PhantomData }
    }
}
impl<T> Drop for Gen<T> {
    fn drop(&mut self) {
        log_drop(u64::from(self.ser));
    }
}
impl<T> MessageBody for Gen<T> {
    fn byte_len(&self) -> usize {
        6
    }
}
clonable_tag!(Gen<u32>, |v| Gen::new((v % P32) as u32), |x| (u64::from(x.val), u64::from(x.ser)));
clonable_tag!(Gen<i32>, |v| Gen::new((v % P32) as u32), |x| (u64::from(x.val), u64::from(x.ser)));

/// the same item name in two modules: the paths differ in one inner segment only
mod left {
    use super::*;
    counted!(Sample, |_| 1);
    impl Clone for Sample {
        fn clone(&self) -> Self {
            Sample { val: self.val, ser: draw_serial() }
        }
    }
    clonable_tag!(Sample, |v| Sample::new((v % P32) as u32), |x| (u64::from(x.val), u64::from(x.ser)));
}
mod right {
    use super::*;
    counted!(Sample, |_| 1);
    impl Clone for Sample {
        fn clone(&self) -> Self {
            Sample { val: self.val, ser: draw_serial() }
        }
    }
    clonable_tag!(Sample, |v| Sample::new((v % P32) as u32), |x| (u64::from(x.val), u64::from(x.ser)));
}

macro_rules! dispatch {
    ($tag:expr, $f:ident, $($args:expr),*) => {
        match $tag {
            1 => $f::<u32>($($args),*),
            2 => $f::<i32>($($args),*),
            3 => $f::<f32>($($args),*),
            4 => $f::<[u8; 4]>($($args),*),
            5 => $f::<u64>($($args),*),
            6 => $f::<String>($($args),*),
            7 => $f::<&'static str>($($args),*),
            8 => $f::<Vec<u16>>($($args),*),
            9 => $f::<Tok>($($args),*),
            10 => $f::<Tok2>($($args),*),
            11 => $f::<Z>($($args),*),
            12 => $f::<NoClone>($($args),*),
            13 => $f::<Option<Tok>>($($args),*),
            14 => $f::<Box<Tok>>($($args),*),
            15 => $f::<DS>($($args),*),
            16 => $f::<DE>($($args),*),
            18 => $f::<ReadingA>($($args),*),
            19 => $f::<ReadingB>($($args),*),
            20 => $f::<Gen<u32>>($($args),*),
            21 => $f::<Gen<i32>>($($args),*),
            22 => $f::<left::Sample>($($args),*),
            23 => $f::<right::Sample>($($args),*),
            _ => $f::<()>($($args),*),
        }
    };
}

// ------------------------------------------------------------------ generic operations
fn op_new<T: TagT>(hid: u16, mode: u64, v: u64, l: u64) -> (Message, u64, u64) {
    let before = next_serial();
    let value = T::make(v);
    let ser = if next_serial() != before { before } else { 0 };
    let (m, d) = value.store_new(Message::default().id(hid), mode, l);
    (m, ser, d)
}
fn op_set<T: TagT>(msg: &mut Message, mode: u64, v: u64, l: u64) -> (u64, u64) {
    let before = next_serial();
    let value = T::make(v);
    let ser = if next_serial() != before { before } else { 0 };
    let d = value.store(msg, mode, l);
    (ser, d)
}
fn op_can_cast<T: TagT>(msg: &Message) -> bool {
    msg.can_cast::<T>()
}
fn op_try_content<T: TagT>(msg: &Message) -> Option<(u64, u64)> {
    msg.try_content::<T>().map(TagT::read)
}
type Held = Box<dyn Any>;
fn op_try_cast<T: TagT>(msg: Message) -> Result<(u64, u64, u64, Held), Message> {
    match msg.try_cast::<T>() {
        Ok((value, header)) => {
            let (val, ser) = value.read();
            Ok((val, ser, u64::from(header.id), Box::new(value)))
        }
        Err(m) => Err(m),
    }
}
fn probe<T: TagT>(msg: &Message) -> Option<(u64, u64)> {
    if msg.can_cast::<T>() {
        // a type that can be cast to must also be readable
        Some(msg.try_content::<T>().map_or((BAD, BAD), TagT::read))
    } else {
        None
    }
}
/// tag val ser body_len msg_len header_id — the tag is found by asking can_cast for every type
fn observe(msg: &Message) -> [u64; 6] {
    let mut found: Vec<(u64, u64, u64)> = Vec::new();
    for tag in 1..=NT {
        if let Some((val, ser)) = dispatch!(tag, probe, msg) {
            found.push((tag, val, ser));
        }
    }
    let (tag, val, ser) = match found.len() {
        0 => (0, 0, 0),
        1 => found[0],
        _ => (99, found.len() as u64, 0), // readable as more than one type
    };
    let mlen = msg.length() as u64;
    [tag, val, ser, mlen.wrapping_sub(64), mlen, u64::from(msg.header().id)]
}

fn run_body(nums: &[u64]) -> Vec<u64> {
    NEXT_SER.with(|c| c.set(1));
    let _ = take_log();
    let mut slots: Vec<Option<Message>> = vec![None, None, None, None];
    let mut held: Vec<Held> = Vec::new();
    let mut next_hid: u64 = 1;
    let mut out: Vec<u64> = Vec::new();
    let ctag = |t: u64| 1 + t % NT;
    let mut i = 0;
    while i < nums.len() {
        let code = nums[i];
        let arity = match code {
            1 | 2 => 6,
            3..=7 => 3,
            8..=12 => 2,
            _ => break,
        };
        if i + arity > nums.len() {
            break;
        }
        let a = &nums[i + 1..i + arity];
        i += arity;
        let s = (a[0] % 4) as usize;
        match code {
            1 => {
                let (m, ser, d) = dispatch!(ctag(a[2]), op_new, next_hid as u16, a[1], a[3], a[4]);
                next_hid += 1;
                slots[s] = Some(m);
                out.extend([1, ser, d]);
            }
            12 => {
                let m = Message::default().id(next_hid as u16);
                next_hid += 1;
                slots[s] = Some(m);
                out.extend([1, 0, 0]);
            }
            2 => match slots[s].as_mut() {
                None => out.push(0),
                Some(m) => {
                    let (ser, d) = dispatch!(ctag(a[2]), op_set, m, a[1], a[3], a[4]);
                    out.extend([1, ser, d]);
                }
            },
            3 => match slots[s].as_ref() {
                None => out.push(0),
                Some(m) => out.extend([2, u64::from(dispatch!(ctag(a[1]), op_can_cast, m))]),
            },
            4 => match slots[s].take() {
                None => out.push(0),
                Some(m) => match dispatch!(ctag(a[1]), op_try_cast, m) {
                    Ok((val, ser, hid, value)) => {
                        held.push(value);
                        out.extend([3, val, ser, hid]);
                    }
                    Err(m) => {
                        out.push(4);
                        out.extend(observe(&m));
                        slots[s] = Some(m);
                    }
                },
            },
            5 => match slots[s].as_ref() {
                None => out.push(0),
                Some(m) => match dispatch!(ctag(a[1]), op_try_content, m) {
                    Some((val, ser)) => out.extend([5, val, ser]),
                    None => out.push(6),
                },
            },
            6 | 7 => {
                let d = (a[1] % 4) as usize;
                match slots[s].as_ref() {
                    None => out.push(0),
                    Some(m) => {
                        let before = next_serial();
                        let cloned = if code == 6 {
                            Ok(m.try_clone())
                        } else {
                            catch_unwind(AssertUnwindSafe(|| Some(m.clone())))
                        };
                        match cloned {
                            Ok(Some(c)) => {
                                let ser = if next_serial() != before { before } else { 0 };
                                slots[d] = Some(c);
                                out.extend([7, ser]);
                            }
                            Ok(None) => out.push(8),
                            Err(_) => out.extend([9, 1]),
                        }
                    }
                }
            }
            8 => match slots[s].take() {
                None => out.push(0),
                Some(m) => {
                    drop(m);
                    out.push(10);
                }
            },
            9 => match slots[s].as_ref() {
                None => out.push(0),
                Some(m) => {
                    // the size a channel charges: busy time at 8 Gbit/s is one nanosecond per byte
                    let mlen = m.length() as u64;
                    let charged = if mlen < (1 << 41) {
                        let metrics = ChannelMetrics::new(
                            8_000_000_000,
                            Duration::ZERO,
                            Duration::ZERO,
                            ChannelDropBehaviour::Drop,
                        );
                        metrics.calculate_busy(m).as_nanos() as u64
                    } else {
                        mlen
                    };
                    out.extend([11, mlen, charged]);
                }
            },
            10 => {
                if held.is_empty() {
                    out.push(0);
                } else {
                    let k = (a[0] % held.len() as u64) as usize;
                    drop(held.remove(k));
                    out.push(12);
                }
            }
            _ => match slots[s].as_ref() {
                None => out.push(0),
                Some(m) => {
                    out.push(13);
                    out.extend(observe(m));
                }
            },
        }
        let log = take_log();
        out.push(log.len() as u64);
        out.extend(log);
    }
    // everything goes out of scope
    for s in slots.iter_mut() {
        drop(s.take());
    }
    drop(held);
    let log = take_log();
    out.extend([14, next_serial() - 1, log.len() as u64]);
    out.extend(log);
    out
}

// ------------------------------------------------------------------ derive_impl on generated declarations
const TYPES: [&str; 8] = [
    "L",
    "u32",
    "Vec<u8>",
    "()",
    "T",
    "Option<String>",
    "[u8; 4]",
    "std::collections::HashMap<u16, Inner<T>>",
];

struct Rd<'a> {
    v: &'a [u64],
}
impl<'a> Rd<'a> {
    fn next(&mut self) -> Option<u64> {
        let (x, r) = self.v.split_first()?;
        self.v = r;
        Some(*x)
    }
    fn clear(&mut self) {
        self.v = &[];
    }
}

enum Fs {
    Named(Vec<(u64, u64)>),
    Unnamed(Vec<u64>),
    Unit,
}

/// Derive.dec_fields
fn dec_fields(r: &mut Rd) -> Fs {
    let kind = match r.next() {
        None => return Fs::Unit,
        Some(k) => k,
    };
    if kind > 1 || r.v.is_empty() {
        return Fs::Unit;
    }
    let k = r.next().unwrap() % 8;
    if kind == 0 {
        let mut ps = Vec::new();
        for _ in 0..k {
            if r.v.len() < 2 {
                r.clear();
                break;
            }
            let n = r.next().unwrap();
            let t = r.next().unwrap() % 8;
            ps.push((n, t));
        }
        Fs::Named(ps)
    } else {
        let mut ts = Vec::new();
        for _ in 0..k {
            match r.next() {
                Some(t) => ts.push(t % 8),
                None => break,
            }
        }
        Fs::Unnamed(ts)
    }
}

fn fields_src(f: &Fs) -> String {
    match f {
        Fs::Named(ps) => {
            let items: Vec<String> = ps.iter().map(|(n, t)| format!("{}: {}", field_name(*n), TYPES[*t as usize])).collect();
            format!("{{ {} }}", items.join(", "))
        }
        Fs::Unnamed(ts) => {
            let items: Vec<String> = ts.iter().map(|t| TYPES[*t as usize].to_string()).collect();
            format!("({})", items.join(", "))
        }
        Fs::Unit => String::new(),
    }
}

fn decl_src(nums: &[u64]) -> String {
    let mut r = Rd { v: nums };
    let name = r.next();
    let gen = r.next();
    let (name, gen) = match (name, gen) {
        (Some(n), Some(g)) => (n, g % 6),
        _ => return "struct D0;".to_string(),
    };
    let (gparams, wh) = match gen {
        0 => ("", ""),
        1 => ("<T>", ""),
        2 => ("<T: Copy + Eq>", ""),
        3 => ("<T>", " where T: Copy"),
        4 => ("<'a, T, const K: usize>", ""),
        _ => ("<T, U>", ""),
    };
    let kind = r.next();
    let is_enum = matches!(kind, Some(k) if k != 0) && !r.v.is_empty();
    if !is_enum {
        let f = if kind == Some(0) { dec_fields(&mut r) } else { Fs::Unit };
        return match f {
            Fs::Named(_) => format!("struct D{}{}{} {}", name, gparams, wh, fields_src(&f)),
            Fs::Unnamed(_) => format!("struct D{}{}{}{};", name, gparams, fields_src(&f), wh),
            Fs::Unit => format!("struct D{}{}{};", name, gparams, wh),
        };
    }
    let nv = r.next().unwrap() % 8;
    let mut vs = Vec::new();
    for _ in 0..nv {
        let vn = match r.next() {
            Some(x) => x,
            None => break,
        };
        let f = dec_fields(&mut r);
        vs.push(format!("V{}{}", vn, fields_src(&f)));
    }
    format!("enum D{}{}{} {{ {} }}", name, gparams, wh, vs.join(", "))
}

fn norm_tokens<T: quote::ToTokens>(t: &T) -> String {
    t.to_token_stream().to_string()
}

/// The identifier of field number n: the derive macro sees identifiers, so their shape is a dimension —
/// plain, leading underscore, raw identifier, underscore + digits, and two raw keywords.
fn field_name(n: u64) -> String {
    match n {
        2 => "r#type".to_string(),
        6 => "r#match".to_string(),
        _ => match n % 4 {
            0 => format!("f{n}"),
            1 => format!("_f{n}"),
            2 => format!("r#f{n}"),
            _ => format!("_{n}"),
        },
    }
}
fn field_num(s: &str) -> u64 {
    let n = match s {
        "r#type" => 2,
        "r#match" => 6,
        _ => {
            let digits = s.trim_start_matches(|c: char| !c.is_ascii_digit());
            digits.parse().unwrap_or(BAD)
        }
    };
    if n != BAD && field_name(n) == s {
        n
    } else {
        BAD
    }
}

fn ident_num(s: &str, prefix: &str) -> u64 {
    s.strip_prefix(prefix).and_then(|x| x.parse().ok()).unwrap_or(BAD)
}

/// one summand `<ty as ::des::net::message::MessageBody>::byte_len(acc)` -> ty kind arg
fn canon_term(e: &syn::Expr, out: &mut Vec<u64>) {
    let syn::Expr::Call(call) = e else {
        out.extend([BAD, 9, 0]);
        return;
    };
    let (ty, path_ok) = match &*call.func {
        syn::Expr::Path(p) => {
            let ty = p.qself.as_ref().map(|q| norm_tokens(&*q.ty));
            let ok = norm_tokens(&p.path) == ":: des :: net :: message :: MessageBody :: byte_len"
                && p.qself.as_ref().map(|q| q.position) == Some(4);
            (ty, ok)
        }
        _ => (None, false),
    };
    let tyid = ty
        .and_then(|s| {
            TYPES.iter().position(|t| {
                syn::parse_str::<syn::Type>(t).map(|x| norm_tokens(&x)).ok().as_deref() == Some(s.as_str())
            })
        })
        .map_or(BAD, |p| p as u64);
    out.push(if path_ok { tyid } else { BAD });
    if call.args.len() != 1 {
        out.extend([9, 0]);
        return;
    }
    match &call.args[0] {
        syn::Expr::Reference(r) if r.mutability.is_none() => match &*r.expr {
            syn::Expr::Field(f) if norm_tokens(&*f.base) == "self" => match &f.member {
                syn::Member::Named(id) => out.extend([1, field_num(&id.to_string())]),
                syn::Member::Unnamed(ix) => out.extend([2, u64::from(ix.index)]),
            },
            _ => out.extend([9, 0]),
        },
        syn::Expr::Path(p) if p.path.get_ident().is_some() => {
            let s = p.path.get_ident().unwrap().to_string();
            if s.starts_with('v') {
                out.extend([4, ident_num(&s, "v")]);
            } else {
                out.extend([3, field_num(&s)]);
            }
        }
        _ => out.extend([9, 0]),
    }
}

/// `t1 + t2 + .. + 0` -> count, terms
fn canon_sum(e: &syn::Expr, out: &mut Vec<u64>) {
    fn flatten<'e>(e: &'e syn::Expr, acc: &mut Vec<&'e syn::Expr>) {
        match e {
            syn::Expr::Binary(b) if matches!(b.op, syn::BinOp::Add(_)) => {
                flatten(&b.left, acc);
                flatten(&b.right, acc);
            }
            _ => acc.push(e),
        }
    }
    let mut parts = Vec::new();
    flatten(e, &mut parts);
    let last_is_zero = parts.last().map(|x| norm_tokens(*x)) == Some("0".to_string());
    if !last_is_zero {
        out.push(BAD);
        return;
    }
    parts.pop();
    out.push(parts.len() as u64);
    for p in parts {
        canon_term(p, out);
    }
}

fn canon_pat(p: &syn::Pat, dname: &str, out: &mut Vec<u64>) {
    let vname = |path: &syn::Path| -> u64 {
        if path.segments.len() == 2 && path.segments[0].ident == dname {
            ident_num(&path.segments[1].ident.to_string(), "V")
        } else {
            BAD
        }
    };
    match p {
        syn::Pat::Struct(s) if s.rest.is_none() => {
            out.extend([1, vname(&s.path), s.fields.len() as u64]);
            for f in &s.fields {
                let shorthand_ref = f.colon_token.is_none()
                    && matches!(&*f.pat, syn::Pat::Ident(i) if i.by_ref.is_some() && i.mutability.is_none());
                match (&f.member, shorthand_ref) {
                    (syn::Member::Named(id), true) => out.push(field_num(&id.to_string())),
                    _ => out.push(BAD),
                }
            }
        }
        syn::Pat::TupleStruct(t) => {
            out.extend([2, vname(&t.path), t.elems.len() as u64]);
            for e in &t.elems {
                match e {
                    syn::Pat::Ident(i) if i.by_ref.is_none() && i.subpat.is_none() => {
                        out.push(ident_num(&i.ident.to_string(), "v"))
                    }
                    _ => out.push(BAD),
                }
            }
        }
        syn::Pat::Path(p) => out.extend([3, vname(&p.path), 0]),
        _ => out.extend([BAD, 0, 0]),
    }
}

fn run_derive(nums: &[u64]) -> Vec<u64> {
    let src = decl_src(nums);
    let Ok(input) = syn::parse_str::<syn::DeriveInput>(&src) else {
        return vec![98];
    };
    let dname = input.ident.to_string();
    let Ok(ts) = des_macros_core::message_body::derive_impl(input.ident, input.data, input.generics) else {
        return vec![97];
    };
    let Ok(imp) = syn::parse2::<syn::ItemImpl>(ts) else {
        return vec![96];
    };
    let mut out = Vec::new();
    // the impl must be `impl<..> ::des::net::message::MessageBody for D<..>`
    let trait_ok = imp.trait_.as_ref().map(|(_, p, _)| norm_tokens(p)) == Some(":: des :: net :: message :: MessageBody".to_string());
    let self_ok = matches!(&*imp.self_ty, syn::Type::Path(p) if p.path.segments.len() == 1 && p.path.segments[0].ident == dname);
    if !trait_ok || !self_ok {
        return vec![95];
    }
    let bounded = imp
        .generics
        .type_params()
        .filter(|tp| {
            tp.bounds.iter().any(|b| match b {
                syn::TypeParamBound::Trait(t) => norm_tokens(&t.path) == ":: des :: net :: message :: MessageBody",
                _ => false,
            })
        })
        .count();
    out.push(bounded as u64);
    let func = imp.items.iter().find_map(|it| match it {
        syn::ImplItem::Fn(f) if f.sig.ident == "byte_len" => Some(f),
        _ => None,
    });
    let Some(func) = func else { return vec![94] };
    let expr = match func.block.stmts.as_slice() {
        [syn::Stmt::Expr(e, None)] => e,
        _ => return vec![93],
    };
    match expr {
        syn::Expr::Match(m) if norm_tokens(&*m.expr) == "self" => {
            out.extend([2, m.arms.len() as u64]);
            for arm in &m.arms {
                if arm.guard.is_some() {
                    out.push(BAD);
                }
                canon_pat(&arm.pat, &dname, &mut out);
                canon_sum(&arm.body, &mut out);
            }
        }
        e => {
            out.push(1);
            canon_sum(e, &mut out);
        }
    }
    out
}

// ------------------------------------------------------------------ a fixed family of derived types
/// a leaf whose byte length is the number it holds
#[derive(Debug, Clone)]
struct L(usize);
impl MessageBody for L {
    fn byte_len(&self) -> usize {
        self.0
    }
}
#[derive(MessageBody)]
struct S0;
#[derive(MessageBody)]
struct S1 {
    a: L,
    b: L,
    c: L,
}
#[derive(MessageBody)]
struct S2(L, L);
#[derive(MessageBody)]
enum E3 {
    A,
    B(L, L, L),
    C { x: L, y: L },
    D(L),
}
#[derive(MessageBody)]
struct S4<T> {
    a: T,
    b: L,
}
#[derive(MessageBody)]
struct S5 {
    inner: S1,
    e: E3,
    o: Option<L>,
    v: Vec<L>,
}

#[derive(MessageBody)]
struct S6 {
    _pad: L,
    r#type: L,
    x: L,
    _tag: L,
}
#[derive(MessageBody)]
enum E7 {
    A { _a: L, b: L },
    B(L),
    C { r#match: L, _z: L },
}

fn e3(k: u64, a: usize, b: usize, c: usize) -> E3 {
    match k % 4 {
        0 => E3::A,
        1 => E3::B(L(a), L(b), L(c)),
        2 => E3::C { x: L(a), y: L(b) },
        _ => E3::D(L(a)),
    }
}

fn run_family(nums: &[u64]) -> Vec<u64> {
    if nums.len() < 2 {
        return vec![7];
    }
    let (fam, k) = (nums[0], nums[1]);
    let l = |i: usize| (nums.get(2 + i).copied().unwrap_or(0) % 1000) as usize;
    let len = match fam % 8 {
        0 => S0.byte_len(),
        1 => S1 { a: L(l(0)), b: L(l(1)), c: L(l(2)) }.byte_len(),
        2 => S2(L(l(0)), L(l(1))).byte_len(),
        3 => e3(k, l(0), l(1), l(2)).byte_len(),
        4 => S4::<L> { a: L(l(0)), b: L(l(1)) }.byte_len(),
        6 => S6 { _pad: L(l(0)), r#type: L(l(1)), x: L(l(2)), _tag: L(l(3)) }.byte_len(),
        7 => match k % 3 {
            0 => E7::A { _a: L(l(0)), b: L(l(1)) },
            1 => E7::B(L(l(0))),
            _ => E7::C { r#match: L(l(0)), _z: L(l(1)) },
        }
        .byte_len(),
        _ => S5 {
            inner: S1 { a: L(l(0)), b: L(l(1)), c: L(l(2)) },
            e: e3(k, l(3), l(4), l(5)),
            o: if l(6) % 2 == 1 { Some(L(l(7))) } else { None },
            v: vec![L(l(8)); l(9) % 4],
        }
        .byte_len(),
    };
    // tagged, so that a length of 666 is not mistaken for the escaped-panic marker
    vec![15, len as u64]
}

// ------------------------------------------------------------------ std types, structural byte_len
use std::collections::{BTreeMap, BTreeSet, BinaryHeap, HashMap, LinkedList, VecDeque};
use std::net::{IpAddr, Ipv4Addr, Ipv6Addr, SocketAddr, SocketAddrV4, SocketAddrV6};

#[derive(Debug, Clone, MessageBody)]
struct DA {
    arr: [String; 2],
    tag: u16,
    opt: Option<[u8; 3]>,
    _pad: u32,
}

static STATIC_OPTS: [Option<u32>; 7] = [None, Some(1), Some(2), None, Some(4), None, Some(6)];

/// bytes a channel charges for the message: busy time at 8 Gbit/s is one nanosecond per byte
fn channel_charge(m: &Message) -> u64 {
    let mlen = m.length() as u64;
    if mlen < (1 << 41) {
        ChannelMetrics::new(8_000_000_000, Duration::ZERO, Duration::ZERO, ChannelDropBehaviour::Drop)
            .calculate_busy(m)
            .as_nanos() as u64
    } else {
        mlen
    }
}

fn std_record<T: MessageBody + Clone + Debug + Any>(value: T, mode: u64) -> Vec<u64> {
    let blen = value.byte_len() as u64;
    let msg = if mode % 2 == 0 {
        Message::default().with_content(value)
    } else {
        let mut m = Message::default();
        m.set_content_non_clonable(value);
        m
    };
    vec![16, blen, msg.length() as u64, channel_charge(&msg)]
}

fn run_std(nums: &[u64]) -> Vec<u64> {
    if nums.len() < 2 {
        return vec![7];
    }
    let (fam, mode, ns) = (nums[0] % 19, nums[1], &nums[2..]);
    let l = |i: usize| ns.get(i).copied().unwrap_or(0);
    let s = |n: u64| "x".repeat((n % 50) as usize);
    let odd = |n: u64| n % 2 == 1;
    let letters = |i: usize, n: u64| ((b'a' + i as u8) as char).to_string().repeat(n as usize);
    match fam {
        0 => std_record::<[String; 3]>([s(l(0)), s(l(1)), s(l(2))], mode),
        1 => std_record::<[Option<u32>; 4]>(std::array::from_fn(|i| odd(l(i)).then_some(i as u32)), mode),
        2 => std_record::<Vec<String>>((0..(l(0) % 5) as usize).map(|i| s(l(1 + i))).collect(), mode),
        3 => std_record::<VecDeque<Option<u16>>>(
            (0..(l(0) % 6) as usize).map(|i| odd(l(1 + i)).then_some(i as u16)).collect(),
            mode,
        ),
        4 => std_record::<(u8, String)>((3, s(l(0))), mode),
        5 => std_record::<Option<Vec<u16>>>(odd(l(0)).then(|| vec![7u16; (l(1) % 9) as usize]), mode),
        6 => std_record::<Result<u32, String>>(if l(0) % 2 == 0 { Ok(5) } else { Err(s(l(1))) }, mode),
        7 => std_record::<Box<[Option<u64>; 2]>>(Box::new([odd(l(0)).then_some(1), odd(l(1)).then_some(2)]), mode),
        8 => std_record::<DA>(
            DA { arr: [s(l(0)), s(l(1))], tag: 9, opt: odd(l(2)).then_some([1, 2, 3]), _pad: 5 },
            mode,
        ),
        9 => std_record::<LinkedList<(u16, Option<String>)>>(
            (0..(l(0) % 4) as usize).map(|i| (i as u16, odd(l(1 + 2 * i)).then(|| s(l(2 + 2 * i))))).collect(),
            mode,
        ),
        10 => std_record::<HashMap<u8, String>>(
            (0..(l(0) % 5) as usize).map(|i| (i as u8, s(l(1 + i)))).collect(),
            mode,
        ),
        11 => std_record::<BTreeMap<String, Option<u32>>>(
            (0..(l(0) % 4) as usize)
                .map(|i| (letters(i, 1 + l(1 + 2 * i) % 5), odd(l(2 + 2 * i)).then_some(i as u32)))
                .collect(),
            mode,
        ),
        12 => std_record::<BTreeSet<String>>(
            (0..(l(0) % 5) as usize).map(|i| letters(i, 1 + l(1 + i) % 6)).collect(),
            mode,
        ),
        13 => std_record::<BinaryHeap<Option<u8>>>(
            (0..(l(0) % 6) as usize).map(|i| odd(l(1 + i)).then_some(i as u8)).collect(),
            mode,
        ),
        14 => {
            let a = ((l(0) % 8) as usize).min(7);
            let b = (a + (l(1) % 8) as usize).min(7);
            std_record::<&'static [Option<u32>]>(&STATIC_OPTS[a..b], mode)
        }
        15 => std_record::<(
            (u8, u16, u32, u64, u128, bool, char, f64, (), i8),
            (usize, isize, i16, i32, i64, i128, f32),
            Option<char>,
        )>(
            ((1, 2, 3, 4, 5, true, 'c', 1.5, (), -1), (1, -1, -2, -3, -4, -5, 2.5), odd(l(0)).then_some('z')),
            mode,
        ),
        16 => {
            let v4 = Ipv4Addr::new(10, 0, 0, 1);
            let v6 = Ipv6Addr::LOCALHOST;
            let s4 = SocketAddrV4::new(v4, 80);
            let s6 = SocketAddrV6::new(v6, 80, 0, 0);
            let ip = if l(0) % 2 == 0 { IpAddr::V4(v4) } else { IpAddr::V6(v6) };
            let sock = if l(1) % 2 == 0 { SocketAddr::V4(s4) } else { SocketAddr::V6(s6) };
            std_record::<(IpAddr, SocketAddr, Ipv4Addr, Ipv6Addr, SocketAddrV4, SocketAddrV6, Duration, des::time::SimTime)>(
                (ip, sock, v4, v6, s4, s6, Duration::from_secs(3), des::time::SimTime::from_duration(Duration::from_secs(4))),
                mode,
            )
        }
        17 => std_record::<Vec<[Option<String>; 2]>>(
            (0..(l(0) % 4) as usize)
                .map(|i| {
                    let e = |n: u64| (n % 3 != 0).then(|| s(n));
                    [e(l(1 + 2 * i)), e(l(2 + 2 * i))]
                })
                .collect(),
            mode,
        ),
        _ => std_record::<Box<Result<Option<String>, [u16; 3]>>>(
            Box::new(match l(0) % 3 {
                0 => Ok(None),
                1 => Ok(Some(s(l(1)))),
                _ => Err([1, 2, 3]),
            }),
            mode,
        ),
    }
}
