//! Module tree, builder assertions and start-up / tear-down order (C12).
//!
//! Script: op* with (strings are length-prefixed lists of Unicode scalar values)
//!   1 stages <path>        sim.node(path, module declaring `stages % 8` start stages)
//!   2 <path>               sim.get(path): ordinal, parent(), path().len()/as_str()/name()
//!   3 <path> <name>        sim.get(path).child(name)
//!   4 <str>                ObjectPath::from(str) and its parent()
//!   5 <str> <name>         ObjectPath::from(str).appended(name)
//!   6 <path> L (k <name>)^(L%4) <stage list>
//!                          sim.node(path, Ndl::new(registry, def)): an NDL described block whose module
//!                          type of level i has the single submodule entry `name` (k%5 = 0) or `name[k%5]`
//!                          of the type of level i+1; the registry's fallback hands the i-th created
//!                          module the i-th stage count of the list (1 when exhausted)
//! Output per op: see coq/Tree/Model.v `step`; then, after running the simulation with
//! no events: `6 n <as_str>*n` (Sim::nodes()), `7 k (ord stage pos parent)*k` (at_sim_start
//! calls in call order), `8 k (ord pos)*k` (at_sim_end calls), `10 r` (run() Ok = 0).
use des::net::ndl::{Def, FieldDef, Kardinality, ModuleDef, Ndl, Registry, TypClause};
use des::prelude::*;
use implrun::Cur;
use std::cell::Cell;
use std::panic::{catch_unwind, AssertUnwindSafe};
use std::sync::{Arc, Mutex};

fn main() {
    implrun::run_main(run_line)
}

#[derive(Default)]
struct Log {
    start: Vec<(u64, u64, ObjectPath, u64)>,
    end: Vec<(u64, ObjectPath)>,
}

struct Node {
    ord: u64,
    stages: usize,
    log: Arc<Mutex<Log>>,
}

fn ord_of(r: Result<ModuleRef, ModuleReferencingError>) -> u64 {
    match r {
        Ok(m) => match m.try_as_ref::<Node>() {
            Some(n) => n.ord + 1,
            None => 777,
        },
        Err(_) => 0,
    }
}

impl Module for Node {
    fn num_sim_start_stages(&self) -> usize {
        self.stages
    }
    fn at_sim_start(&mut self, stage: usize) {
        let cur = current();
        let par = ord_of(cur.parent());
        self.log.lock().unwrap().start.push((self.ord, stage as u64, cur.path(), par));
    }
    fn at_sim_end(&mut self) -> Result<(), RuntimeError> {
        let cur = current();
        self.log.lock().unwrap().end.push((self.ord, cur.path()));
        Ok(())
    }
}

fn take_str(c: &mut Cur) -> String {
    c.take_lp()
        .into_iter()
        .map(|x| u32::try_from(x).ok().and_then(char::from_u32).unwrap_or('\u{FFFD}'))
        .collect()
}

fn lp(out: &mut Vec<u64>, s: &str) {
    out.push(s.len() as u64);
    out.extend(s.bytes().map(u64::from));
}

fn run_line(nums: &[u64]) -> Vec<u64> {
    let mut c = Cur::new(nums);
    let mut out = Vec::new();
    let log = Arc::new(Mutex::new(Log::default()));
    let mut sim = Sim::new(());
    let mut next_ord = 0u64;
    while !c.done() {
        match c.peek() {
            Some(1) if c.left() >= 2 => {
                c.next();
                let stages = (c.next() % 8) as usize;
                let path = take_str(&mut c);
                let node = Node { ord: next_ord, stages, log: log.clone() };
                let r = catch_unwind(AssertUnwindSafe(|| sim.node(path.as_str(), node)));
                match r {
                    Ok(()) => {
                        next_ord += 1;
                        out.push(1);
                    }
                    Err(e) => {
                        let msg = e
                            .downcast_ref::<String>()
                            .cloned()
                            .or_else(|| e.downcast_ref::<&str>().map(|s| s.to_string()))
                            .unwrap_or_default();
                        let site = if msg.ends_with(", node allready exists") {
                            1
                        } else if msg.ends_with("is required, but does not exist") {
                            2
                        } else {
                            99
                        };
                        out.extend([9, site]);
                    }
                }
            }
            Some(2) => {
                c.next();
                let path = take_str(&mut c);
                match sim.get(&ObjectPath::from(path.as_str())) {
                    None => out.extend([2, 0]),
                    Some(m) => {
                        let ord = m.try_as_ref::<Node>().map(|n| n.ord).unwrap_or(776);
                        let p = m.path();
                        out.extend([2, 1, ord, ord_of(m.parent()), p.len() as u64]);
                        lp(&mut out, p.as_str());
                        lp(&mut out, &m.name());
                    }
                }
            }
            Some(3) => {
                c.next();
                let path = take_str(&mut c);
                let name = take_str(&mut c);
                match sim.get(&ObjectPath::from(path.as_str())) {
                    None => out.extend([3, 0]),
                    Some(m) => out.extend([3, 1, ord_of(m.child(&name))]),
                }
            }
            Some(4) => {
                c.next();
                let s = take_str(&mut c);
                let p = ObjectPath::from(s.as_str());
                out.extend([4, p.len() as u64]);
                lp(&mut out, p.name());
                lp(&mut out, p.as_parent_str());
                match p.parent() {
                    None => out.push(0),
                    Some(q) => {
                        out.extend([1, q.len() as u64]);
                        lp(&mut out, q.as_str());
                        lp(&mut out, q.name());
                        out.push((q == ObjectPath::from(q.as_str())) as u64);
                    }
                }
            }
            Some(5) => {
                c.next();
                let s = take_str(&mut c);
                let name = take_str(&mut c);
                let p = ObjectPath::from(s.as_str());
                let a = p.appended(&name);
                out.extend([5, a.len() as u64]);
                lp(&mut out, a.as_str());
                lp(&mut out, a.name());
                out.push((a == ObjectPath::from(a.as_str())) as u64);
                out.push((a.parent().as_ref() == Some(&p)) as u64);
            }
            Some(6) => {
                c.next();
                let path = take_str(&mut c);
                let nl = (c.next() % 4) as usize;
                let mut levels = Vec::new();
                for _ in 0..nl {
                    if c.done() {
                        break;
                    }
                    let k = (c.next() % 5) as usize;
                    let name = take_str(&mut c);
                    levels.push((k, name));
                }
                let stages: Vec<usize> = c.take_lp().into_iter().map(|x| (x % 8) as usize).collect();
                // module type T<i> of level i; the last type has no submodules
                let mut def = Def { entry: "T0".to_string(), ..Default::default() };
                for i in 0..=levels.len() {
                    let mut m = ModuleDef { inherit: None, gates: vec![], submodules: Default::default(), connections: vec![] };
                    if let Some((k, name)) = levels.get(i) {
                        let kardinality = if *k == 0 { Kardinality::Atom } else { Kardinality::Cluster(*k) };
                        m.submodules.insert(
                            FieldDef { ident: name.clone(), kardinality },
                            TypClause { ident: format!("T{}", i + 1), args: vec![] },
                        );
                    }
                    def.modules.insert(TypClause { ident: format!("T{i}"), args: vec![] }, m);
                }
                let created = Cell::new(0usize);
                let r = {
                    let (log, created, stages) = (log.clone(), &created, &stages);
                    let base = next_ord;
                    let mut registry = Registry::new().with_fallback(move || {
                        let k = created.get();
                        created.set(k + 1);
                        Node { ord: base + k as u64, stages: stages.get(k).copied().unwrap_or(1), log: log.clone() }
                    });
                    catch_unwind(AssertUnwindSafe(|| match Ndl::new(&mut registry, &def) {
                        Ok(block) => match sim.node(path.as_str(), block) {
                            Ok(_) => 0u64,
                            Err(_) => 97,
                        },
                        Err(_) => 98,
                    }))
                };
                next_ord += created.get() as u64;
                match r {
                    Ok(0) => out.push(1),
                    Ok(code) => out.extend([9, code]),
                    Err(e) => {
                        let msg = e
                            .downcast_ref::<String>()
                            .cloned()
                            .or_else(|| e.downcast_ref::<&str>().map(|s| s.to_string()))
                            .unwrap_or_default();
                        let site = if msg.ends_with(", already exists") {
                            4
                        } else if msg.contains("parent missing in NDL build") {
                            5
                        } else {
                            99
                        };
                        out.extend([9, site]);
                    }
                }
            }
            _ => break,
        }
    }
    let nodes: Vec<ObjectPath> = sim.nodes().collect();
    let res = Builder::seeded(1).quiet().build(sim.freeze()).run();
    let pos = |p: &ObjectPath| nodes.iter().position(|q| q == p).unwrap_or(nodes.len()) as u64;
    out.extend([6, nodes.len() as u64]);
    for p in &nodes {
        lp(&mut out, p.as_str());
    }
    let log = log.lock().unwrap();
    out.extend([7, log.start.len() as u64]);
    for (ord, stage, p, par) in &log.start {
        out.extend([*ord, *stage, pos(p), *par]);
    }
    out.extend([8, log.end.len() as u64]);
    for (ord, p) in &log.end {
        out.extend([*ord, pos(p)]);
    }
    out.extend([10, res.is_err() as u64]);
    out
}
