//! Calendar queue (C01, C03): script `n t ts u op*` (ts = 0: `CQueue::new`, else `CQueue::new_at`;
//! every time is given in units of u ns, u = 0 meaning 1, and printed divided by u) with
//! op = 1 time pay (add) | 2 k (cancel k-th handle) | 3 (fetch) | 4 (len) | 5 (time) | 6 (peek_time) |
//! 7 (representation invariant of `verif_snapshot()`: 7 sorted index times len window, each 0/1).
//! Output per op: add -> 1 | fetch -> 2 pay time | len -> 3 n | time -> 4 t |
//! cancel -> 5 | peek -> 6 0 / 6 1 t | panic -> 9 site (1 = add in the past, 2 = fetch on empty).
use des_cqueue::{CQueue, EventHandle};
use std::panic::{catch_unwind, AssertUnwindSafe};
use std::time::Duration;

fn main() {
    implrun::run_main(run_line)
}

fn run_line(nums: &[u64]) -> Vec<u64> {
    if nums.len() < 4 || nums[0] == 0 || nums[1] == 0 {
        return vec![7];
    }
    let n = nums[0] as usize;
    let t = Duration::from_nanos(nums[1]);
    let unit: u128 = if nums[3] == 0 { 1 } else { nums[3] as u128 };
    // x units -> Duration (exact, beyond 2^64 ns)
    let dur = |x: u64| -> Duration {
        let ns = x as u128 * unit;
        Duration::new((ns / 1_000_000_000) as u64, (ns % 1_000_000_000) as u32)
    };
    let units = |d: Duration| -> u64 { (d.as_nanos() / unit) as u64 };
    let mut q: CQueue<u64> = if nums[2] == 0 {
        CQueue::new(n, t)
    } else {
        CQueue::new_at(n, t, dur(nums[2]))
    };
    let mut handles: Vec<EventHandle<u64>> = Vec::new();
    let mut out = Vec::new();
    let mut i = 4;
    while i < nums.len() {
        match nums[i] {
            1 if i + 2 < nums.len() => {
                let time = dur(nums[i + 1]);
                let pay = nums[i + 2];
                i += 3;
                match catch_unwind(AssertUnwindSafe(|| q.add(time, pay))) {
                    Ok(h) => {
                        handles.push(h);
                        out.push(1);
                    }
                    Err(_) => out.extend([9, 1]),
                }
            }
            2 if i + 1 < nums.len() => {
                let k = nums[i + 1];
                i += 2;
                if !handles.is_empty() {
                    let idx = (k % handles.len() as u64) as usize;
                    // EventHandle is a plain (id, time) record without Clone; a bitwise
                    // copy lets a script cancel the same handle more than once.
                    let h: EventHandle<u64> = unsafe { std::ptr::read(&handles[idx]) };
                    q.cancel(h);
                }
                out.push(5);
            }
            3 => {
                i += 1;
                match catch_unwind(AssertUnwindSafe(|| q.fetch_next())) {
                    Ok((pay, time)) => out.extend([2, pay, units(time)]),
                    Err(_) => out.extend([9, 2]),
                }
            }
            4 => {
                i += 1;
                out.extend([3, q.len() as u64]);
            }
            5 => {
                i += 1;
                out.extend([4, units(q.time())]);
            }
            6 => {
                i += 1;
                match q.peek_time() {
                    Some(t) => out.extend([6, 1, units(t)]),
                    None => out.extend([6, 0]),
                }
            }
            7 => {
                i += 1;
                let s = q.verif_snapshot();
                let tn = t.as_nanos();
                let key = |e: &(Duration, usize)| (e.0, e.1);
                let sorted = s.links_ok && s.buckets.iter().all(|b| b.windows(2).all(|w| key(&w[0]) < key(&w[1])));
                let index = s.buckets.len() == n
                    && s.buckets.iter().enumerate().all(|(i, b)| {
                        b.iter().all(|e| (((e.0.as_nanos() % (tn * n as u128)) / tn) % n as u128) as usize == i)
                    });
                let times = s.zero.iter().all(|e| e.0 == s.t_current)
                    && s.buckets.iter().all(|b| b.iter().all(|e| e.0 >= s.t_current));
                let len = s.len == s.zero.len() + s.buckets.iter().map(|b| b.len()).sum::<usize>();
                let window = s.t1 == s.t0 + t
                    && s.t0.as_nanos() % tn == 0
                    && s.head as u128 == (s.t0.as_nanos() / tn) % n as u128;
                out.extend([7, sorted as u64, index as u64, times as u64, len as u64, window as u64]);
            }
            _ => break,
        }
    }
    out
}
