//! Async executor (C06): one async module of the real `des` runtime whose `handle_message`
//! spawns scripted tasks with `tokio::spawn` / `tokio::task::spawn_local`; the tasks use tokio
//! unbounded mpsc channels (one inbox per task), `JoinHandle`s and `yield_now`.  Events are
//! messages delivered at scripted times.
//!
//! script := B_local B_rt C R G  nT task*  lp(start act*)  event*
//! task   := kind len op*            kind odd = local (spawn_local), even = rt (tokio::spawn)
//! op     := 0 (Log) | 1 (Recv own inbox) | 2 t (Send to inbox t) | 3 t (Join t) | 4 (Yield) | 5 (End)
//! event  := delta kind lp(pre act*) lp(act*)     time = previous time + delta
//! act    := 0 t (Spawn t) | 1 t (Send t) | 2 _ (current().shutdown()) | 3 d (current().shutdow_and_restart_in(d))
//!           `pre` runs in the `incoming` hook of the module's processing element (outside the runtime: only
//!           Send has an effect there); kind odd = the element CONSUMES the message (handle_message is not called,
//!           `act` is ignored), even = it passes it on and handle_message performs `act`.
//! `start` is performed by at_sim_start (stage 0, time 0).
//! (the five tokio numbers are read by the model only: here they are whatever the pinned tokio has)
//!
//! Output, in execution order:
//!   6 0 now            at_sim_start runs (also after a restart; shutdown actions of `start` are only performed the first time)
//!   7 0 now            Module::reset runs (the shutdown request of the event just closed is being carried out)
//!   3 e now            the message of event e reaches the module (its processing element), now = SimTime::now()
//!   2 task woken now   task polled; woken = SimTime::now() when it was spawned / its waker was last invoked
//!   1 task now         task completed one op of its script (Recv/Join/Yield: when the await returned)
//!   4 pl pr left       closes an event (written by the element's event_end hook, right after the exec): polls of local
//!                      tasks, polls of rt tasks during the event's block_on, left = 1 iff some task was woken/spawned
//!                      and not yet polled when it returned
//!   5 pl pr left       the same for the two block_on calls of the tear-down (at_sim_end)
use des::net::processing::ProcessingStack;
use des::prelude::*;
use implrun::Cur;
use std::future::Future;
use std::pin::Pin;
use std::sync::atomic::{AtomicBool, AtomicU64, Ordering::SeqCst};
use std::sync::{Arc, Mutex};
use std::task::{Context, Poll, Wake, Waker};
use tokio::sync::mpsc::{unbounded_channel, UnboundedReceiver, UnboundedSender};
use tokio::task::JoinHandle;

fn main() {
    implrun::run_main(run_line)
}

fn now() -> u64 {
    SimTime::now().as_nanos() as u64
}

#[derive(Clone, Copy)]
enum Op {
    Log,
    Recv,
    Send(u64),
    Join(u64),
    Yield,
    End,
}

#[derive(Clone, Copy)]
enum Act {
    Spawn(u64),
    Send(u64),
    Shutdown,
    Restart(u64),
}

struct Shared {
    log: Mutex<Vec<u64>>,
    tx: Mutex<Vec<UnboundedSender<()>>>,
    ending: AtomicBool,
    handles: Mutex<Vec<Option<JoinHandle<()>>>>,
    local: Vec<bool>,
    pending: Vec<AtomicBool>,
    woken: Vec<AtomicU64>,
    polls_local: AtomicU64,
    polls_rt: AtomicU64,
    open: AtomicBool,
}

impl Shared {
    fn rec(&self, a: u64, b: u64, c: u64) {
        self.log.lock().unwrap().extend([a, b, c]);
    }
    /// closes the running event record (if any) with tag `tag`
    fn close(&self, tag: u64) {
        if self.open.swap(false, SeqCst) {
            let left = self.pending.iter().any(|p| p.load(SeqCst));
            let pl = self.polls_local.swap(0, SeqCst);
            let pr = self.polls_rt.swap(0, SeqCst);
            self.log.lock().unwrap().extend([tag, pl, pr, left as u64]);
        }
    }
    fn send(&self, t: u64) {
        if let Some(tx) = self.tx.lock().unwrap().get(t as usize) {
            let _ = tx.send(());
        }
    }
}

/// waker handed to a task's future: notes that the task was woken, then forwards to tokio's waker
struct TaskWaker {
    id: usize,
    sh: Arc<Shared>,
    inner: Waker,
}

impl Wake for TaskWaker {
    fn wake(self: Arc<Self>) {
        self.wake_by_ref()
    }
    fn wake_by_ref(self: &Arc<Self>) {
        self.sh.pending[self.id].store(true, SeqCst);
        self.sh.woken[self.id].store(now(), SeqCst);
        self.inner.wake_by_ref();
    }
}

/// counts polls and records them
struct Wrapped {
    id: usize,
    sh: Arc<Shared>,
    inner: Pin<Box<dyn Future<Output = ()> + Send>>,
}

impl Future for Wrapped {
    type Output = ();
    fn poll(mut self: Pin<&mut Self>, cx: &mut Context<'_>) -> Poll<()> {
        let id = self.id;
        let sh = self.sh.clone();
        sh.pending[id].store(false, SeqCst);
        if sh.local[id] {
            sh.polls_local.fetch_add(1, SeqCst);
        } else {
            sh.polls_rt.fetch_add(1, SeqCst);
        }
        sh.log.lock().unwrap().extend([2, id as u64, sh.woken[id].load(SeqCst), now()]);
        let w: Waker = Arc::new(TaskWaker { id, sh, inner: cx.waker().clone() }).into();
        let mut cx2 = Context::from_waker(&w);
        self.inner.as_mut().poll(&mut cx2)
    }
}

async fn body(id: usize, ops: Vec<Op>, mut rx: UnboundedReceiver<()>, sh: Arc<Shared>) {
    for op in ops {
        match op {
            Op::Log => {}
            Op::Recv => {
                let _ = rx.recv().await;
            }
            Op::Send(t) => sh.send(t),
            Op::Join(t) => {
                let h = sh.handles.lock().unwrap().get_mut(t as usize).and_then(|h| h.take());
                if let Some(h) = h {
                    let _ = h.await;
                }
            }
            Op::Yield => tokio::task::yield_now().await,
            Op::End => {
                sh.rec(1, id as u64, now());
                return;
            }
        }
        sh.rec(1, id as u64, now());
    }
}

struct Ev {
    consume: bool,
    pre: Vec<Act>,
    acts: Vec<Act>,
}

struct Spawner {
    sh: Arc<Shared>,
    tasks: Vec<Vec<Op>>,
    rxs: Vec<Option<UnboundedReceiver<()>>>,
}

impl Spawner {
    fn perform(&mut self, acts: &[Act], may_spawn: bool, may_shutdown: bool) {
        for a in acts {
            match *a {
                Act::Shutdown => {
                    if may_shutdown {
                        current().shutdown();
                    }
                }
                Act::Restart(d) => {
                    if may_shutdown {
                        current().shutdow_and_restart_in(Duration::from_nanos(d));
                    }
                }
                Act::Spawn(t) => {
                    if !may_spawn {
                        continue;
                    }
                    let t = t as usize;
                    // a task is spawned at most once
                    let Some(rx) = self.rxs.get_mut(t).and_then(|r| r.take()) else { continue };
                    let fut = Wrapped {
                        id: t,
                        sh: self.sh.clone(),
                        inner: Box::pin(body(t, self.tasks[t].clone(), rx, self.sh.clone())),
                    };
                    self.sh.pending[t].store(true, SeqCst);
                    self.sh.woken[t].store(now(), SeqCst);
                    let h = if self.sh.local[t] { tokio::task::spawn_local(fut) } else { tokio::spawn(fut) };
                    self.sh.handles.lock().unwrap()[t] = Some(h);
                }
                Act::Send(t) => self.sh.send(t),
            }
        }
    }
}

/// the module's only processing element: performs the event's `pre` actions in its `incoming`
/// hook (outside the module's tokio runtime) and consumes the message if the event says so
struct ScriptElem {
    sh: Arc<Shared>,
    sp: Arc<Mutex<Spawner>>,
    events: Arc<Vec<Ev>>,
}

impl ProcessingElement for ScriptElem {
    fn incoming(&mut self, msg: Message) -> Option<Message> {
        let e = *msg.content::<u64>();
        self.sh.rec(3, e, now());
        let Some(ev) = self.events.get(e as usize) else { return Some(msg) };
        self.sp.lock().unwrap().perform(&ev.pre, false, false);
        if ev.consume {
            None
        } else {
            Some(msg)
        }
    }

    fn event_start(&mut self) {
        self.sh.open.store(true, SeqCst);
    }

    fn event_end(&mut self) {
        let tag = if self.sh.ending.load(SeqCst) { 5 } else { 4 };
        self.sh.close(tag);
    }
}

struct ScriptModule {
    sh: Arc<Shared>,
    sp: Arc<Mutex<Spawner>>,
    events: Arc<Vec<Ev>>,
    start: Vec<Act>,
    booted: bool,
}

impl Module for ScriptModule {
    fn stack(&self, _default: ProcessingStack) -> ProcessingStack {
        let mut s = ProcessingStack::default();
        s.append(ScriptElem { sh: self.sh.clone(), sp: self.sp.clone(), events: self.events.clone() });
        s
    }

    fn at_sim_start(&mut self, _stage: usize) {
        self.sh.rec(6, 0, now());
        let first = !self.booted;
        self.booted = true;
        self.sp.lock().unwrap().perform(&self.start, true, first);
    }

    /// buf_process carries out a shutdown: the module's runtime (and every task) is gone; fresh channels
    fn reset(&mut self) {
        self.sh.rec(7, 0, now());
        let n = self.sh.local.len();
        let mut sp = self.sp.lock().unwrap();
        let mut txs = Vec::new();
        sp.rxs.clear();
        for _ in 0..n {
            let (tx, rx) = unbounded_channel::<()>();
            txs.push(tx);
            sp.rxs.push(Some(rx));
        }
        *self.sh.tx.lock().unwrap() = txs;
        for h in self.sh.handles.lock().unwrap().iter_mut() {
            *h = None;
        }
        for p in self.sh.pending.iter() {
            p.store(false, SeqCst);
        }
        self.sh.polls_local.store(0, SeqCst);
        self.sh.polls_rt.store(0, SeqCst);
    }

    fn handle_message(&mut self, msg: Message) {
        let e = *msg.content::<u64>();
        if let Some(ev) = self.events.get(e as usize) {
            self.sp.lock().unwrap().perform(&ev.acts, true, true);
        }
    }

    fn at_sim_end(&mut self) -> Result<(), RuntimeError> {
        self.sh.ending.store(true, SeqCst);
        Ok(())
    }
}

fn dec_ops(b: &[u64]) -> Vec<Op> {
    let mut c = Cur::new(b);
    let mut out = Vec::new();
    while !c.done() {
        match c.next() {
            0 => out.push(Op::Log),
            1 => out.push(Op::Recv),
            2 if !c.done() => out.push(Op::Send(c.next())),
            3 if !c.done() => out.push(Op::Join(c.next())),
            4 => out.push(Op::Yield),
            5 => out.push(Op::End),
            _ => break,
        }
    }
    out
}

fn dec_acts(b: &[u64]) -> Vec<Act> {
    let mut c = Cur::new(b);
    let mut out = Vec::new();
    while c.left() >= 2 {
        match (c.next(), c.next()) {
            (0, t) => out.push(Act::Spawn(t)),
            (1, t) => out.push(Act::Send(t)),
            (2, _) => out.push(Act::Shutdown),
            (3, d) => out.push(Act::Restart(d.max(1))),
            _ => break,
        }
    }
    out
}

fn run_line(nums: &[u64]) -> Vec<u64> {
    if nums.len() < 6 {
        return vec![7];
    }
    let mut c = Cur::new(nums);
    let (_bl, _br, _cc, _r, _g) = (c.next(), c.next(), c.next(), c.next(), c.next());
    let nt = c.next() as usize;
    let mut kinds = Vec::new();
    let mut tasks = Vec::new();
    for _ in 0..nt {
        if c.done() {
            break;
        }
        kinds.push(c.next() % 2 == 1);
        tasks.push(dec_ops(&c.take_lp()));
    }
    let nt = tasks.len();
    let start = dec_acts(&c.take_lp());
    let mut events = Vec::new();
    let mut times = Vec::new();
    let mut t = 0u64;
    while !c.done() {
        t += c.next();
        times.push(t);
        let consume = c.next() % 2 == 1;
        let pre = dec_acts(&c.take_lp());
        let acts = dec_acts(&c.take_lp());
        events.push(Ev { consume, pre, acts });
    }

    let mut txs = Vec::new();
    let mut rxs = Vec::new();
    for _ in 0..nt {
        let (tx, rx) = unbounded_channel::<()>();
        txs.push(tx);
        rxs.push(Some(rx));
    }
    let sh = Arc::new(Shared {
        log: Mutex::new(Vec::new()),
        tx: Mutex::new(txs),
        ending: AtomicBool::new(false),
        handles: Mutex::new((0..nt).map(|_| None).collect()),
        local: kinds,
        pending: (0..nt).map(|_| AtomicBool::new(false)).collect(),
        woken: (0..nt).map(|_| AtomicU64::new(0)).collect(),
        polls_local: AtomicU64::new(0),
        polls_rt: AtomicU64::new(0),
        open: AtomicBool::new(false),
    });

    let mut sim = Sim::new(());
    let sp = Arc::new(Mutex::new(Spawner { sh: sh.clone(), tasks, rxs }));
    sim.node("m", ScriptModule { sh: sh.clone(), sp, events: Arc::new(events), start, booted: false });
    let mref = sim.get(&ObjectPath::from("m")).expect("module m");
    let mut rt = Builder::seeded(1).quiet().build(sim.freeze());
    for (e, t) in times.iter().enumerate() {
        let msg = Message::default().with_content(e as u64);
        rt.handle_message_on(mref.clone(), msg, SimTime::from_duration(Duration::from_nanos(*t)));
    }
    let res = rt.run();
    // the handles still in the table are detached here, after the module's runtime is gone
    let mut out = sh.log.lock().unwrap().clone();
    if res.is_err() {
        out.push(9);
    }
    out
}
