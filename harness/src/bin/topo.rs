//! Topology views (C19): drives des::net::topology::Topology through the public API on a
//! simulation whose gate graph is wired by the script, before and between the queries.
//!
//! script:  p  nmod cnt_1 .. cnt_nmod   nch (len mode m0 g0 m1 g1 ..){nch}   op*
//!   p: position of the process-global ModuleId counter: ids are burnt (ModuleId::gen is public) until the
//!   next one is p mod 2^16, then the simulation is built.  First output record: 10 nmod d z with d = the
//!   module ids of the simulation are pairwise distinct, z = number of modules whose id is ModuleId::NULL.
//!   modules m0.. (at most 24) get cnt_i gates g0.. (at most 40) in this order; every chain
//!   g0 - g1 - .. - gh is wired by h connect calls (mode bit 0: last pair first, bit 1: swapped
//!   orientation) provided it has at least one hop and all its gates exist, are distinct and unused.
//!   op = 1 Globals::topology() | 2 r Topology::spanned(m_r) | 3 s dijkstra(m_s) | 4 connected | 5 bidirectional
//!      | 6 mask filter_nodes(bit module-index) | 7 mask filter_edges(bit ((from node*8 + start gate pos) mod 62))
//!      | 8 m edges_for(m_m) | 9 k m1..mk from_modules([..]) (unknown / repeated modules dropped)
//!      | 10 len mode m0 g0 ..  connect a chain of existing gates now (same rule)                 -> 11 wired?
//!      | 11 m via  a new gate on m_m (via 0: SimBuilder::gate while building, ModuleRef::create_gate at run time;
//!                  via 1: `spawner().gate(name, 1)`), at most 60 gates per module                -> 12 position+1 | 12 0
//!      | 12 m      the rest of the script runs at run time, inside at_sim_start of module m mod nmod: the global
//!                  view comes from Topology::current() / des::net::globals(), modules from globals().get(..) -> 13 switched?
//!      | 13 m kind (declaration, -> 14 0) during the run-time part module m_m is down: in start-up stage 0 it calls
//!                  shutdown() (kind 0), shutdow_and_restart_in(5 s) (kind 1) or panics with a catching stereotype (kind 2);
//!                  the run-time operations execute in stage 1, inside a module that stays up; the runner verifies
//!                  that the declared modules really are inactive then (666 otherwise)
//! output: view = 1 nn module{nn} ne (src sm sg em eg dst){ne} | dijkstra = 3 nn (0 | 1 src sm sg em eg dst){nn}
//!   | 4 b | 5 b | edges_for = 6 ne (..){ne} | 7 (no such root) | 9 1 (dijkstra: unknown node)
//! Node indices are positions in `nodes()`; an edge end is printed as the position of its node's module.
use des::net::module::{ModuleId, ModuleRef, Stereotyp};
use des::net::topology::{Edge, Topology};
use des::net::SimBuilder;
use des::prelude::*;
use implrun::Cur;
use std::panic::{catch_unwind, AssertUnwindSafe};
use std::sync::{Arc, Mutex};

fn main() {
    implrun::run_main(run_line)
}

enum Op {
    Global,
    Spanned(u64),
    Dijkstra(u64),
    Connected,
    Bidirectional,
    FilterNodes(u64),
    FilterEdges(u64),
    EdgesFor(u64),
    FromModules(Vec<u64>),
    Connect(Vec<u64>),
    NewGate(u64, u64),
    Runtime(u64),
    Down(u64, u64),
}

struct State {
    nm: usize,
    ids: Vec<ModuleId>,
    mods: Vec<ModuleRef>,
    gates: Vec<Vec<GateRef>>,
    used: Vec<Vec<bool>>,
    topo: Topology<(), ()>,
    ops: Vec<Op>,
    next: usize,
    rt: bool,
    executor: usize,
    late: usize,
    /// modules that go down in start-up stage 0 of the run-time part, with the way they do
    down: Vec<(usize, u64)>,
    out: Vec<u64>,
}

/// The module that executes the run-time part of the script in its at_sim_start.
struct Node {
    idx: usize,
    st: Arc<Mutex<Option<State>>>,
    started: bool,
}

impl Module for Node {
    fn num_sim_start_stages(&self) -> usize {
        2
    }

    fn at_sim_start(&mut self, stage: usize) {
        if self.started && stage == 0 {
            return; // a restart: stay up this time
        }
        if stage == 0 {
            self.started = true;
            let how = {
                let guard = self.st.lock().unwrap();
                guard.as_ref().and_then(|st| {
                    if st.rt && st.executor != self.idx {
                        st.down.iter().find(|d| d.0 == self.idx).map(|d| d.1)
                    } else {
                        None
                    }
                })
            };
            match how {
                Some(0) => current().shutdown(),
                Some(1) => current().shutdow_and_restart_in(Duration::from_secs(5)),
                Some(_) => {
                    current().set_stereotyp(Stereotyp { on_panic_catch: true, ..Stereotyp::HOST });
                    panic!("scripted panic");
                }
                None => {}
            }
            return;
        }
        let mut guard = self.st.lock().unwrap();
        if let Some(st) = guard.as_mut() {
            if st.rt && st.executor == self.idx && st.next < st.ops.len() {
                // the declared modules must be down by now
                let all_down = st.down.iter().all(|d| d.0 == st.executor || !st.mods[d.0].is_active());
                if !all_down || !st.mods[st.executor].is_active() {
                    st.out.push(666);
                }
                while st.next < st.ops.len() {
                    exec(st, None);
                }
            }
        }
    }
}

impl State {
    fn midx(&self, m: &ModuleRef) -> u64 {
        self.ids.iter().position(|i| *i == m.id()).map_or(999, |p| p as u64)
    }
    fn gate(&self, g: &GateRef) -> (u64, u64) {
        let owner = g.owner();
        let pos = owner.gates().iter().position(|x| Arc::ptr_eq(x, g)).map_or(999, |p| p as u64);
        (self.midx(&owner), pos)
    }
    /// position of the node of an edge end within `nodes()`
    fn nidx<N, C>(&self, topo: &Topology<N, C>, m: &ModuleRef) -> u64 {
        topo.nodes().iter().position(|n| n.module().id() == m.id()).map_or(999, |p| p as u64)
    }
    fn edge<N, C>(&self, topo: &Topology<N, C>, e: &Edge<'_, N, C>, out: &mut Vec<u64>) {
        let (sm, sg) = self.gate(&e.from.gate());
        let (em, eg) = self.gate(&e.to.gate());
        out.extend([self.nidx(topo, &e.from.module()), sm, sg, em, eg, self.nidx(topo, &e.to.module())]);
    }
    fn view(&mut self) {
        let mut out = vec![1, self.topo.nodes().len() as u64];
        for n in self.topo.nodes() {
            out.push(self.midx(&n.module()));
        }
        let edges: Vec<_> = self.topo.edges().collect();
        out.push(edges.len() as u64);
        for e in &edges {
            self.edge(&self.topo, e, &mut out);
        }
        self.out.extend(out);
    }
    /// a module handle: the one kept from the build phase, or, at run time, looked up in the globals
    fn module(&self, m: usize) -> ModuleRef {
        if self.rt {
            des::net::globals().get(&format!("m{m}").as_str().into()).expect("module")
        } else {
            self.mods[m].clone()
        }
    }
    /// wires g0 - g1 - .. - gh if the chain is valid for the current gate graph
    fn connect_chain(&mut self, c: &[u64]) -> bool {
        if c.is_empty() {
            return false;
        }
        let mode = c[0];
        let chain: Vec<(usize, usize)> = c[1..]
            .chunks(2)
            .filter(|p| p.len() == 2)
            .map(|p| (p[0].min(255) as usize, p[1].min(255) as usize))
            .collect();
        let exists = |g: &(usize, usize)| g.0 < self.nm && g.1 < self.gates[g.0].len();
        let distinct = (0..chain.len()).all(|i| (i + 1..chain.len()).all(|j| chain[i] != chain[j]));
        if chain.len() < 2 || !distinct || !chain.iter().all(|g| exists(g) && !self.used[g.0][g.1]) {
            return false;
        }
        for g in &chain {
            self.used[g.0][g.1] = true;
        }
        let mut hops: Vec<usize> = (0..chain.len() - 1).collect();
        if mode & 1 == 1 {
            hops.reverse();
        }
        for i in hops {
            let a = self.gates[chain[i].0][chain[i].1].clone();
            let b = self.gates[chain[i + 1].0][chain[i + 1].1].clone();
            if mode & 2 == 2 {
                b.connect(a, None);
            } else {
                a.connect(b, None);
            }
        }
        true
    }
}

fn bit(mask: u64, i: u64) -> bool {
    i < 64 && (mask >> i) & 1 == 1
}

/// executes the next operation; `sim` is the builder while the simulation is being built
fn exec(st: &mut State, sim: Option<&mut SimBuilder<()>>) {
    let i = st.next;
    st.next += 1;
    let nm = st.nm;
    // ops are only read; take the one needed out of the borrow by matching on a reference to a clone-free view
    let op = std::mem::replace(&mut st.ops[i], Op::Connected);
    match &op {
        Op::Global => {
            st.topo = match sim {
                Some(sim) => sim.globals().topology(),
                None if i % 2 == 0 => Topology::current(),
                None => des::net::globals().topology(),
            };
            st.view();
        }
        Op::Spanned(r) => {
            let r = (*r).min(255) as usize;
            if r < nm {
                st.topo = Topology::spanned(st.module(r));
                st.view();
            } else {
                st.out.push(7);
            }
        }
        Op::Dijkstra(s) => {
            let s = (*s).min(255);
            let res = catch_unwind(AssertUnwindSafe(|| {
                let dj = st.topo.dijkstra(format!("m{s}").as_str());
                let mut v = vec![3, st.topo.nodes().len() as u64];
                for n in st.topo.nodes() {
                    match dj.get(&n.module().path()) {
                        Some(e) => {
                            v.push(1);
                            st.edge(&st.topo, e, &mut v);
                        }
                        None => v.push(0),
                    }
                }
                v
            }));
            match res {
                Ok(v) => st.out.extend(v),
                Err(_) => st.out.extend([9, 1]),
            }
        }
        Op::Connected => {
            let b = st.topo.connected();
            st.out.extend([4, b as u64]);
        }
        Op::Bidirectional => {
            let b = st.topo.bidirectional();
            st.out.extend([5, b as u64]);
        }
        Op::FilterNodes(mask) => {
            let mut topo = std::mem::take(&mut st.topo);
            topo.filter_nodes(|n| bit(*mask, st.midx(&n.module())));
            st.topo = topo;
            st.view();
        }
        Op::FilterEdges(mask) => {
            let mut topo = std::mem::take(&mut st.topo);
            let snapshot = topo.clone();
            topo.filter_edges(|e| {
                let src = st.nidx(&snapshot, &e.from.module());
                let (_, sg) = st.gate(&e.from.gate());
                bit(*mask, (src * 8 + sg) % 62)
            });
            st.topo = topo;
            st.view();
        }
        Op::EdgesFor(m) => {
            let m = (*m).min(255);
            let es: Vec<_> = st.topo.edges_for(format!("m{m}").as_str()).collect();
            let mut v = vec![6, es.len() as u64];
            for e in &es {
                st.edge(&st.topo, e, &mut v);
            }
            st.out.extend(v);
        }
        Op::FromModules(ms) => {
            let mut sel: Vec<usize> = Vec::new();
            for m in ms {
                let m = (*m).min(255) as usize;
                if m < nm && !sel.contains(&m) {
                    sel.push(m);
                }
            }
            let list: Vec<ModuleRef> = sel.iter().map(|m| st.module(*m)).collect();
            st.topo = Topology::from_modules(&list);
            st.view();
        }
        Op::Connect(c) => {
            let ok = st.connect_chain(c);
            st.out.extend([11, ok as u64]);
        }
        Op::NewGate(m, via) => {
            let m = (*m).min(255) as usize;
            if m < nm && st.gates[m].len() < 60 {
                let name = format!("late{}", st.late);
                st.late += 1;
                let path = format!("m{m}");
                let g = if *via % 2 == 1 {
                    let module = st.module(m);
                    module.spawner().gate(&name, 1);
                    module.gate(&name, 0).expect("spawned gate")
                } else {
                    match sim {
                        Some(sim) => sim.gate(path.as_str(), &name),
                        None => st.module(m).create_gate(&name),
                    }
                };
                st.gates[m].push(g);
                st.used[m].push(false);
                st.out.extend([12, st.gates[m].len() as u64]);
            } else {
                st.out.extend([12, 0]);
            }
        }
        Op::Runtime(m) => {
            if st.rt || nm == 0 {
                st.out.extend([13, 0]);
            } else {
                st.rt = true;
                st.executor = (*m).min(255) as usize % nm;
                st.out.extend([13, 1]);
            }
        }
        Op::Down(m, kind) => {
            let m = (*m).min(255) as usize;
            if !st.rt && m < nm && !st.down.iter().any(|d| d.0 == m) {
                st.down.push((m, (*kind).min(255) % 3));
            }
            st.out.extend([14, 0]);
        }
    }
    st.ops[i] = op;
}

fn parse_ops(cur: &mut Cur) -> Vec<Op> {
    let mut ops = Vec::new();
    while !cur.done() {
        let tag = cur.peek().unwrap();
        let need = match tag {
            1 | 4 | 5 | 9 | 10 => 1,
            2 | 3 | 6 | 7 | 8 | 12 => 2,
            11 | 13 => 3,
            _ => break,
        };
        if cur.left() < need {
            break;
        }
        cur.next();
        ops.push(match tag {
            1 => Op::Global,
            2 => Op::Spanned(cur.next()),
            3 => Op::Dijkstra(cur.next()),
            4 => Op::Connected,
            5 => Op::Bidirectional,
            6 => Op::FilterNodes(cur.next()),
            7 => Op::FilterEdges(cur.next()),
            8 => Op::EdgesFor(cur.next()),
            9 => Op::FromModules(cur.take_lp()),
            10 => Op::Connect(cur.take_lp()),
            11 => {
                let m = cur.next();
                Op::NewGate(m, cur.next())
            }
            12 => Op::Runtime(cur.next()),
            _ => {
                let m = cur.next();
                Op::Down(m, cur.next())
            }
        });
    }
    ops
}

fn run_line(nums: &[u64]) -> Vec<u64> {
    if nums.is_empty() {
        return vec![];
    }
    let mut cur = Cur::new(nums);
    let p = (cur.next() % 65536) as u16;
    let mut counts = cur.take_lp();
    counts.truncate(24);
    let counts: Vec<usize> = counts.iter().map(|c| (*c).min(40) as usize).collect();
    let nm = counts.len();

    let shared: Arc<Mutex<Option<State>>> = Arc::new(Mutex::new(None));
    let mut sim = Sim::new(());
    // move the process-global id counter: gen() returns the current value c, the next one is c + 1
    let c = ModuleId::gen().0;
    for _ in 0..p.wrapping_sub(c.wrapping_add(1)) {
        let _ = ModuleId::gen();
    }
    for i in 0..nm {
        sim.node(format!("m{i}"), Node { idx: i, st: shared.clone(), started: false });
    }
    let mut gates: Vec<Vec<GateRef>> = Vec::new();
    for (i, c) in counts.iter().enumerate() {
        let path = format!("m{i}");
        gates.push((0..*c).map(|g| sim.gate(path.as_str(), &format!("g{g}"))).collect());
    }
    let mods: Vec<ModuleRef> = (0..nm)
        .map(|i| sim.get(&format!("m{i}").as_str().into()).expect("module"))
        .collect();
    let ids: Vec<ModuleId> = mods.iter().map(|m| m.id()).collect();
    let distinct = (0..nm).all(|i| (i + 1..nm).all(|j| ids[i] != ids[j]));
    let nulls = ids.iter().filter(|i| **i == ModuleId::NULL).count();
    let mut st = State {
        nm,
        ids,
        mods,
        used: counts.iter().map(|c| vec![false; *c]).collect(),
        gates,
        topo: Topology::default(),
        ops: Vec::new(),
        next: 0,
        rt: false,
        executor: 0,
        late: 0,
        down: Vec::new(),
        out: vec![10, nm as u64, distinct as u64, nulls as u64],
    };

    // chains of the header
    if cur.done() {
        return st.out;
    }
    let nch = cur.next().min(64);
    for _ in 0..nch {
        let c = cur.take_lp();
        st.connect_chain(&c);
    }
    st.ops = parse_ops(&mut cur);

    // build phase
    while st.next < st.ops.len() && !st.rt {
        exec(&mut st, Some(&mut sim));
    }
    if !st.rt {
        return st.out;
    }
    // run phase: the rest of the script is executed by a module of the running simulation
    *shared.lock().unwrap() = Some(st);
    let rt = Builder::seeded(1).quiet().build(sim.freeze());
    let res = catch_unwind(AssertUnwindSafe(|| rt.run()));
    // the runtime installs and removes its own panic hook
    std::panic::set_hook(Box::new(|_| {}));
    let st = shared.lock().unwrap().take().expect("state");
    let mut out = st.out.clone();
    if st.next < st.ops.len() || !matches!(res, Ok(Ok(_))) {
        out.push(666);
    }
    drop(st);
    out
}
