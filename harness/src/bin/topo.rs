//! Topology views (C19): drives des::net::topology::Topology through the public API on a
//! simulation whose gate graph is wired by the script.
//!
//! script:  p  nmod cnt_1 .. cnt_nmod   nch (len mode m0 g0 m1 g1 ..){nch}   query*
//!   p: position of the process-global ModuleId counter: ids are burnt (ModuleId::gen is public) until the
//!   next one is p mod 2^16, then the simulation is built.  First output record: 10 nmod d z with d = the
//!   module ids of the simulation are pairwise distinct, z = number of modules whose id is ModuleId::NULL.
//!   modules m0.. (at most 24) get cnt_i gates g0.. (at most 40) in this order; every chain
//!   g0 - g1 - .. - gh is wired by h connect calls (mode bit 0: last pair first, bit 1: swapped
//!   orientation) provided it has at least one hop and all its gates exist, are distinct and unused.
//!   query = 1 Globals::topology() | 2 r Topology::spanned(m_r) | 3 s dijkstra(m_s) | 4 connected | 5 bidirectional
//!         | 6 mask filter_nodes(bit module-index) | 7 mask filter_edges(bit ((from node*8 + start gate pos) mod 62))
//!         | 8 m edges_for(m_m) | 9 k m1..mk from_modules([..]) (unknown / repeated modules dropped)
//! output: view = 1 nn module{nn} ne (src sm sg em eg dst){ne} | dijkstra = 3 nn (0 | 1 src sm sg em eg dst){nn}
//!   | 4 b | 5 b | edges_for = 6 ne (..){ne} | 7 (no such root) | 9 1 (dijkstra: unknown node)
//! Node indices are positions in `nodes()`; an edge end is printed as the position of its node's module.
use des::net::module::{ModuleId, ModuleRef};
use des::net::topology::{Edge, Topology};
use des::prelude::*;
use implrun::Cur;
use std::panic::{catch_unwind, AssertUnwindSafe};
use std::sync::Arc;

fn main() {
    implrun::run_main(run_line)
}

struct Fallback;
impl Module for Fallback {}

struct World {
    ids: Vec<ModuleId>,
}

impl World {
    fn midx(&self, m: &ModuleRef) -> u64 {
        self.ids.iter().position(|i| *i == m.id()).map_or(999, |p| p as u64)
    }
    fn gate(&self, g: &GateRef) -> (u64, u64) {
        let owner = g.owner();
        let pos = owner.gates().iter().position(|x| Arc::ptr_eq(x, g)).map_or(999, |p| p as u64);
        (self.midx(&owner), pos)
    }
    /// position of the node of an edge end within `nodes()`
    fn nidx<N, C>(&self, topo: &Topology<N, C>, m: &ModuleRef) -> u64 {
        topo.nodes().iter().position(|n| n.module().id() == m.id()).map_or(999, |p| p as u64)
    }
    fn edge<N, C>(&self, topo: &Topology<N, C>, e: &Edge<'_, N, C>, out: &mut Vec<u64>) {
        let (sm, sg) = self.gate(&e.from.gate());
        let (em, eg) = self.gate(&e.to.gate());
        out.extend([self.nidx(topo, &e.from.module()), sm, sg, em, eg, self.nidx(topo, &e.to.module())]);
    }
    fn view(&self, topo: &Topology<(), ()>, out: &mut Vec<u64>) {
        out.push(1);
        out.push(topo.nodes().len() as u64);
        for n in topo.nodes() {
            out.push(self.midx(&n.module()));
        }
        let edges: Vec<_> = topo.edges().collect();
        out.push(edges.len() as u64);
        for e in &edges {
            self.edge(topo, e, out);
        }
    }
}

fn bit(mask: u64, i: u64) -> bool {
    i < 64 && (mask >> i) & 1 == 1
}

fn run_line(nums: &[u64]) -> Vec<u64> {
    if nums.is_empty() {
        return vec![];
    }
    let mut cur = Cur::new(nums);
    let p = (cur.next() % 65536) as u16;
    let mut counts = cur.take_lp();
    counts.truncate(24);
    let counts: Vec<usize> = counts.iter().map(|c| (*c).min(40) as usize).collect();
    let nm = counts.len();

    let mut sim = Sim::new(());
    // move the process-global id counter: gen() returns the current value c, the next one is c + 1
    let c = ModuleId::gen().0;
    for _ in 0..p.wrapping_sub(c.wrapping_add(1)) {
        let _ = ModuleId::gen();
    }
    for i in 0..nm {
        sim.node(format!("m{i}"), Fallback);
    }
    let mut gates: Vec<Vec<GateRef>> = Vec::new();
    for (i, c) in counts.iter().enumerate() {
        let path = format!("m{i}");
        gates.push((0..*c).map(|g| sim.gate(path.as_str(), &format!("g{g}"))).collect());
    }
    let mods: Vec<ModuleRef> = (0..nm)
        .map(|i| sim.get(&format!("m{i}").as_str().into()).expect("module"))
        .collect();
    let world = World { ids: mods.iter().map(|m| m.id()).collect() };
    let distinct = (0..nm).all(|i| (i + 1..nm).all(|j| world.ids[i] != world.ids[j]));
    let nulls = world.ids.iter().filter(|i| **i == ModuleId::NULL).count();
    let mut out: Vec<u64> = vec![10, nm as u64, distinct as u64, nulls as u64];

    // chains
    let mut used: Vec<Vec<bool>> = counts.iter().map(|c| vec![false; *c]).collect();
    if !cur.done() {
        let nch = cur.next().min(64);
        for _ in 0..nch {
            let c = cur.take_lp();
            if c.is_empty() {
                continue;
            }
            let mode = c[0];
            let chain: Vec<(usize, usize)> = c[1..]
                .chunks(2)
                .filter(|p| p.len() == 2)
                .map(|p| (p[0].min(255) as usize, p[1].min(255) as usize))
                .collect();
            let exists = |g: &(usize, usize)| g.0 < nm && g.1 < counts[g.0];
            let distinct = (0..chain.len()).all(|i| (i + 1..chain.len()).all(|j| chain[i] != chain[j]));
            if chain.len() < 2 || !distinct || !chain.iter().all(|g| exists(g) && !used[g.0][g.1]) {
                continue;
            }
            for g in &chain {
                used[g.0][g.1] = true;
            }
            let mut hops: Vec<usize> = (0..chain.len() - 1).collect();
            if mode & 1 == 1 {
                hops.reverse();
            }
            for i in hops {
                let a = gates[chain[i].0][chain[i].1].clone();
                let b = gates[chain[i + 1].0][chain[i + 1].1].clone();
                if mode & 2 == 2 {
                    b.connect(a, None);
                } else {
                    a.connect(b, None);
                }
            }
        }
    }

    let mut topo: Topology<(), ()> = Topology::default();
    while !cur.done() {
        let tag = cur.peek().unwrap();
        let need = match tag {
            1 | 4 | 5 | 9 => 1,
            2 | 3 | 6 | 7 | 8 => 2,
            _ => break,
        };
        if cur.left() < need {
            break;
        }
        cur.next();
        match tag {
            1 => {
                topo = sim.globals().topology();
                world.view(&topo, &mut out);
            }
            2 => {
                let r = cur.next().min(255) as usize;
                if r < nm {
                    topo = Topology::spanned(mods[r].clone());
                    world.view(&topo, &mut out);
                } else {
                    out.push(7);
                }
            }
            3 => {
                let s = cur.next().min(255);
                let res = catch_unwind(AssertUnwindSafe(|| {
                    let dj = topo.dijkstra(format!("m{s}").as_str());
                    let mut v = vec![3, topo.nodes().len() as u64];
                    for n in topo.nodes() {
                        match dj.get(&n.module().path()) {
                            Some(e) => {
                                v.push(1);
                                world.edge(&topo, e, &mut v);
                            }
                            None => v.push(0),
                        }
                    }
                    v
                }));
                match res {
                    Ok(v) => out.extend(v),
                    Err(_) => out.extend([9, 1]),
                }
            }
            4 => out.extend([4, topo.connected() as u64]),
            5 => out.extend([5, topo.bidirectional() as u64]),
            6 => {
                let mask = cur.next();
                topo.filter_nodes(|n| bit(mask, world.midx(&n.module())));
                world.view(&topo, &mut out);
            }
            7 => {
                let mask = cur.next();
                let snapshot = topo.clone();
                topo.filter_edges(|e| {
                    let src = world.nidx(&snapshot, &e.from.module());
                    let (_, sg) = world.gate(&e.from.gate());
                    bit(mask, (src * 8 + sg) % 62)
                });
                world.view(&topo, &mut out);
            }
            8 => {
                let m = cur.next().min(255);
                let es: Vec<_> = topo.edges_for(format!("m{m}").as_str()).collect();
                out.extend([6, es.len() as u64]);
                for e in &es {
                    world.edge(&topo, e, &mut out);
                }
            }
            _ => {
                let ms = cur.take_lp();
                let mut sel: Vec<usize> = Vec::new();
                for m in ms {
                    let m = m.min(255) as usize;
                    if m < nm && !sel.contains(&m) {
                        sel.push(m);
                    }
                }
                let list: Vec<ModuleRef> = sel.iter().map(|m| mods[*m].clone()).collect();
                topo = Topology::from_modules(&list);
                world.view(&topo, &mut out);
            }
        }
    }
    out
}
