//! Timers (C05): async modules whose tasks interpret scripts over the real
//! `des::time::{sleep, sleep_until, timeout, interval}`, `tokio::select!`, `Sleep::reset` and
//! dropping a pinned `Sleep`, on the real `des` runtime.  Every task logs `SimTime::now()`
//! after every await.
//!
//! script := nm  ntasks  task*            modules = 1 + nm % 2 ("a", "b")
//! task   := len [ mod start step* ]      module = mod % modules; start = 0: spawned by
//!                                        at_sim_start, else by a message delivered at `start`
//! step   := 1 d | 2 t | 3 d k x | 4 f a b | 5 p beh k b1..bk | 6 f d1 d2 | 7 d | 8 | 9 ch d | 10 ch | 11 d ch | 12 f ch d | 13 f d0 d2 x d3 | 14 f d
//!   1 sleep(d)            2 sleep_until(t)       3 timeout(d, k even: sleep(x) / k odd: Flip)
//!   4 select!{ sleep(a) => 0, sleep(b) => 1 }, f odd = `biased;`
//!   5 interval(max(1,p)), behaviour beh%3 (0 Burst 1 Delay 2 Skip), k ticks, sleep(b_i) after tick i if b_i > 0
//!   6 pinned sleep(d1) [f odd: polled once], reset(now + d2), await     7 Box::pin(sleep(d)) polled once, dropped
//!   8 log
//!   9 Box::pin(sleep(d)) polled once (registered), then sent on channel ch of the task's module
//!   10 receive a boxed Sleep from channel ch of the task's module (log), then await it (log)
//!   11 timeout(d, receive from channel ch); a received Sleep is dropped
//!   12 select!{ biased; x = receive from ch => 0 (x dropped), sleep(d) => 1 }, f odd: the receive branch comes first
//!   13 keep-alive timer: Box::pin(sleep(d0)) polled once, reset(now + d2); select!{ biased; it => 0, sleep(x) => 1 };
//!      on 1: f odd: reset(now + d3) and await, f even: drop
//!   14 same task, other waker: Box::pin(sleep(d)); f even: polled once with the task's own waker, then awaited through a
//!      sub-executor (`Sub`: polls its child with ITS OWN waker, and only when that waker was woken -- FuturesUnordered,
//!      JoinSet, select_all .. work like this); f odd: polled once through the sub-executor, then awaited directly
//! A duration >= 2^61 stands for Duration::MAX (steps 3 4 6 7 11 12 13 14): `now + d` is SimTime::MAX at now = 0 and not
//! representable later (Sleep::far_future); a reset target >= 2^61 is SimTime::MAX. SimTime::MAX is printed as 2^62 - 1.
//! A task spawned by a message (start > 0) that sends at once is a message event whose handler sends on a channel.
//!
//! Output := (len log.. fin)*  ok  end_time  snapshot*  [9 t m id]
//!   `9 t m id` (only when des has the hook ModuleRef::verif_timer_entry_ids, cfg(des_timer_ids)): at the sample taken
//!   at instant t the driver of module m held two timer entries with the same id -- removal by id is ambiguous then
//!   snapshot := t m #slots (deadline #entries)* flag next_wakeup: what the verification hook
//!   ModuleRef::verif_timer_snapshot reports of each module's timer driver, sampled between events (after
//!   start-up and after every dispatched event; a module that does not exist is reported as an empty driver)
//!   log records: sleep/sleep_until/reset/drop/log -> now; timeout -> now ok(1)/elapsed(0);
//!   select -> now branch (2 = unbiased tie); tick -> now tick_instant; hand-over -> now;
//!   receive+await -> instant of the receive, instant the received Sleep completed
//!   ok = Runtime::run returned Ok (no JoinError NotFinished); end_time = SimTime::now() in at_sim_end
#![allow(unexpected_cfgs)]
use des::prelude::*;
use des::time::{interval, sleep, sleep_until, timeout, MissedTickBehavior, Sleep};
use std::collections::VecDeque;
use std::task::Waker;
use implrun::Cur;
use std::future::{poll_fn, Future};
use std::pin::Pin;
use std::sync::atomic::{AtomicBool, AtomicU64, Ordering::SeqCst};
use std::sync::{Arc, Mutex};
use std::task::{Context, Poll, Wake};

static LOGS: Mutex<Vec<Vec<u64>>> = Mutex::new(Vec::new());
static FIN: Mutex<Vec<bool>> = Mutex::new(Vec::new());
static END: AtomicU64 = AtomicU64::new(0);

/// Channels that carry boxed Sleeps between the tasks of one module: key (module, channel).
struct Chan {
    key: (u64, u64),
    items: VecDeque<Pin<Box<Sleep>>>,
    waiters: Vec<(usize, Waker)>,
}
static CHANS: Mutex<Vec<Chan>> = Mutex::new(Vec::new());

fn with_chan<R>(key: (u64, u64), f: impl FnOnce(&mut Chan) -> R) -> R {
    let mut chans = CHANS.lock().unwrap();
    if let Some(c) = chans.iter_mut().find(|c| c.key == key) {
        return f(c);
    }
    chans.push(Chan { key, items: VecDeque::new(), waiters: Vec::new() });
    f(chans.last_mut().unwrap())
}

/// Queue the Sleep and wake every receiver that waits on the channel (in task order).
fn chan_send(key: (u64, u64), s: Pin<Box<Sleep>>) {
    let mut ws = with_chan(key, |c| {
        c.items.push_back(s);
        std::mem::take(&mut c.waiters)
    });
    ws.sort_by_key(|w| w.0);
    for (_, w) in ws {
        w.wake();
    }
}

struct Recv {
    key: (u64, u64),
    k: usize,
}

impl Future for Recv {
    type Output = Pin<Box<Sleep>>;
    fn poll(self: Pin<&mut Self>, cx: &mut Context<'_>) -> Poll<Self::Output> {
        let k = self.k;
        with_chan(self.key, |c| match c.items.pop_front() {
            Some(s) => Poll::Ready(s),
            None => {
                if !c.waiters.iter().any(|w| w.0 == k) {
                    c.waiters.push((k, cx.waker().clone()));
                }
                Poll::Pending
            }
        })
    }
}

fn main() {
    implrun::run_main(run_line)
}

fn now() -> u64 {
    SimTime::now().as_nanos() as u64
}

fn ns(d: u64) -> Duration {
    Duration::from_nanos(d)
}

const FARK: u64 = 1 << 61;
const TMAX: u64 = (1 << 62) - 1;

/// duration of a timer that may be a far-future one
fn fdur(d: u64) -> Duration {
    if d >= FARK {
        Duration::MAX
    } else {
        Duration::from_nanos(d)
    }
}

/// reset target `base + d`
fn fdl(base: SimTime, d: u64) -> SimTime {
    if d >= FARK {
        SimTime::MAX
    } else {
        base + ns(d)
    }
}

fn tnum(t: SimTime) -> u64 {
    if t == SimTime::MAX {
        TMAX
    } else {
        t.as_nanos() as u64
    }
}

fn log(k: usize, rec: &[u64]) {
    LOGS.lock().unwrap()[k].extend_from_slice(rec);
}

#[derive(Clone, Debug)]
enum Step {
    Sleep(u64),
    SleepUntil(u64),
    Timeout(u64, Option<u64>),
    Select(bool, u64, u64),
    Interval(u64, u64, Vec<u64>),
    Reset(bool, u64, u64),
    DropSleep(u64),
    Log,
    HandOver(u64, u64),
    RecvAwait(u64),
    TimeoutRecv(u64, u64),
    SelRecv(bool, u64, u64),
    Keep(bool, u64, u64, u64, u64),
    Wrap(bool, u64),
    Relay(bool, u64, u64),
}

#[derive(Clone, Debug)]
struct TaskCfg {
    module: u64,
    start: u64,
    steps: Vec<Step>,
}

/// Pending on the first poll (waking its own task at once), Ready on the second.
struct Flip(bool);

impl Future for Flip {
    type Output = ();
    fn poll(mut self: Pin<&mut Self>, cx: &mut Context<'_>) -> Poll<()> {
        if self.0 {
            Poll::Ready(())
        } else {
            self.0 = true;
            cx.waker().wake_by_ref();
            Poll::Pending
        }
    }
}

/// The waker a sub-executor hands to its child: when woken it marks the child as ready to be polled and wakes the
/// task the sub-executor runs in (the waker of its own last poll).
struct SubWaker {
    woken: AtomicBool,
    parent: Mutex<Option<Waker>>,
}

impl Wake for SubWaker {
    fn wake(self: Arc<Self>) {
        self.wake_by_ref();
    }
    fn wake_by_ref(self: &Arc<Self>) {
        self.woken.store(true, SeqCst);
        if let Some(w) = self.parent.lock().unwrap().as_ref() {
            w.wake_by_ref();
        }
    }
}

/// A sub-executor with one child: it polls the child with its own waker, and only when that waker has been woken since
/// the last poll (initially: once).  A child whose timer wakes some OTHER waker is never polled again.
struct Sub {
    inner: Pin<Box<Sleep>>,
    w: Arc<SubWaker>,
}

impl Sub {
    fn new(inner: Pin<Box<Sleep>>) -> Sub {
        Sub { inner, w: Arc::new(SubWaker { woken: AtomicBool::new(true), parent: Mutex::new(None) }) }
    }
}

impl Future for Sub {
    type Output = ();
    fn poll(self: Pin<&mut Self>, cx: &mut Context<'_>) -> Poll<()> {
        let me = self.get_mut();
        *me.w.parent.lock().unwrap() = Some(cx.waker().clone());
        if !me.w.woken.swap(false, SeqCst) {
            return Poll::Pending;
        }
        let waker = Waker::from(me.w.clone());
        let mut c = Context::from_waker(&waker);
        me.inner.as_mut().poll(&mut c)
    }
}

fn dec_steps(b: &[u64]) -> Vec<Step> {
    let mut out = Vec::new();
    let mut i = 0;
    while i < b.len() {
        let left = b.len() - i - 1;
        match b[i] {
            1 if left >= 1 => {
                out.push(Step::Sleep(b[i + 1]));
                i += 2;
            }
            2 if left >= 1 => {
                out.push(Step::SleepUntil(b[i + 1]));
                i += 2;
            }
            3 if left >= 3 => {
                let v = if b[i + 2] % 2 == 0 { Some(b[i + 3]) } else { None };
                out.push(Step::Timeout(b[i + 1], v));
                i += 4;
            }
            4 if left >= 3 => {
                out.push(Step::Select(b[i + 1] % 2 == 1, b[i + 2], b[i + 3]));
                i += 4;
            }
            5 if left >= 3 => {
                let k = std::cmp::min(b[i + 3], (left - 3) as u64) as usize;
                out.push(Step::Interval(std::cmp::max(1, b[i + 1]), b[i + 2] % 3, b[i + 4..i + 4 + k].to_vec()));
                i += 4 + k;
            }
            6 if left >= 3 => {
                out.push(Step::Reset(b[i + 1] % 2 == 1, b[i + 2], b[i + 3]));
                i += 4;
            }
            7 if left >= 1 => {
                out.push(Step::DropSleep(b[i + 1]));
                i += 2;
            }
            8 => {
                out.push(Step::Log);
                i += 1;
            }
            9 if left >= 2 => {
                out.push(Step::HandOver(b[i + 1], b[i + 2]));
                i += 3;
            }
            10 if left >= 1 => {
                out.push(Step::RecvAwait(b[i + 1]));
                i += 2;
            }
            11 if left >= 2 => {
                out.push(Step::TimeoutRecv(b[i + 1], b[i + 2]));
                i += 3;
            }
            12 if left >= 3 => {
                out.push(Step::SelRecv(b[i + 1] % 2 == 1, b[i + 2], b[i + 3]));
                i += 4;
            }
            13 if left >= 5 => {
                out.push(Step::Keep(b[i + 1] % 2 == 1, b[i + 2], b[i + 3], b[i + 4], b[i + 5]));
                i += 6;
            }
            14 if left >= 2 => {
                out.push(Step::Wrap(b[i + 1] % 2 == 1, b[i + 2]));
                i += 3;
            }
            15 if left >= 3 => {
                out.push(Step::Relay(b[i + 1] % 2 == 1, b[i + 2], b[i + 3]));
                i += 4;
            }
            _ => break,
        }
    }
    out
}

async fn interpret(k: usize, m: u64, steps: Vec<Step>) {
    for s in steps {
        match s {
            Step::Sleep(d) => {
                sleep(ns(d)).await;
                log(k, &[now()]);
            }
            Step::SleepUntil(t) => {
                sleep_until(SimTime::from_duration(ns(t))).await;
                log(k, &[now()]);
            }
            Step::Timeout(d, Some(x)) => {
                let r = timeout(fdur(d), sleep(ns(x))).await;
                log(k, &[now(), r.is_ok() as u64]);
            }
            Step::Timeout(d, None) => {
                let r = timeout(fdur(d), Flip(false)).await;
                log(k, &[now(), r.is_ok() as u64]);
            }
            Step::Select(biased, a, b) => {
                let br: u64 = if biased {
                    tokio::select! {
                        biased;
                        _ = sleep(fdur(a)) => 0,
                        _ = sleep(fdur(b)) => 1,
                    }
                } else {
                    tokio::select! {
                        _ = sleep(fdur(a)) => 0,
                        _ = sleep(fdur(b)) => 1,
                    }
                };
                // an unbiased select between equal deadlines picks its branch by tokio's seeded RNG
                let code = if biased || a != b { br } else { 2 };
                log(k, &[now(), code]);
            }
            Step::Interval(p, beh, busy) => {
                let mut iv = interval(ns(p));
                iv.set_missed_tick_behavior(match beh {
                    0 => MissedTickBehavior::Burst,
                    1 => MissedTickBehavior::Delay,
                    _ => MissedTickBehavior::Skip,
                });
                for b in busy {
                    let t = iv.tick().await;
                    log(k, &[now(), t.as_nanos() as u64]);
                    if b > 0 {
                        sleep(ns(b)).await;
                        log(k, &[now()]);
                    }
                }
                drop(iv);
            }
            Step::Reset(polled, d1, d2) => {
                let base = SimTime::now();
                let s = sleep(fdur(d1));
                tokio::pin!(s);
                if polled {
                    poll_fn(|cx| {
                        let _ = s.as_mut().poll(cx);
                        Poll::Ready(())
                    })
                    .await;
                }
                s.as_mut().reset(fdl(base, d2));
                s.await;
                log(k, &[now()]);
            }
            Step::DropSleep(d) => {
                let mut s = Box::pin(sleep(fdur(d)));
                poll_fn(|cx| {
                    let _ = s.as_mut().poll(cx);
                    Poll::Ready(())
                })
                .await;
                drop(s);
                log(k, &[now()]);
            }
            Step::Log => log(k, &[now()]),
            Step::HandOver(ch, d) => {
                let mut s = Box::pin(sleep(ns(d)));
                poll_fn(|cx| {
                    let _ = s.as_mut().poll(cx);
                    Poll::Ready(())
                })
                .await;
                chan_send((m, ch), s);
                log(k, &[now()]);
            }
            Step::TimeoutRecv(d, ch) => {
                let r = timeout(fdur(d), Recv { key: (m, ch), k }).await;
                let ok = r.is_ok();
                drop(r);
                log(k, &[now(), ok as u64]);
            }
            Step::SelRecv(recv_first, ch, d) => {
                let br: u64 = if recv_first {
                    tokio::select! {
                        biased;
                        x = Recv { key: (m, ch), k } => { drop(x); 0 },
                        _ = sleep(fdur(d)) => 1,
                    }
                } else {
                    tokio::select! {
                        biased;
                        _ = sleep(fdur(d)) => 1,
                        x = Recv { key: (m, ch), k } => { drop(x); 0 },
                    }
                };
                log(k, &[now(), br]);
            }
            Step::Keep(rearm, d0, d2, x, d3) => {
                let base = SimTime::now();
                let mut s = Box::pin(sleep(fdur(d0)));
                poll_fn(|cx| {
                    let _ = s.as_mut().poll(cx);
                    Poll::Ready(())
                })
                .await;
                s.as_mut().reset(fdl(base, d2));
                let r: u64 = tokio::select! {
                    biased;
                    _ = &mut s => 0,
                    _ = sleep(ns(x)) => 1,
                };
                log(k, &[now(), r]);
                if r == 1 {
                    if rearm {
                        s.as_mut().reset(fdl(SimTime::now(), d3));
                        s.await;
                    } else {
                        drop(s);
                    }
                    log(k, &[now()]);
                }
            }
            Step::Wrap(wrapper_first, d) => {
                let mut s = Box::pin(sleep(fdur(d)));
                if wrapper_first {
                    let mut sub = Sub::new(s);
                    poll_fn(|cx| {
                        let _ = Pin::new(&mut sub).poll(cx);
                        Poll::Ready(())
                    })
                    .await;
                    sub.inner.await;
                } else {
                    poll_fn(|cx| {
                        let _ = s.as_mut().poll(cx);
                        Poll::Ready(())
                    })
                    .await;
                    Sub::new(s).await;
                }
                log(k, &[now()]);
            }
            Step::Relay(wrapped, chi, cho) => {
                // hand-over chain: the received (registered) Sleep is polled once by this
                // task and passed on; it may come back to a task that polled it earlier
                let mut s = Recv { key: (m, chi), k }.await;
                if wrapped {
                    let mut sub = Sub::new(s);
                    poll_fn(|cx| {
                        let _ = Pin::new(&mut sub).poll(cx);
                        Poll::Ready(())
                    })
                    .await;
                    s = sub.inner;
                } else {
                    poll_fn(|cx| {
                        let _ = s.as_mut().poll(cx);
                        Poll::Ready(())
                    })
                    .await;
                }
                chan_send((m, cho), s);
                log(k, &[now()]);
            }
            Step::RecvAwait(ch) => {
                let s = Recv { key: (m, ch), k }.await;
                log(k, &[now()]);
                s.await;
                log(k, &[now()]);
            }
        }
    }
    FIN.lock().unwrap()[k] = true;
}

/// A receive that is given up (timeout elapsed, select lost) no longer waits on its channel.
impl Drop for Recv {
    fn drop(&mut self) {
        let k = self.k;
        with_chan(self.key, |c| c.waiters.retain(|w| w.0 != k));
    }
}

struct ScriptModule {
    m: u64,
    tasks: Vec<TaskCfg>,
}

impl ScriptModule {
    fn spawn(&self, k: usize) {
        let steps = self.tasks[k].steps.clone();
        current().join(tokio::spawn(interpret(k, self.m, steps)));
    }
}

impl Module for ScriptModule {
    fn at_sim_start(&mut self, _stage: usize) {
        for k in 0..self.tasks.len() {
            if self.tasks[k].module == self.m && self.tasks[k].start == 0 {
                self.spawn(k);
            }
        }
    }

    fn handle_message(&mut self, msg: Message) {
        let k = *msg.content::<u64>() as usize;
        if k < self.tasks.len() {
            self.spawn(k);
        }
    }

    fn at_sim_end(&mut self) -> Result<(), RuntimeError> {
        END.store(now(), SeqCst);
        Ok(())
    }
}

fn run_line(nums: &[u64]) -> Vec<u64> {
    let mut tasks: Vec<TaskCfg> = Vec::new();
    let mut mods = 1;
    if nums.len() >= 2 {
        mods = 1 + nums[0] % 2;
        let mut c = Cur::new(&nums[2..]);
        let n = std::cmp::min(nums[1], c.left() as u64);
        for _ in 0..n {
            if c.done() {
                break;
            }
            let b = c.take_lp();
            if b.len() >= 2 {
                tasks.push(TaskCfg { module: b[0] % mods, start: b[1], steps: dec_steps(&b[2..]) });
            } else {
                tasks.push(TaskCfg { module: 0, start: 0, steps: vec![] });
            }
        }
    }

    *LOGS.lock().unwrap() = vec![Vec::new(); tasks.len()];
    *FIN.lock().unwrap() = vec![false; tasks.len()];
    END.store(0, SeqCst);
    CHANS.lock().unwrap().clear();

    let names = ["a", "b"];
    let mut sim = Sim::new(());
    for m in 0..mods {
        sim.node(names[m as usize], ScriptModule { m, tasks: tasks.clone() });
    }
    let refs: Vec<_> = (0..mods)
        .map(|m| sim.get(&ObjectPath::from(names[m as usize])).expect("module"))
        .collect();

    let mut rt = Builder::seeded(1).quiet().build(sim.freeze());
    for (k, t) in tasks.iter().enumerate() {
        if t.start > 0 {
            let msg = Message::default().with_content(k as u64);
            rt.handle_message_on(refs[t.module as usize].clone(), msg, SimTime::from_duration(ns(t.start)));
        }
    }
    // run event by event and sample every module's timer driver in between
    let mut snaps: Vec<u64> = Vec::new();
    let mut sample = |refs: &Vec<ModuleRef>| {
        let t = now();
        for m in 0..2usize {
            let (slots, nw) = match refs.get(m).and_then(|r| r.verif_timer_snapshot()) {
                Some(x) => x,
                None => (Vec::new(), None),
            };
            snaps.extend([t, m as u64, slots.len() as u64]);
            for (d, n) in slots {
                snaps.extend([tnum(d), n as u64]);
            }
            match nw {
                Some(x) => snaps.extend([1, tnum(x)]),
                None => snaps.extend([0, 0]),
            }
        }
    };
    // entry ids of one driver must be pairwise distinct (first duplicate found is reported)
    let mut dup: Option<[u64; 3]> = None;
    #[allow(unused_mut, unused_variables)]
    let mut check_ids = |refs: &Vec<ModuleRef>, dup: &mut Option<[u64; 3]>| {
        #[cfg(des_timer_ids)]
        for (m, r) in refs.iter().enumerate() {
            if dup.is_some() {
                break;
            }
            if let Some(slots) = r.verif_timer_entry_ids() {
                let mut ids: Vec<usize> = slots.into_iter().flat_map(|(_, v)| v).collect();
                ids.sort_unstable();
                if let Some(w) = ids.windows(2).find(|w| w[0] == w[1]) {
                    *dup = Some([now(), m as u64, (w[0] as u64).min(TMAX)]);
                }
            }
        }
    };
    rt.start();
    sample(&refs);
    check_ids(&refs, &mut dup);
    while rt.num_events_remaining() > 0 {
        rt.dispatch_n_events(1);
        sample(&refs);
        check_ids(&refs, &mut dup);
    }
    let res = rt.finish();

    let logs = LOGS.lock().unwrap();
    let fin = FIN.lock().unwrap();
    let mut out = Vec::new();
    for k in 0..tasks.len() {
        out.push(logs[k].len() as u64);
        out.extend_from_slice(&logs[k]);
        out.push(fin[k] as u64);
    }
    out.push(res.is_ok() as u64);
    out.push(END.load(SeqCst));
    out.extend(snaps);
    if let Some(d) = dup {
        out.push(9);
        out.extend(d);
    }
    out
}
