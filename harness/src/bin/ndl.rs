//! NDL (C18): drives des_net_utils::ndl (FromStr/Display of def.rs, serde, `transform`) and
//! des::net::ndl (`SimBuilder::nodes_from_ndl`) through their public API.
//!
//! Script and output format: see coq/Ndl/Model.v (header comment).  In short
//!   0 which byte*      one string through `str::parse::<T>()` and `to_string()`
//!   1 mode doc         a document (every key / scalar that def.rs parses is a raw string): YAML text is
//!                      generated from it, `serde_yml::from_str::<Def>`, `transform`, and for odd `mode`
//!                      `Sim::new(()).nodes_from_ndl(&def, registry)` followed by a read-out of
//!                      `Sim::nodes`, for every node the registered type whose factory produced its software, gates, and both connection slots of
//!                      every gate with `Channel::metrics`.
//! Every call into the crates is wrapped in `catch_unwind`; a panic is reported as `9 site`
//! (the model never produces 9 for parsing / elaboration of the current code).
use des::net::gate::Connection;
use des::net::ndl::{Registry, RegistryCreatable};
use des::prelude::*;
use des_net_utils::ndl::def::{
    ConnectionEndpointDef, Def, FieldDef, Kardinality, ModuleDef, ModuleGenericsDef, TypClause,
};
use des_net_utils::ndl::error::{Error, ErrorKind};
use des_net_utils::ndl::transform;
use des_net_utils::ndl::tree::{self, Node};
use implrun::Cur;
use std::collections::BTreeSet;
use std::fmt::Display;
use std::panic::{catch_unwind, AssertUnwindSafe};
use std::str::FromStr;

fn main() {
    implrun::run_main(run_line)
}

// ---------------------------------------------------------------- helpers
fn panic_text(e: &Box<dyn std::any::Any + Send>) -> String {
    if let Some(s) = e.downcast_ref::<&str>() {
        s.to_string()
    } else if let Some(s) = e.downcast_ref::<String>() {
        s.clone()
    } else {
        String::new()
    }
}

/// panic sites as numbered in coq/Ndl/{Grammar,Def,Build}.v
fn site(e: &Box<dyn std::any::Any + Send>) -> u64 {
    let t = panic_text(e);
    if t.contains("rem.ends_with") {
        1
    } else if t.contains("args is non empty") {
        2
    } else if t.contains("replacement_deps.is_empty") {
        14
    } else if t.contains("accessors must be non-empty") {
        16
    } else if t.contains("unreachable: parse order") {
        11
    } else if t.contains("already exists") {
        30
    } else if t == "gate" || t.starts_with("gate:") {
        32
    } else if t == "child" || t.starts_with("child:") {
        33
    } else if t.contains("Cannot connect gate to itself") {
        34
    } else if t.contains("allready connected to multiple points") {
        35
    } else if t.contains("capacity overflow") {
        40
    } else {
        99
    }
}

fn take_str(c: &mut Cur) -> String {
    c.take_lp().into_iter().map(|x| (x % 128) as u8 as char).collect()
}

fn counted<T>(c: &mut Cur, mut one: impl FnMut(&mut Cur) -> T) -> Vec<T> {
    let n = c.next();
    let k = n.min(c.left() as u64);
    (0..k).map(|_| one(c)).collect()
}

fn lp(out: &mut Vec<u64>, s: &str) {
    out.push(s.len() as u64);
    out.extend(s.bytes().map(u64::from));
}

fn sorted_concat(out: &mut Vec<u64>, mut items: Vec<Vec<u64>>) {
    items.sort();
    out.push(items.len() as u64);
    for i in items {
        out.extend(i);
    }
}

fn kind_number(k: &ErrorKind) -> u64 {
    use ErrorKind::*;
    match k {
        Other => 0,
        MissingRegistrySymbol(..) => 1,
        SymbolAlreadyDefined(..) => 2,
        Io(..) => 3,
        UnknownLink(..) => 4,
        UnknownModule(..) => 5,
        UnresolvableDependency(..) => 6,
        InvalidGate(..) => 7,
        InvalidSubmodule(..) => 8,
        UnknownGateInConnection(..) => 9,
        UnknownSubmoduleInConnection(..) => 10,
        ConnectionIndexOutOfBounds(..) => 11,
        UnequalPeers(..) => 12,
        InvalidTypStatement(..) => 13,
        GenericPassedAsTypArgument(..) => 14,
        AssignedTypDoesNotConformToInterface(..) => 15,
    }
}

// ---------------------------------------------------------------- grammar stream
fn ser_field64(out: &mut Vec<u64>, f: &FieldDef) {
    lp(out, &f.ident);
    match f.kardinality {
        Kardinality::Atom => out.push(0),
        Kardinality::Cluster(n) => {
            let n = n as u64;
            out.extend([1, n >> 32, n & 0xffff_ffff]);
        }
    }
}

fn err_class(msg: &str) -> u64 {
    if msg.starts_with("invalid typ clause: expected closing parenthesis") {
        1
    } else if msg.starts_with("invalid arg:") {
        2
    } else if msg.starts_with("invalid syntax: expected opening bracket") {
        3
    } else {
        4
    }
}

fn parse_stream<T>(s: &str, ser: impl Fn(&mut Vec<u64>, &T)) -> Vec<u64>
where
    T: FromStr + Display + PartialEq,
    T::Err: Display,
{
    let r = catch_unwind(AssertUnwindSafe(|| s.parse::<T>()));
    match r {
        Err(e) => vec![9, site(&e)],
        Ok(Err(msg)) => vec![2, err_class(&msg.to_string())],
        Ok(Ok(v)) => {
            let shown = match catch_unwind(AssertUnwindSafe(|| v.to_string())) {
                Ok(s) => s,
                Err(e) => return vec![9, site(&e)],
            };
            let mut out = vec![1];
            ser(&mut out, &v);
            lp(&mut out, &shown);
            let again = catch_unwind(AssertUnwindSafe(|| shown.parse::<T>()));
            out.push(match again {
                Ok(Ok(v2)) if v2 == v => 1,
                _ => 0,
            });
            out
        }
    }
}

fn run_grammar(which: u64, s: &str) -> Vec<u64> {
    match which % 5 {
        0 => parse_stream::<TypClause<String>>(s, |o, t| {
            lp(o, &t.ident);
            o.push(t.args.len() as u64);
            for a in &t.args {
                lp(o, a);
            }
        }),
        1 => parse_stream::<TypClause<ModuleGenericsDef>>(s, |o, t| {
            lp(o, &t.ident);
            o.push(t.args.len() as u64);
            for a in &t.args {
                lp(o, &a.binding);
                lp(o, &a.bound);
            }
        }),
        2 => parse_stream::<ModuleGenericsDef>(s, |o, g| {
            lp(o, &g.binding);
            lp(o, &g.bound);
        }),
        3 => parse_stream::<FieldDef>(s, ser_field64),
        _ => parse_stream::<ConnectionEndpointDef>(s, |o, e| {
            o.push(e.accessors.len() as u64);
            for f in &e.accessors {
                ser_field64(o, f);
            }
        }),
    }
}

// ---------------------------------------------------------------- document stream: YAML text
fn q(s: &str) -> String {
    let mut o = String::from("\"");
    for b in s.bytes() {
        match b {
            b'"' => o.push_str("\\\""),
            b'\\' => o.push_str("\\\\"),
            0x20..=0x7e => o.push(b as char),
            _ => o.push_str(&format!("\\x{b:02x}")),
        }
    }
    o.push('"');
    o
}

fn secs(us: u64) -> String {
    format!("{}.{:06}", us / 1_000_000, us % 1_000_000)
}

fn opt_str(c: &mut Cur) -> Option<String> {
    if c.next() % 2 == 1 {
        Some(take_str(c))
    } else {
        None
    }
}

fn yaml_of(c: &mut Cur) -> String {
    let mut y = String::new();
    y.push_str(&format!("entry: {}\n", q(&take_str(c))));
    let n = c.next();
    let k = n.min(c.left() as u64);
    if k == 0 {
        y.push_str("modules: {}\n");
    } else {
        y.push_str("modules:\n");
    }
    for _ in 0..k {
        let key = take_str(c);
        let inh = opt_str(c);
        let gates = counted(c, take_str);
        let subs = counted(c, |c| (take_str(c), take_str(c)));
        let conns = counted(c, |c| (take_str(c), take_str(c), opt_str(c)));
        if inh.is_none() && gates.is_empty() && subs.is_empty() && conns.is_empty() {
            y.push_str(&format!("  {}: {{}}\n", q(&key)));
            continue;
        }
        y.push_str(&format!("  {}:\n", q(&key)));
        if let Some(p) = inh {
            y.push_str(&format!("    inherit: {}\n", q(&p)));
        }
        if !gates.is_empty() {
            y.push_str("    gates:\n");
            for g in &gates {
                y.push_str(&format!("      - {}\n", q(g)));
            }
        }
        if !subs.is_empty() {
            y.push_str("    submodules:\n");
            for (f, t) in &subs {
                y.push_str(&format!("      {}: {}\n", q(f), q(t)));
            }
        }
        if !conns.is_empty() {
            y.push_str("    connections:\n");
            for (a, b, l) in &conns {
                y.push_str(&format!("      - peers: [{}, {}]\n", q(a), q(b)));
                if let Some(l) = l {
                    y.push_str(&format!("        link: {}\n", q(l)));
                }
            }
        }
    }
    let n = c.next();
    let k = n.min(c.left() as u64);
    if k > 0 {
        y.push_str("links:\n");
    }
    for _ in 0..k {
        let name = take_str(c);
        let (lat, jit, rate) = (c.next(), c.next(), c.next());
        y.push_str(&format!(
            "  {}:\n    latency: {}\n    jitter: {}\n    bitrate: {}\n",
            q(&name),
            secs(lat),
            secs(jit),
            rate
        ));
    }
    y
}

// ---------------------------------------------------------------- canonical tree
fn ser_field(out: &mut Vec<u64>, f: &FieldDef) {
    lp(out, &f.ident);
    out.push(match f.kardinality {
        Kardinality::Atom => 0,
        Kardinality::Cluster(n) => n as u64 + 1,
    });
}

fn ser_ep(out: &mut Vec<u64>, e: &tree::ConnectionEndpoint) {
    out.push(e.accessors.len() as u64);
    for a in &e.accessors {
        lp(out, &a.name);
        out.push(a.index.map_or(0, |i| i as u64 + 1));
    }
}

fn ns(secs: f64) -> u64 {
    Duration::from_secs_f64(secs).as_nanos() as u64
}

fn ser_node(out: &mut Vec<u64>, n: &Node) {
    lp(out, &n.typ);
    sorted_concat(
        out,
        n.gates
            .iter()
            .map(|g| {
                let mut v = Vec::new();
                ser_field(&mut v, g);
                v
            })
            .collect(),
    );
    sorted_concat(
        out,
        n.submodules
            .iter()
            .map(|s| {
                let mut v = Vec::new();
                ser_field(&mut v, &s.name);
                ser_node(&mut v, &s.typ);
                v
            })
            .collect(),
    );
    out.push(n.connections.len() as u64);
    for c in &n.connections {
        ser_ep(out, &c.peers[0]);
        ser_ep(out, &c.peers[1]);
        match &c.link {
            None => out.push(0),
            Some(l) => out.extend([1, ns(l.latency), ns(l.jitter), l.bitrate as u64]),
        }
    }
}

// ---------------------------------------------------------------- candidate error kinds
fn kind_of(r: &Result<Node, Error>) -> Option<u64> {
    r.as_ref().err().map(|e| kind_number(&e.kind))
}

/// All definitions reachable from `ident` through `ModuleDef::required_symbols`.
fn closure(def: &Def, ident: &str) -> Def {
    let mut need: BTreeSet<String> = BTreeSet::new();
    let mut todo = vec![ident.to_string()];
    while let Some(x) = todo.pop() {
        if !need.insert(x.clone()) {
            continue;
        }
        for (k, m) in &def.modules {
            if k.ident == x {
                todo.extend(m.required_symbols(k).into_iter().cloned());
            }
        }
    }
    let mut sub = Def { entry: ident.to_string(), modules: Default::default(), links: def.links.clone() };
    for (k, m) in &def.modules {
        if need.contains(&k.ident) {
            sub.modules.insert(k.clone(), m.clone());
        }
    }
    sub
}

/// The kinds of all errors that some iteration order of the hash maps can surface first:
/// for every definition whose dependencies elaborate, its own error; if that error is in a
/// submodule field, the error of every faulty field.  Each one is obtained from `transform`
/// itself, run on the part of the description that the definition depends on.
fn candidates(def: &Def) -> BTreeSet<u64> {
    let mut kinds = BTreeSet::new();
    for (key, m) in &def.modules {
        let sub = closure(def, &key.ident);
        let Err(e) = transform(&sub) else { continue };
        if e.span.module.as_deref() != Some(&key.ident) {
            continue;
        }
        if e.span.submodule.is_none() {
            kinds.insert(kind_number(&e.kind));
            continue;
        }
        for (f, t) in &m.submodules {
            let mut one = sub.clone();
            let mut mm = ModuleDef {
                inherit: m.inherit.clone(),
                gates: m.gates.clone(),
                submodules: Default::default(),
                connections: Vec::new(),
            };
            mm.submodules.insert(f.clone(), t.clone());
            one.modules.insert(key.clone(), mm);
            if let Err(e2) = transform(&one) {
                if e2.span.module.as_deref() == Some(&key.ident) && e2.span.submodule.is_some() {
                    kinds.insert(kind_number(&e2.kind));
                }
            }
        }
    }
    kinds
}

// ---------------------------------------------------------------- build
/// One distinguishable piece of software per registered type: `Triv<K>` is what the registry entry for
/// `NAMES[K]` produces, so the read-out shows WHICH registered factory built a node (not merely which symbol
/// the builder asked for).
const NAMES: [&str; 48] = [
    "M0", "M1", "M2", "M3", "M4", "M5", "M6", "M7", "M8", "M9", "M10", "M11", "M12", "M13", "M14", "M15", "M16", "M17",
    "M18", "M19", "M20", "M21", "M22", "M23", "M24", "M25", "M26", "M27", "M28", "M29", "M30", "M31", "T0", "T1", "T2",
    "T3", "T4", "T5", "T6", "T7", "m0", "m1", "m2", "m3", "m4", "m5", "m6", "m7",
];
struct Triv<const K: usize>;
impl<const K: usize> Module for Triv<K> {}
impl<const K: usize> RegistryCreatable for Triv<K> {
    fn create(_path: &ObjectPath, _symbol: &str) -> Self {
        Triv
    }
}

macro_rules! registry_of {
    ($($k:literal),*) => {
        Registry::new()$(.symbol::<Triv<$k>>(NAMES[$k]))*
    };
}
macro_rules! software_of {
    ($m:expr, $($k:literal),*) => {{
        let mut found: Option<&'static str> = None;
        $( if $m.try_as_ref::<Triv<$k>>().is_some() { found = Some(NAMES[$k]); } )*
        found
    }};
}

fn ident_like(s: &str) -> bool {
    !s.is_empty() && s.bytes().all(|b| b.is_ascii_alphanumeric() || b == b'_')
}

fn names_ok(n: &Node) -> bool {
    n.submodules.iter().all(|s| ident_like(&s.name.ident) && names_ok(&s.typ))
}

fn ser_path(out: &mut Vec<u64>, p: &str) {
    if p.is_empty() {
        out.push(0);
        return;
    }
    let segs: Vec<&str> = p.split('.').collect();
    out.push(segs.len() as u64);
    for s in segs {
        match s.split_once('[') {
            Some((name, idx)) => {
                lp(out, name);
                out.push(idx.trim_end_matches(']').parse::<u64>().map_or(0, |i| i + 1));
            }
            None => {
                lp(out, s);
                out.push(0);
            }
        }
    }
}

fn ser_gate_pos(out: &mut Vec<u64>, g: &GateRef) {
    ser_path(out, g.owner().path().as_str());
    lp(out, g.name());
    out.push(g.pos() as u64);
}

fn run_build(def: &Def) -> Vec<u64> {
    let r = catch_unwind(AssertUnwindSafe(|| {
        let mut sim = Sim::new(());
        let mut reg = registry_of!(
            0, 1, 2, 3, 4, 5, 6, 7, 8, 9, 10, 11, 12, 13, 14, 15, 16, 17, 18, 19, 20, 21, 22, 23, 24, 25, 26, 27, 28, 29, 30, 31,
            32, 33, 34, 35, 36, 37, 38, 39, 40, 41, 42, 43, 44, 45, 46, 47
        );
        if let Err(e) = sim.nodes_from_ndl(def, &mut reg) {
            return vec![2, kind_number(&e.kind)];
        }
        let mut out = vec![1];
        let mut mods = Vec::new();
        let mut edges = Vec::new();
        let paths: Vec<ObjectPath> = sim.nodes().collect();
        for p in &paths {
            let m = sim.globals().get(p).expect("listed node exists");
            let mut v = Vec::new();
            ser_path(&mut v, p.as_str());
            let software = software_of!(
                m, 0, 1, 2, 3, 4, 5, 6, 7, 8, 9, 10, 11, 12, 13, 14, 15, 16, 17, 18, 19, 20, 21, 22, 23, 24, 25, 26, 27, 28, 29, 30,
                31, 32, 33, 34, 35, 36, 37, 38, 39, 40, 41, 42, 43, 44, 45, 46, 47
            );
            lp(&mut v, software.unwrap_or("?"));
            let mut gs = Vec::new();
            for g in m.gates() {
                let mut gv = Vec::new();
                lp(&mut gv, g.name());
                gv.extend([g.size() as u64, g.pos() as u64]);
                gs.push(gv);
                // slot 0 and slot 1 of the gate's connections
                for endpoint_id in [1usize, 0] {
                    let probe = Connection { endpoint: g.clone(), endpoint_id, channel: None };
                    if let Some(con) = probe.next_hop() {
                        let mut ev = Vec::new();
                        ser_gate_pos(&mut ev, &g);
                        ser_gate_pos(&mut ev, &con.endpoint);
                        match con.channel {
                            None => ev.push(0),
                            Some(ch) => {
                                let mt = ch.metrics();
                                ev.extend([1, mt.latency.as_nanos() as u64, mt.jitter.as_nanos() as u64, mt.bitrate as u64]);
                            }
                        }
                        edges.push(ev);
                    }
                }
            }
            sorted_concat(&mut v, gs);
            mods.push(v);
        }
        sorted_concat(&mut out, mods);
        sorted_concat(&mut out, edges);
        out.push(1);
        out
    }));
    match r {
        Ok(v) => v,
        Err(e) => vec![9, site(&e)],
    }
}

fn run_doc(mode: u64, c: &mut Cur) -> Vec<u64> {
    let yaml = yaml_of(c);
    let def = match catch_unwind(AssertUnwindSafe(|| serde_yml::from_str::<Def>(&yaml))) {
        Err(e) => return vec![9, site(&e)],
        Ok(Err(_)) => return vec![2, 3],
        Ok(Ok(d)) => d,
    };
    let full = match catch_unwind(AssertUnwindSafe(|| transform(&def))) {
        Err(e) => return vec![9, site(&e)],
        Ok(r) => r,
    };
    match kind_of(&full) {
        None => {
            let net = full.expect("ok");
            let mut out = vec![1];
            ser_node(&mut out, &net);
            if mode % 2 == 1 {
                if names_ok(&net) {
                    out.push(5);
                    out.extend(run_build(&def));
                } else {
                    out.push(4);
                }
            }
            out
        }
        Some(6) => vec![2, 6],
        Some(k) => {
            let kinds = match catch_unwind(AssertUnwindSafe(|| candidates(&def))) {
                Err(e) => return vec![9, site(&e)],
                Ok(ks) => ks,
            };
            if kinds.is_empty() {
                return vec![2, k];
            }
            if !kinds.contains(&k) {
                return vec![667, k];
            }
            let mut out = vec![2];
            out.extend(kinds);
            out
        }
    }
}

fn run_line(nums: &[u64]) -> Vec<u64> {
    let mut c = Cur::new(nums);
    let stream = c.next();
    if stream == 0 {
        let which = c.next();
        let s: String = nums[c.i.min(nums.len())..].iter().map(|x| (x % 128) as u8 as char).collect();
        run_grammar(which, &s)
    } else {
        let mode = c.next();
        run_doc(mode, &mut c)
    }
}
