//! SimTime / Duration arithmetic (C02, time part): the script language of coq/Time/Model.v on the real type.
//!
//! script := op*     op = code s n [s2 n2]      operands are Duration::new(s, n mod 10^9)
//!   1 set   2 cur+D   3 cur+=D   4 cur-D   5 cur-=D   6 checked_add   7 checked_sub
//!   8 relate (cmp, ==, checked/saturating duration_since, duration_diff; the panicking duration_since and
//!     `cur - other` must panic exactly when checked_duration_since is None and agree with it otherwise)
//!   9 eq_approx(other, err)   10 clock (a runtime built with start_time(cur), then SimTime::now())
//!   11 k: cur := ZERO (k != 2) | MAX (k = 2)   (MIN is checked to equal ZERO)
//! output: the records of Time/Model.v `step`, durations as `secs nanos`
use des::prelude::*;
use implrun::Cur;
use std::panic::{catch_unwind, AssertUnwindSafe};

const NPS: u64 = 1_000_000_000;

fn pd(out: &mut Vec<u64>, d: Duration) {
    out.push(d.as_secs());
    out.push(d.subsec_nanos() as u64);
}

struct Nop;
impl Application for Nop {
    type EventSet = ();
    type Lifecycle = ();
}

fn run_line(nums: &[u64]) -> Vec<u64> {
    let mut c = Cur::new(nums);
    let mut out = Vec::new();
    let mut cur = SimTime::ZERO;
    while !c.done() {
        let code = c.next();
        let need = match code { 1..=8 => 2, 9 => 4, 10 => 0, 11 => 1, _ => usize::MAX };
        if need == usize::MAX || c.left() < need {
            break;
        }
        let mut operand = |c: &mut Cur| {
            let s = c.next();
            let n = c.next() % NPS;
            Duration::new(s, n as u32)
        };
        match code {
            1 => {
                cur = SimTime::from_duration(operand(&mut c));
                out.push(1);
                pd(&mut out, *cur);
            }
            2 | 3 | 4 | 5 => {
                let d = operand(&mut c);
                let r = catch_unwind(AssertUnwindSafe(|| match code {
                    2 => cur + d,
                    3 => { let mut x = cur; x += d; x }
                    4 => cur - d,
                    _ => { let mut x = cur; x -= d; x }
                }));
                out.push(code);
                match r {
                    Ok(t) => { cur = t; out.push(0); pd(&mut out, *cur); }
                    Err(_) => out.push(9),
                }
            }
            6 | 7 => {
                let d = operand(&mut c);
                let r = if code == 6 { cur.checked_add(d) } else { cur.checked_sub(d) };
                out.push(code);
                match r {
                    Some(t) => { out.push(1); pd(&mut out, *t); }
                    None => out.push(0),
                }
            }
            8 => {
                let other = SimTime::from_duration(operand(&mut c));
                out.push(8);
                out.push(match cur.cmp(&other) {
                    std::cmp::Ordering::Less => 0,
                    std::cmp::Ordering::Equal => 1,
                    std::cmp::Ordering::Greater => 2,
                });
                // the derived operators must tell the same story as cmp
                let consistent = (cur < other) == (cur.cmp(&other) == std::cmp::Ordering::Less)
                    && (cur > other) == (cur.cmp(&other) == std::cmp::Ordering::Greater)
                    && (cur <= other) == (cur.cmp(&other) != std::cmp::Ordering::Greater)
                    && (cur >= other) == (cur.cmp(&other) != std::cmp::Ordering::Less)
                    && cur.max(other) >= cur.min(other);
                out.push(if consistent { (cur == other) as u64 } else { 7 });
                let chk = cur.checked_duration_since(other);
                // panicking flavours: duration_since and Sub<SimTime>
                let p1 = catch_unwind(AssertUnwindSafe(|| cur.duration_since(other))).ok();
                let p2 = catch_unwind(AssertUnwindSafe(|| cur - other)).ok();
                if p1 != chk || p2 != chk {
                    out.push(7);
                }
                match chk {
                    Some(d) => { out.push(1); pd(&mut out, d); }
                    None => out.push(0),
                }
                pd(&mut out, cur.saturating_duration_since(other));
                pd(&mut out, cur.duration_diff(other));
            }
            9 => {
                let other = SimTime::from_duration(operand(&mut c));
                let err = operand(&mut c);
                out.push(9);
                out.push(cur.eq_approx(other, err) as u64);
            }
            10 => {
                out.push(10);
                let r = catch_unwind(AssertUnwindSafe(|| {
                    let rt = Builder::new().quiet().start_time(cur).build(Nop);
                    let t = SimTime::now();
                    // elapsed() of the start time itself is zero
                    let e = cur.elapsed();
                    drop(rt);
                    (t, e)
                }));
                match r {
                    Ok((t, e)) => {
                        out.push(if e == Duration::ZERO { 0 } else { 7 });
                        pd(&mut out, *t);
                    }
                    Err(_) => out.push(9),
                }
            }
            _ => {
                let k = c.next();
                cur = if k == 2 { SimTime::MAX } else if k == 1 { SimTime::MIN } else { SimTime::ZERO };
                out.push(11);
                pd(&mut out, *cur);
            }
        }
    }
    out
}

fn main() {
    implrun::run_main(run_line)
}
