//! Configuration capture (C17): which properties a module receives from a flat dotted-key
//! configuration, at two levels of the real code, and the typed-access state machine.
//!
//! Script: `inc_at op*` (strings are length-prefixed UTF-8 byte lists) with
//!   1 <key> val          configuration entry  "key": val
//!   12 <key> form n (<sub> val)*n   mapping-valued entry  "key": {"sub": val, ..}  (form even: flow, odd: block YAML)
//!   2 <path>             module with the dotted path `path`
//!   3 m <name> ty        typed read   prop::<T>(name)            on module m (mod #modules)
//!   4 m <name> ty val    typed write  prop::<T>(name)?.set(val)  on module m
//!   5 m <name>           raw read     prop_raw(name).as_value()  on module m
//!   7 at                 closes the current include and opens the next one: the entries (op 1) that follow belong to
//!                        a separate configuration, included once `at` modules exist (the first uses `inc_at`)
//!   8 m <name> ty        h = prop::<T>(name) on module m: a typed handle that is KEPT (handles are numbered in creation order)
//!   9 h val              handles[h].set(val)      (h mod #handles)
//!   10 h                 handles[h].get()
//!   11 m <name>          prop_raw(name).clear() on module m
//!   6 <key> val          late include: a further configuration  "key": val  is included when all nodes
//!                        exist, in script order between the typed accesses (3/4/5/6 run in order)
//! ty (mod 4): 0 u64, 1 i64, 2 String (decimal digits), 3 bool.
//! A script is rejected (`7`) unless every string consists of printable ASCII / two-byte
//! UTF-8 sequences (lead C3..DF), module paths have non-empty segments and are distinct.
//!
//! Output: `100 <cfg> <dump>* <typed>* <dump12>*  200 <dump>* <typed>* <dump12>*` (<dump12> = the final
//! state of every module's properties, like <dump> with tag 12; a slot that exists but holds nothing
//! is listed with value `6`) where 100 = des_net_utils::props
//! alone (YAML text -> from_str -> Cfg::new -> capture_for_into(path)), 200 = through des
//! (every include of the script issued through Sim::include_cfg at its point of the sim.node sequence - before
//! node i the pending includes scheduled for i, the rest after the last node; level 100 captures from the same
//! sequence of Cfgs in turn; <cfg> = `g f1 .. fg`, one flag per include; missing
//! ancestors are created on the fly).  <cfg> = 0 (YAML accepted) | 5 (rejected);
//! <dump> = `10 n (<name> <value>)*n` sorted by name; <value> = `0 v` number | `1 n (<key> <value>)*n`
//! mapping | `2 v` string of digits | `3 b` bool | `4` anything else | `6` absent;
//! typed read -> `3 0` absent | `3 1 v` | `3 2` InvalidInput (type mismatch) | `3 3` other error;
//! typed write -> `4 0` | `4 2` | `4 3`; raw read -> `5 <value>`; handle creation -> `8 0` | `8 2` | `8 3`; set through a
//! handle -> `13 0` | `13 7` (no such handle / its creation failed) | `9 4` (Prop::set panicked: the property holds another
//! type); get through a handle -> `14 0` absent | `14 1 v` | `14 7` | `9 5` (panicked: type changed); clear -> `15`;
//! any other panic -> `9 site`.
use des::prelude::*;
use des_net_utils::props::{Cfg, Prop, PropType, Props, RawProp};
use implrun::Cur;
use serde_yml::Value;
use std::io::ErrorKind;
use std::panic::{catch_unwind, AssertUnwindSafe};

fn main() {
    implrun::run_main(run_line)
}

struct Nop;
impl Module for Nop {}

enum Op {
    Read(u64, String, u64),
    Write(u64, String, u64, u64),
    Raw(u64, String),
    Include(String, u64),
    Handle(u64, String, u64),
    HSet(u64, u64),
    HGet(u64),
    Clear(u64, String),
}

/// a typed handle that outlives the lookup
enum H {
    U(Prop<u64>),
    I(Prop<i64>),
    S(Prop<String>),
    B(Prop<bool>),
}

fn new_handle<T: PropType>(
    o: &mut Vec<u64>,
    r: Result<Prop<T>, std::io::Error>,
    wrap: impl Fn(Prop<T>) -> H,
) -> Option<H> {
    match r {
        Ok(p) => {
            o.extend([8, 0]);
            Some(wrap(p))
        }
        Err(e) => {
            o.extend([8, err_code(&e)]);
            None
        }
    }
}

fn valid_text(b: &[u64]) -> bool {
    let mut i = 0;
    while i < b.len() {
        let x = b[i];
        if (0x20..=0x7e).contains(&x) {
            i += 1;
        } else if (0xc3..=0xdf).contains(&x) && i + 1 < b.len() && (0x80..=0xbf).contains(&b[i + 1]) {
            i += 2;
        } else {
            return false;
        }
    }
    true
}

fn to_string(b: &[u64]) -> String {
    String::from_utf8(b.iter().map(|x| *x as u8).collect()).expect("validated")
}

fn lp(out: &mut Vec<u64>, s: &str) {
    out.push(s.len() as u64);
    out.extend(s.bytes().map(u64::from));
}

/// an entry's value: a number, or a hand-nested one-level mapping (flow or block form)
#[derive(Clone)]
enum Val {
    Num(u64),
    Map(u64, Vec<(String, u64)>),
}

fn quoted(t: &mut String, k: &str) {
    t.push('"');
    for c in k.chars() {
        match c {
            '\\' => t.push_str("\\\\"),
            '"' => t.push_str("\\\""),
            c => t.push(c),
        }
    }
    t.push('"');
}

fn yaml_text(entries: &[(String, Val)]) -> String {
    let mut t = String::new();
    for (k, v) in entries {
        quoted(&mut t, k);
        match v {
            Val::Num(v) => {
                t.push_str(": ");
                t.push_str(&v.to_string());
                t.push('\n');
            }
            Val::Map(form, subs) if subs.is_empty() || form % 2 == 0 => {
                // flow form:  "k": {"a": 1, "b": 2}
                t.push_str(": {");
                for (i, (sk, sv)) in subs.iter().enumerate() {
                    if i > 0 {
                        t.push_str(", ");
                    }
                    quoted(&mut t, sk);
                    t.push_str(": ");
                    t.push_str(&sv.to_string());
                }
                t.push_str("}\n");
            }
            Val::Map(_, subs) => {
                // block form
                t.push_str(":\n");
                for (sk, sv) in subs {
                    t.push_str("  ");
                    quoted(&mut t, sk);
                    t.push_str(": ");
                    t.push_str(&sv.to_string());
                    t.push('\n');
                }
            }
        }
    }
    t
}

fn enc_value(out: &mut Vec<u64>, v: &Value) {
    match v {
        Value::Number(n) if n.as_u64().is_some() => out.extend([0, n.as_u64().unwrap()]),
        Value::Mapping(m) => {
            out.extend([1, m.len() as u64]);
            for (k, x) in m {
                match k.as_str() {
                    Some(k) => lp(out, k),
                    None => out.push(999),
                }
                enc_value(out, x);
            }
        }
        Value::String(s) if s.parse::<u64>().is_ok() => out.extend([2, s.parse::<u64>().unwrap()]),
        Value::Bool(b) => out.extend([3, *b as u64]),
        _ => out.push(4),
    }
}

fn enc_opt_value(out: &mut Vec<u64>, v: Option<Value>) {
    match v {
        Some(v) => enc_value(out, &v),
        None => out.push(6),
    }
}

fn dump(out: &mut Vec<u64>, tag: u64, mut keys: Vec<String>, mut raw: impl FnMut(&str) -> RawProp) {
    keys.sort();
    out.extend([tag, keys.len() as u64]);
    for k in keys {
        lp(out, &k);
        enc_opt_value(out, raw(&k).as_value());
    }
}

fn err_code(e: &std::io::Error) -> u64 {
    if e.kind() == ErrorKind::InvalidInput {
        2
    } else {
        3
    }
}

fn read_t<T: PropType + Clone>(
    out: &mut Vec<u64>,
    r: Result<Prop<T>, std::io::Error>,
    enc: impl Fn(&T) -> u64,
) {
    match r {
        Ok(p) => match p.get() {
            None => out.extend([3, 0]),
            Some(v) => out.extend([3, 1, enc(&v)]),
        },
        Err(e) => out.extend([3, err_code(&e)]),
    }
}

fn write_t<T: PropType>(out: &mut Vec<u64>, r: Result<Prop<T>, std::io::Error>, v: T) {
    match r {
        Ok(mut p) => {
            p.set(v);
            out.extend([4, 0]);
        }
        Err(e) => out.extend([4, err_code(&e)]),
    }
}

/// The typed operations, parameterised by how a module's properties are reached.
trait Access {
    fn typed<T: PropType>(&mut self, m: usize, name: &str) -> Result<Prop<T>, std::io::Error>;
    fn raw(&mut self, m: usize, name: &str) -> RawProp;
    fn include(&mut self, yaml: &str);
    fn keys(&mut self, m: usize) -> Vec<String>;
}

struct Direct(Vec<(Vec<String>, Props)>);
impl Access for Direct {
    fn typed<T: PropType>(&mut self, m: usize, name: &str) -> Result<Prop<T>, std::io::Error> {
        self.0[m].1.get::<T>(name)
    }
    fn raw(&mut self, m: usize, name: &str) -> RawProp {
        self.0[m].1.get_raw(name)
    }
    fn include(&mut self, yaml: &str) {
        if let Ok(v) = serde_yml::from_str::<Value>(yaml) {
            let cfg = Cfg::new(v);
            for (parts, props) in self.0.iter_mut() {
                let parts: Vec<&str> = parts.iter().map(String::as_str).collect();
                cfg.capture_for(&parts, props);
            }
        }
    }
    fn keys(&mut self, m: usize) -> Vec<String> {
        self.0[m].1.keys()
    }
}

struct Through(des::net::SimBuilder<()>, Vec<ModuleRef>);
impl Access for Through {
    fn typed<T: PropType>(&mut self, m: usize, name: &str) -> Result<Prop<T>, std::io::Error> {
        self.1[m].prop::<T>(name)
    }
    fn raw(&mut self, m: usize, name: &str) -> RawProp {
        self.1[m].prop_raw(name)
    }
    fn include(&mut self, yaml: &str) {
        self.0.include_cfg(yaml);
    }
    fn keys(&mut self, m: usize) -> Vec<String> {
        self.1[m].props_keys()
    }
}

fn run_ops(out: &mut Vec<u64>, acc: &mut impl Access, nmods: usize, ops: &[Op]) {
    if nmods == 0 {
        return;
    }
    let mut handles: Vec<Option<H>> = Vec::new();
    for op in ops {
        let r = catch_unwind(AssertUnwindSafe(|| {
            let mut o = Vec::new();
            match op {
                Op::Handle(m, name, ty) => {
                    let m = (*m % nmods as u64) as usize;
                    let h = match ty % 4 {
                        0 => new_handle::<u64>(&mut o, acc.typed(m, name), H::U),
                        1 => new_handle::<i64>(&mut o, acc.typed(m, name), H::I),
                        2 => new_handle::<String>(&mut o, acc.typed(m, name), H::S),
                        _ => new_handle::<bool>(&mut o, acc.typed(m, name), H::B),
                    };
                    handles.push(h);
                }
                Op::HSet(h, v) => {
                    let n = handles.len();
                    match if n == 0 { None } else { handles[(*h % n as u64) as usize].as_mut() } {
                        None => o.extend([13, 7]),
                        Some(H::U(p)) => {
                            p.set(*v);
                            o.extend([13, 0]);
                        }
                        Some(H::I(p)) => {
                            p.set(*v as i64);
                            o.extend([13, 0]);
                        }
                        Some(H::S(p)) => {
                            p.set(v.to_string());
                            o.extend([13, 0]);
                        }
                        Some(H::B(p)) => {
                            p.set(v % 2 == 1);
                            o.extend([13, 0]);
                        }
                    }
                }
                Op::HGet(h) => {
                    let n = handles.len();
                    let got = match if n == 0 { None } else { handles[(*h % n as u64) as usize].as_ref() } {
                        None => {
                            o.extend([14, 7]);
                            None
                        }
                        Some(H::U(p)) => Some(p.get()),
                        Some(H::I(p)) => Some(p.get().map(|x| x as u64)),
                        Some(H::S(p)) => Some(p.get().map(|x| x.parse::<u64>().unwrap_or(0))),
                        Some(H::B(p)) => Some(p.get().map(|x| x as u64)),
                    };
                    match got {
                        None => {}
                        Some(None) => o.extend([14, 0]),
                        Some(Some(v)) => o.extend([14, 1, v]),
                    }
                }
                Op::Clear(m, name) => {
                    let m = (*m % nmods as u64) as usize;
                    acc.raw(m, name).clear();
                    o.push(15);
                }
                Op::Read(m, name, ty) => {
                    let m = (*m % nmods as u64) as usize;
                    match ty % 4 {
                        0 => read_t::<u64>(&mut o, acc.typed(m, name), |v| *v),
                        1 => read_t::<i64>(&mut o, acc.typed(m, name), |v| *v as u64),
                        2 => read_t::<String>(&mut o, acc.typed(m, name), |v| v.parse::<u64>().unwrap_or(0)),
                        _ => read_t::<bool>(&mut o, acc.typed(m, name), |v| *v as u64),
                    }
                }
                Op::Write(m, name, ty, v) => {
                    let m = (*m % nmods as u64) as usize;
                    match ty % 4 {
                        0 => write_t::<u64>(&mut o, acc.typed(m, name), *v),
                        1 => write_t::<i64>(&mut o, acc.typed(m, name), *v as i64),
                        2 => write_t::<String>(&mut o, acc.typed(m, name), v.to_string()),
                        _ => write_t::<bool>(&mut o, acc.typed(m, name), v % 2 == 1),
                    }
                }
                Op::Raw(m, name) => {
                    let m = (*m % nmods as u64) as usize;
                    o.push(5);
                    enc_opt_value(&mut o, acc.raw(m, name).as_value());
                }
                Op::Include(k, v) => acc.include(&yaml_text(&[(k.clone(), Val::Num(*v))])),
            }
            o
        }));
        match r {
            Ok(o) => out.extend(o),
            Err(_) => out.extend([
                9,
                match op {
                    Op::HSet(..) => 4,
                    Op::HGet(..) => 5,
                    _ => 3,
                },
            ]),
        }
    }
    for m in 0..nmods {
        let keys = acc.keys(m);
        dump(out, 12, keys, |k| acc.raw(m, k));
    }
}

fn run_line(nums: &[u64]) -> Vec<u64> {
    let mut c = Cur::new(nums);
    if c.done() {
        return vec![7];
    }
    let inc_at = c.next();
    let mut groups: Vec<(u64, Vec<(String, Val)>)> = vec![(inc_at, Vec::new())];
    let mut paths: Vec<String> = Vec::new();
    let mut ops: Vec<Op> = Vec::new();
    let mut valid = true;
    let text = |c: &mut Cur, valid: &mut bool| -> String {
        let b = c.take_lp();
        if valid_text(&b) {
            to_string(&b)
        } else {
            *valid = false;
            String::new()
        }
    };
    while !c.done() {
        match c.peek() {
            Some(1) => {
                c.next();
                let k = text(&mut c, &mut valid);
                let v = c.next();
                groups.last_mut().unwrap().1.push((k, Val::Num(v)));
            }
            Some(12) => {
                c.next();
                let k = text(&mut c, &mut valid);
                let form = c.next();
                let n = c.next();
                let mut subs = Vec::new();
                for _ in 0..n {
                    if c.done() {
                        break;
                    }
                    let sk = text(&mut c, &mut valid);
                    let sv = c.next();
                    subs.push((sk, sv));
                }
                groups.last_mut().unwrap().1.push((k, Val::Map(form, subs)));
            }
            Some(2) => {
                c.next();
                let p = text(&mut c, &mut valid);
                if p.split('.').any(str::is_empty) || paths.contains(&p) {
                    valid = false;
                }
                paths.push(p);
            }
            Some(3) => {
                c.next();
                let m = c.next();
                let n = text(&mut c, &mut valid);
                let ty = c.next();
                ops.push(Op::Read(m, n, ty));
            }
            Some(4) => {
                c.next();
                let m = c.next();
                let n = text(&mut c, &mut valid);
                let ty = c.next();
                let v = c.next();
                ops.push(Op::Write(m, n, ty, v));
            }
            Some(5) => {
                c.next();
                let m = c.next();
                let n = text(&mut c, &mut valid);
                ops.push(Op::Raw(m, n));
            }
            Some(6) => {
                c.next();
                let k = text(&mut c, &mut valid);
                let v = c.next();
                ops.push(Op::Include(k, v));
            }
            Some(7) => {
                c.next();
                let at = c.next();
                groups.push((at, Vec::new()));
            }
            Some(8) => {
                c.next();
                let m = c.next();
                let n = text(&mut c, &mut valid);
                let ty = c.next();
                ops.push(Op::Handle(m, n, ty));
            }
            Some(9) => {
                c.next();
                let h = c.next();
                let v = c.next();
                ops.push(Op::HSet(h, v));
            }
            Some(10) => {
                c.next();
                let h = c.next();
                ops.push(Op::HGet(h));
            }
            Some(11) => {
                c.next();
                let m = c.next();
                let n = text(&mut c, &mut valid);
                ops.push(Op::Clear(m, n));
            }
            _ => break,
        }
    }
    if !valid {
        return vec![7];
    }
    let n = paths.len();
    let yamls: Vec<(usize, String)> = groups
        .iter()
        .map(|(at, es)| ((*at).min(n as u64) as usize, yaml_text(es)))
        .collect();
    // the order in which the includes are issued: before node i those scheduled for i, the rest at the end
    let mut order: Vec<usize> = Vec::new();
    for i in 0..n {
        order.extend((0..yamls.len()).filter(|g| yamls[*g].0 == i));
    }
    order.extend((0..yamls.len()).filter(|g| yamls[*g].0 >= n));
    let mut out = Vec::new();

    // ---- level (i): des_net_utils::props alone
    out.push(100);
    let r = catch_unwind(AssertUnwindSafe(|| {
        let mut o = Vec::new();
        let mut all = Vec::new();
        o.push(yamls.len() as u64);
        let parsed: Vec<Option<Cfg>> = yamls
            .iter()
            .map(|(_, y)| serde_yml::from_str::<Value>(y).ok().map(Cfg::new))
            .collect();
        for c in &parsed {
            o.push(if c.is_some() { 0 } else { 5 });
        }
        for p in &paths {
            let parts: Vec<&str> = p.split('.').collect();
            let mut props = Props::default();
            for g in &order {
                if let Some(cfg) = &parsed[*g] {
                    cfg.capture_for(&parts, &mut props);
                }
            }
            let keys = props.keys();
            dump(&mut o, 10, keys, |k| props.get_raw(k));
            all.push((parts.iter().map(|s| s.to_string()).collect(), props));
        }
        (o, all)
    }));
    match r {
        Ok((o, all)) => {
            out.extend(o);
            let mut acc = Direct(all);
            run_ops(&mut out, &mut acc, paths.len(), &ops);
        }
        Err(_) => out.extend([9, 1]),
    }

    // ---- level (ii): through des (Sim::include_cfg / Sim::node / ModuleContext)
    out.push(200);
    let r = catch_unwind(AssertUnwindSafe(|| {
        let mut sim = Sim::new(());
        for (i, p) in paths.iter().enumerate() {
            for (at, y) in &yamls {
                if *at == i {
                    sim.include_cfg(y);
                }
            }
            // ancestors first
            let parts: Vec<&str> = p.split('.').collect();
            for d in 1..=parts.len() {
                let q = parts[..d].join(".");
                if sim.get(&ObjectPath::from(q.as_str())).is_none() {
                    sim.node(q.as_str(), Nop);
                }
            }
        }
        for (at, y) in &yamls {
            if *at >= n {
                sim.include_cfg(y);
            }
        }
        let mut o = Vec::new();
        let mut refs = Vec::new();
        for p in &paths {
            let m = sim.get(&ObjectPath::from(p.as_str())).expect("created above");
            dump(&mut o, 10, m.props_keys(), |k| m.prop_raw(k));
            refs.push(m);
        }
        let mut acc = Through(sim, refs);
        run_ops(&mut o, &mut acc, paths.len(), &ops);
        o
    }));
    match r {
        Ok(o) => out.extend(o),
        Err(_) => out.extend([9, 2]),
    }
    out
}
