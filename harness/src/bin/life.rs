//! Module life cycle (C09 shutdown / restart, C13 panics): scripted modules and tokio tasks
//! driven through the real `des` runtime.  k modules "m0".."m{k-1}" (2 <= k <= 4) on a ring:
//! gate "out" of m_i is connected to gate "in" of m_{i+1}; gate "far" of m_i to the transit
//! gate "via" of m_{i+1}, which is connected to gate "fin" of m_{i+2} (indices mod k, no channels).
//!
//! script := k  mod{k'}  inj*                     k' = 2 + k mod 3 modules; (k/3)%5 = v in 1..k': also run variant v-1
//! mod    := catch stages bud  progs progs progs  lp(end)     catch odd: Stereotyp.on_panic_catch; 1 + stages mod 3 stages;
//!                                                bit 1+id of catch: task id is handed to current().join() instead of try_join();
//!                                                bits 4..7 of catch: the other four Stereotyp flags (on_panic_drop, on_panic_restart,
//!                                                on_panic_drop_submodules, on_panic_inform_parent) -- set, never read by des;
//!                                                bit 8 of catch: Module::reset calls schedule_in (bit 9 clear) / send_in (bit 9 set) right
//!                                                after it has logged the reset: buf_process holds the event buffer's lock while it
//!                                                runs reset, so the library panics ("Could not lock mutex on single thread")
//! progs  := n lp(prog){n}                        start programs (by incarnation), message programs (by payload), tasks
//! prog   := (op a b c)*                          op%20: 0 log c | 1 send_in(gate a odd ? "far" : "out", b ns, payload c)
//!                                                | 2 schedule_in(b ns, payload c) | 3 sleep b ns (tasks) | 4 shutdown()
//!                                                | 5 shutdow_and_restart_in(b ns) | 6 panic!() | 7 quiet (callbacks)
//!                                                | 8 / 9 set_stereotyp(on_panic_catch = true / false, the other four flags = a%16)
//!                                                | 10 schedule_at(now - (1 + b) ns, payload c): the library call panics ("less than the
//!                                                  current simulation time")  | 11 send_at(gate a, now - (1 + b) ns, payload c): same
//!                                                | 12 current().shutdow_and_restart_at(now - (1 + b) ns): same (since 09c7b16)
//!                                                  -- panics raised by the API on behalf of the module; at now = 0 (where no past
//!                                                  exists) the script panics itself instead
//!                                                | 13 log the property "p" of module a%k, read through its ModuleRef (every module's
//!                                                  "p" is 100 + its index, set before the run and never changed)
//!                                                | 14 panic INSIDE a closure given to Prop::update (a even) / Prop::map (a odd) of the own
//!                                                  property "p", i.e. while the property's lock is held (index out of bounds, before
//!                                                  anything is written)
//!                                                | 15 access the own property "p" again from inside a Prop::update closure: the library's
//!                                                  own panic "Could not lock mutex on single thread"
//!                                                | 16..19 send(payload c, "pr") with zero delay: gate "pr" of m_i leads to gate "pin" of
//!                                                  m_{i+1} through a channel whose ChannelProbe panics on every message -- user code
//!                                                  run by the library under the event buffer's lock (a module that is down panics by
//!                                                  itself instead: its message would be dropped at its own gate)       (op%20)
//! inj    := kind m time payload                  kind%3: 0 handle_message_on(m) | 1 add_message_onto(m.out) | 2 ..(m.far)
//!
//! Output: 5 numbers per record
//!   1 m stage now act   at_sim_start        2 m payload now act  handle_message     3 m id now act+2*inc  first poll of task id
//!   4 m id now act+2*inc task id resumed after sleep          5 m 0 now act      at_sim_end
//!   6 m now inc 0       reset (inc = resets so far)               7 m who x 0        log x (who 0 = callback, 1+id = task)
//!   8 m 2*who+far d x   send_in             9 m who d x           schedule_in        10 m who 0|1 d  shutdown / restart_in d
//!   11 m who c 0        about to panic (c = on_panic_catch now)   19 m who b 0  set_stereotyp(on_panic_catch = b)
//!   12 m 0 0 0 quiet      13 m id 0 0        future of task id dropped unfinished
//!   14 now mask 0 0     after the start-up phase and after each dispatched event: is_active of all modules (bit i = module i)
//!   15 kind m code 0    entry of the error returned by the run (kind 0 PanicError, 1 JoinError), in order;
//!                       code 0 PanicError | 1 JoinError Paniced | 2 JoinError NotFinished | 3 JoinError Tokio (cancelled)
//!   20 m id inc how     task id of incarnation inc ended: how 0 ran to completion | 1 panics now | 2 future dropped unfinished
//!   21 m id inc must    task id of incarnation inc spawned and handed to try_join (must 0) / join (must 1)
//!   22 m 0 0 0          Module::reset of m is about to call schedule_in / send_in (the library panics)
//!   17 0 0 0 0          separator: the whole simulation is then run a second time in the same process
//!   18 m 0 0 0          separator: then the variant in which module m falls silent instead of panicking (k/3%5 = m+1)
use des::net::module::Stereotyp;
use des::net::{JoinError, PanicError};
use des::prelude::*;
use implrun::Cur;
use std::cell::Cell;
use std::sync::atomic::{AtomicBool, AtomicU64, Ordering::SeqCst};
use std::sync::Mutex;

static LOG: Mutex<Vec<u64>> = Mutex::new(Vec::new());
static LOGGING: AtomicBool = AtomicBool::new(false);
static BUD: [AtomicU64; 4] = [AtomicU64::new(0), AtomicU64::new(0), AtomicU64::new(0), AtomicU64::new(0)];
/// a shutdown request of the module is pending (set by the script, cleared by Module::reset)
static REQ: [AtomicBool; 4] = [AtomicBool::new(false), AtomicBool::new(false), AtomicBool::new(false), AtomicBool::new(false)];
/// the module's callback ended with `quiet`: its tasks end without acting when polled (cleared by Module::reset)
static SILENT: [AtomicBool; 4] = [AtomicBool::new(false), AtomicBool::new(false), AtomicBool::new(false), AtomicBool::new(false)];

fn main() {
    implrun::run_main(run_line)
}

fn now() -> u64 {
    SimTime::now().as_nanos() as u64
}

fn log(r: [u64; 5]) {
    if LOGGING.load(SeqCst) {
        LOG.lock().unwrap().extend(r);
    }
}

fn act() -> u64 {
    current().me().is_active() as u64
}

#[derive(Clone, Copy)]
enum Act {
    Log(u64),
    Send(bool, u64, u64),
    Sched(u64, u64),
    Sleep(u64),
    Shutdown,
    RestartIn(u64),
    Panic,
    Quiet,
    SetCatch(bool, u64),
    /// log the property of another (or the own) module
    PropRead(u64),
    /// panic inside a Prop::update (false) / Prop::map (true) closure
    PropPanic(bool),
    /// re-entrant property access inside a Prop::update closure
    PropReenter,
    /// zero-delay send through the channel with the panicking probe
    ProbeSend(u64),
    /// schedule_at(now - (1 + d)) -- the library panics
    SchedPast(u64, u64),
    /// send_at(gate, now - (1 + d)) -- the library panics
    SendPast(bool, u64, u64),
    /// current().shutdow_and_restart_at(now - (1 + d)) -- the library panics
    RestartPast(u64),
}

type Prog = Vec<Act>;

#[derive(Clone)]
struct ModCfg {
    catch: bool,
    flags: u64,
    /// Module::reset calls schedule_in (1) / send_in (2); 0: it does not
    rsend: u64,
    join: u64,
    stages: u64,
    bud: u64,
    start: Vec<Prog>,
    msg: Vec<Prog>,
    tasks: Vec<Prog>,
    end: Prog,
}

fn quads(v: &[u64]) -> Prog {
    v.chunks_exact(4)
        .map(|c| match c[0] % 20 {
            0 => Act::Log(c[3]),
            1 => Act::Send(c[1] % 2 == 1, c[2], c[3]),
            2 => Act::Sched(c[2], c[3]),
            3 => Act::Sleep(c[2]),
            4 => Act::Shutdown,
            5 => Act::RestartIn(c[2]),
            6 => Act::Panic,
            7 => Act::Quiet,
            8 => Act::SetCatch(true, c[1] % 16),
            9 => Act::SetCatch(false, c[1] % 16),
            10 => Act::SchedPast(c[2], c[3]),
            11 => Act::SendPast(c[1] % 2 == 1, c[2], c[3]),
            12 => Act::RestartPast(c[2]),
            13 => Act::PropRead(c[1]),
            14 => Act::PropPanic(c[1] % 2 == 1),
            15 => Act::PropReenter,
            _ => Act::ProbeSend(c[3]),
        })
        .collect()
}

fn blobs(c: &mut Cur) -> Vec<Prog> {
    let n = c.next();
    let mut out = Vec::new();
    for _ in 0..n {
        if c.done() {
            break;
        }
        out.push(quads(&c.take_lp()));
    }
    out
}

fn dec_mod(c: &mut Cur) -> ModCfg {
    let hdr = c.next();
    let catch = hdr % 2 == 1;
    let flags = (hdr / 16) % 16;
    let rsend = if (hdr >> 8) & 1 == 1 { 1 + ((hdr >> 9) & 1) } else { 0 };
    let join = (hdr / 2) % 8;
    let stages = 1 + c.next() % 3;
    let bud = c.next();
    let start = blobs(c);
    let msg = blobs(c);
    let tasks = blobs(c);
    let end = quads(&c.take_lp());
    ModCfg { catch, flags, rsend, join, stages, bud, start, msg, tasks, end }
}

/// Send / schedule / shutdown requests draw on the module's budget.  Returns false when the
/// program must stop (it does so by panicking or by `quiet`, not through this value).
fn simple(m: u64, who: u64, a: Act) {
    let spend = || {
        if BUD[m as usize].load(SeqCst) == 0 {
            false
        } else {
            BUD[m as usize].fetch_sub(1, SeqCst);
            true
        }
    };
    match a {
        Act::Log(x) => log([7, m, who, x, 0]),
        Act::Send(far, d, x) => {
            if spend() {
                log([8, m, 2 * who + far as u64, d, x]);
                send_in(Message::default().with_content(x), if far { "far" } else { "out" }, Duration::from_nanos(d));
            }
        }
        Act::Sched(d, x) => {
            if spend() {
                log([9, m, who, d, x]);
                schedule_in(Message::default().with_content(x), Duration::from_nanos(d));
            }
        }
        Act::Shutdown => {
            if spend() {
                log([10, m, who, 0, 0]);
                REQ[m as usize].store(true, SeqCst);
                current().shutdown();
            }
        }
        Act::RestartIn(d) => {
            if spend() {
                log([10, m, who, 1, d]);
                REQ[m as usize].store(true, SeqCst);
                current().shutdow_and_restart_in(Duration::from_nanos(d));
            }
        }
        Act::SetCatch(b, f) => {
            log([19, m, who, b as u64, 0]);
            current().set_stereotyp(stereotyp(b, f));
        }
        Act::PropRead(j) => {
            let v = REFS.with(|r| {
                let r = r.borrow();
                let j = j as usize % r.len();
                r[j].prop::<u64>("p").expect("prop").or_default().get()
            });
            log([7, m, who, v, 0]);
        }
        Act::Sleep(_)
        | Act::Panic
        | Act::Quiet
        | Act::SchedPast(..)
        | Act::SendPast(..)
        | Act::RestartPast(..)
        | Act::PropPanic(..)
        | Act::PropReenter
        | Act::ProbeSend(..) => {}
    }
}

/// all five public flags of a Stereotyp: on_panic_catch and, from the bits of f, the four that des never reads
fn stereotyp(catch: bool, f: u64) -> Stereotyp {
    Stereotyp {
        on_panic_catch: catch,
        on_panic_drop: f & 1 != 0,
        on_panic_restart: f & 2 != 0,
        on_panic_drop_submodules: f & 4 != 0,
        on_panic_inform_parent: f & 8 != 0,
    }
}

thread_local! {
    /// the modules of the running simulation, for property reads across modules
    static REFS: std::cell::RefCell<Vec<ModuleRef>> = const { std::cell::RefCell::new(Vec::new()) };
}

/// A call of the public API with a time stamp in the past: the library is expected to panic inside the call, i.e. inside
/// the callback / task that makes it.  At now = 0 there is no past; the script panics itself to keep the action a panic.
/// If the library does NOT panic the call returns and the program simply goes on.
fn past_call(a: Act) {
    let t = now();
    if t == 0 {
        panic!("scripted panic (no past at t = 0)");
    }
    match a {
        Act::SchedPast(d, x) => {
            let at = SimTime::from_duration(Duration::from_nanos(t - (1 + d).min(t)));
            schedule_at(Message::default().with_content(x), at);
        }
        Act::SendPast(far, d, x) => {
            let at = SimTime::from_duration(Duration::from_nanos(t - (1 + d).min(t)));
            send_at(Message::default().with_content(x), if far { "far" } else { "out" }, at);
        }
        Act::RestartPast(d) => {
            let at = SimTime::from_duration(Duration::from_nanos(t - (1 + d).min(t)));
            current().shutdow_and_restart_at(at);
        }
        _ => {}
    }
}

/// A panic that begins while the lock of the module's own property "p" is held: user code panicking inside a closure run
/// by the library under the lock, or the library's own panic on a second lock attempt.  Nothing is written before the panic.
/// If nothing panics the program simply goes on.
fn locked_panic(a: Act) {
    let mut p = current().prop::<u64>("p").expect("prop").or_default();
    let empty: Vec<u64> = Vec::new();
    match a {
        Act::PropPanic(false) => {
            p.update(|v| *v = empty[3]);
        }
        Act::PropPanic(true) => {
            let _ = p.map(|_| empty[3]);
        }
        Act::PropReenter => {
            p.update(|v| *v = current().prop::<u64>("p").expect("prop").or_default().get());
        }
        Act::ProbeSend(x) => {
            if act() == 0 {
                // an inactive module's message is dropped at its own gate and never reaches the channel (at_sim_end of a
                // module that is down): the script panics itself to keep the action a panic
                panic!("scripted panic (module inactive)");
            }
            send(Message::default().with_content(x), "pr");
        }
        _ => {}
    }
}

/// a channel probe that panics on every message it sees
struct PanickingProbe;
impl des::net::channel::ChannelProbe for PanickingProbe {
    fn on_message_transmit(&mut self, _: &des::net::channel::ChannelMetrics, _: &Message) {
        panic!("scripted probe panic");
    }
}

/// Stereotyp.on_panic_catch of the running module, as the public getter reports it right now
fn catching() -> u64 {
    current().stereotyp().on_panic_catch as u64
}

/// a callback of the module: sleeps are ignored, `quiet` requests shutdown() unless a request
/// is pending and returns, `panic` panics
fn run_callback(m: u64, p: &[Act]) {
    for &a in p {
        match a {
            Act::Panic => {
                log([11, m, 0, catching(), 0]);
                panic!("scripted panic");
            }
            Act::SchedPast(..) | Act::SendPast(..) | Act::RestartPast(..) => {
                log([11, m, 0, catching(), 0]);
                past_call(a);
            }
            Act::PropPanic(..) | Act::PropReenter | Act::ProbeSend(..) => {
                log([11, m, 0, catching(), 0]);
                locked_panic(a);
            }
            Act::Quiet => {
                log([12, m, 0, 0, 0]);
                SILENT[m as usize].store(true, SeqCst);
                if !REQ[m as usize].load(SeqCst) {
                    REQ[m as usize].store(true, SeqCst);
                    current().shutdown();
                }
                return;
            }
            a => simple(m, 0, a),
        }
    }
}

/// reports a task whose future is dropped before it ran to completion
struct Guard {
    m: u64,
    id: u64,
    inc: u64,
    done: Cell<bool>,
}

impl Drop for Guard {
    fn drop(&mut self) {
        if !self.done.get() && !std::thread::panicking() {
            log([13, self.m, self.id, 0, 0]);
            log([20, self.m, self.id, self.inc, 2]);
        }
    }
}

async fn run_task(m: u64, id: u64, inc: u64, p: Prog, guard: Guard) {
    if SILENT[m as usize].load(SeqCst) {
        guard.done.set(true);
        log([20, m, id, inc, 0]);
        return;
    }
    log([3, m, id, now(), act() + 2 * inc]);
    for a in p {
        match a {
            Act::Sleep(d) => {
                if d > 0 {
                    des::time::sleep(Duration::from_nanos(d)).await;
                    if SILENT[m as usize].load(SeqCst) {
                        guard.done.set(true);
                        log([20, m, id, inc, 0]);
                        return;
                    }
                    log([4, m, id, now(), act() + 2 * inc]);
                }
            }
            Act::Panic => {
                log([11, m, 1 + id, catching(), 0]);
                log([20, m, id, inc, 1]);
                guard.done.set(true);
                panic!("scripted task panic");
            }
            Act::SchedPast(..) | Act::SendPast(..) | Act::RestartPast(..) => {
                log([11, m, 1 + id, catching(), 0]);
                log([20, m, id, inc, 1]);
                guard.done.set(true);
                past_call(a);
            }
            Act::PropPanic(..) | Act::PropReenter | Act::ProbeSend(..) => {
                log([11, m, 1 + id, catching(), 0]);
                log([20, m, id, inc, 1]);
                guard.done.set(true);
                locked_panic(a);
            }
            Act::Quiet => {}
            a => simple(m, 1 + id, a),
        }
    }
    guard.done.set(true);
    log([20, m, id, inc, 0]);
}

struct ScriptModule {
    m: u64,
    inc: u64,
    cfg: ModCfg,
}

impl Module for ScriptModule {
    fn num_sim_start_stages(&self) -> usize {
        self.cfg.stages as usize
    }

    fn at_sim_start(&mut self, stage: usize) {
        log([1, self.m, stage as u64, now(), act()]);
        if stage == 0 {
            for (id, p) in self.cfg.tasks.iter().enumerate() {
                let guard = Guard { m: self.m, id: id as u64, inc: self.inc, done: Cell::new(false) };
                let h = tokio::spawn(run_task(self.m, id as u64, self.inc, p.clone(), guard));
                let must = (self.cfg.join >> id) & 1;
                log([21, self.m, id as u64, self.inc, must]);
                if must == 1 {
                    current().join(h);
                } else {
                    current().try_join(h);
                }
            }
            if !self.cfg.start.is_empty() {
                let i = (self.inc as usize).min(self.cfg.start.len() - 1);
                run_callback(self.m, &self.cfg.start[i]);
            }
        }
    }

    fn handle_message(&mut self, msg: Message) {
        let x = *msg.content::<u64>();
        log([2, self.m, x, now(), act()]);
        if !self.cfg.msg.is_empty() {
            let i = (x % self.cfg.msg.len() as u64) as usize;
            run_callback(self.m, &self.cfg.msg[i]);
        }
    }

    fn at_sim_end(&mut self) -> Result<(), RuntimeError> {
        log([5, self.m, 0, now(), act()]);
        run_callback(self.m, &self.cfg.end);
        Ok(())
    }

    fn reset(&mut self) {
        self.inc += 1;
        REQ[self.m as usize].store(false, SeqCst);
        SILENT[self.m as usize].store(false, SeqCst);
        log([6, self.m, now(), self.inc, 0]);
        if self.cfg.rsend != 0 {
            // user code in Module::reset using the messaging API: buf_process holds the event buffer's lock right now
            log([22, self.m, 0, 0, 0]);
            if self.cfg.rsend == 1 {
                schedule_in(Message::default().with_content(0u64), Duration::from_nanos(1));
            } else {
                send_in(Message::default().with_content(0u64), "out", Duration::from_nanos(1));
            }
        }
    }
}

fn simulate(mods: &[ModCfg], inj: &[(u64, u64, u64, u64)]) -> Vec<u64> {
    let k = mods.len();
    LOG.lock().unwrap().clear();
    for m in 0..4 {
        BUD[m].store(if m < k { mods[m].bud } else { 0 }, SeqCst);
        REQ[m].store(false, SeqCst);
        SILENT[m].store(false, SeqCst);
    }
    LOGGING.store(true, SeqCst);

    let names: Vec<String> = (0..k).map(|m| format!("m{m}")).collect();
    let mut sim = Sim::new(());
    for m in 0..k {
        sim.node(names[m].as_str(), ScriptModule { m: m as u64, inc: 0, cfg: mods[m].clone() });
    }
    let mut outs = Vec::new();
    let mut fars = Vec::new();
    let mut ins = Vec::new();
    let mut vias = Vec::new();
    let mut fins = Vec::new();
    for m in 0..k {
        outs.push(sim.gate(names[m].as_str(), "out"));
        ins.push(sim.gate(names[m].as_str(), "in"));
        fars.push(sim.gate(names[m].as_str(), "far"));
        vias.push(sim.gate(names[m].as_str(), "via"));
        fins.push(sim.gate(names[m].as_str(), "fin"));
    }
    for m in 0..k {
        outs[m].clone().connect(ins[(m + 1) % k].clone(), None);
    }
    for m in 0..k {
        fars[m].clone().connect(vias[(m + 1) % k].clone(), None);
    }
    for m in 0..k {
        vias[(m + 1) % k].clone().connect(fins[(m + 2) % k].clone(), None);
    }
    // gate "pr" of m_i -> gate "pin" of m_{i+1} through a channel whose probe panics on every message
    for m in 0..k {
        let pr = sim.gate(names[m].as_str(), "pr");
        let pin = sim.gate(names[(m + 1) % k].as_str(), "pin");
        let ch = des::net::channel::Channel::new(des::net::channel::ChannelMetrics::new(
            1_000_000,
            Duration::from_nanos(1),
            Duration::ZERO,
            des::net::channel::ChannelDropBehaviour::Drop,
        ));
        pr.clone().connect(pin, Some(ch));
        pr.channel().expect("channel").attach_probe(PanickingProbe);
    }
    let refs: Vec<ModuleRef> = (0..k)
        .map(|m| sim.get(&ObjectPath::from(names[m].as_str())).expect("module"))
        .collect();
    for m in 0..k {
        refs[m].set_stereotyp(stereotyp(mods[m].catch, mods[m].flags));
        refs[m].prop::<u64>("p").expect("prop").set(100 + m as u64);
    }
    REFS.with(|r| *r.borrow_mut() = refs.clone());

    let mut rt = Builder::seeded(1).quiet().build(sim.freeze());
    for &(kind, m, t, x) in inj {
        let msg = Message::default().with_content(x);
        let time = SimTime::from_duration(Duration::from_nanos(t));
        match kind {
            0 => rt.handle_message_on(refs[m as usize].clone(), msg, time),
            1 => rt.add_message_onto(outs[m as usize].clone(), msg, time),
            _ => rt.add_message_onto(fars[m as usize].clone(), msg, time),
        }
    }
    let sample = |rt: &Runtime<Sim<()>>| {
        let mut mask = 0u64;
        for m in 0..k {
            if refs[m].is_active() {
                mask |= 1 << m;
            }
        }
        log([14, rt.sim_time().as_nanos() as u64, mask, 0, 0]);
    };
    rt.start();
    sample(&rt);
    while rt.num_events_remaining() > 0 {
        rt.dispatch_n_events(1);
        sample(&rt);
    }
    let res = rt.finish();
    LOGGING.store(false, SeqCst);
    let mut out = LOG.lock().unwrap().clone();
    // futures dropped with one tokio runtime are reported in id order
    let mut recs: Vec<[u64; 5]> = out.chunks_exact(5).map(|c| [c[0], c[1], c[2], c[3], c[4]]).collect();
    let mut i = 0;
    while i < recs.len() {
        let dropped = |r: &[u64; 5]| r[0] == 13 || (r[0] == 20 && r[4] == 2);
        if dropped(&recs[i]) {
            let mut j = i;
            while j < recs.len() && dropped(&recs[j]) {
                j += 1;
            }
            recs[i..j].sort();
            i = j;
        } else {
            i += 1;
        }
    }
    out = recs.iter().flatten().copied().collect();
    if let Err(e) = res {
        for err in e.iter() {
            let (kind, code, path) = if let Some(p) = err.as_any().downcast_ref::<PanicError>() {
                (0, 0, p.path.as_str().to_string())
            } else if let Some(j) = err.as_any().downcast_ref::<JoinError>() {
                let k = format!("{:?}", j.kind);
                let code = if k.starts_with("Paniced") {
                    1
                } else if k.starts_with("NotFinished") {
                    2
                } else if k.starts_with("Tokio") {
                    3
                } else {
                    9
                };
                (1, code, j.path.as_str().to_string())
            } else {
                (2, 9, String::new())
            };
            let m = names.iter().position(|n| *n == path).map(|p| p as u64).unwrap_or(99);
            out.extend([15, kind, m, code, 0]);
        }
    }
    REFS.with(|r| r.borrow_mut().clear());
    drop(refs);
    out
}

fn quiet_prog(p: &mut Prog) {
    for a in p.iter_mut() {
        if matches!(a, Act::Panic | Act::SchedPast(..) | Act::SendPast(..) | Act::RestartPast(..) | Act::PropPanic(..) | Act::PropReenter | Act::ProbeSend(..)) {
            *a = Act::Quiet;
        }
    }
}

fn run_line(nums: &[u64]) -> Vec<u64> {
    let mut c = Cur::new(nums);
    let k0 = c.next();
    let k = (2 + k0 % 3) as usize;
    let v = (k0 / 3) % 5;
    let mods: Vec<ModCfg> = (0..k).map(|_| dec_mod(&mut c)).collect();
    let mut inj = Vec::new();
    while c.left() >= 4 {
        let (kd, m, t, x) = (c.next(), c.next(), c.next(), c.next());
        inj.push((kd % 3, m % k as u64, t, x));
    }
    let mut out = simulate(&mods, &inj);
    out.extend([17, 0, 0, 0, 0]);
    out.extend(simulate(&mods, &inj));
    if v >= 1 && v as usize <= k {
        // the variant in which module v-1 falls silent where its callbacks would have panicked
        let m = (v - 1) as usize;
        let mut mods2 = mods.clone();
        mods2[m].start.iter_mut().for_each(quiet_prog);
        mods2[m].msg.iter_mut().for_each(quiet_prog);
        quiet_prog(&mut mods2[m].end);
        out.extend([18, m as u64, 0, 0, 0]);
        out.extend(simulate(&mods2, &inj));
    }
    out
}
