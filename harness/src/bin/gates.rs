//! Gate chains (C08): drives des::net::{Gate, Sim, send_at, Channel} through the public API.
//!
//! script: `nmod L (owner size){L/2} op*` with
//!   op = 1 a b l   a.connect(b, channel) ; l = 0 no channel, else latency l-1 ns (bitrate 0, jitter 0)
//!      | 9 a b l br  as 1 with bitrate br bit/s (0 if 576e9/br is not a whole number of ns)
//!      | 2 g kind | 3 g next_gate | 4 g path_end | 5 g path_iter
//!      | 6 g t d   at time t the owner of gate g calls send_at(msg, g, t+d)
//!      | 7 g g' d  forwarding rule: the module that receives a message through gate g (header.last_gate)
//!                  sends THE RECEIVED Message object on gate g' after d ns (g' = g: echo back)
//!      | 8 g t d b as 6, the message may be relayed min(b,8) times (budget and leg number travel in the content)
//!      | 10 c m sz at sim start module c calls `m.spawner().gate(name, sz)` (m = c: on itself; m = c+4: on its
//!                  child via `current().child(..)`; else through a held ModuleRef): sz new gates owned by m
//!      | 11 c a b l br  at sim start module c calls a.connect(b, channel)
//!      | 12 a b l br q / 13 c a b l br q  as 9 / 11 with drop behaviour q: 0 Drop, 1 Queue(None), q >= 2 Queue(Some(q-2))
//!      | 14 m      m != 0: arrival times are printed as 0 (scripts in which messages wait in channel queues)
//! Modules 0..3 are top-level ("m0".."m3"), module i >= 4 is the child "m{i-4}.c{i}".  Build-time operations
//! (1-5, 9) run first, in order; the run-time ones (6-8, 10, 11) run in order inside at_sim_start (one start-up
//! stage per spawn / run-time connect, sends in the last stage); records come out in that order; spawn -> 16.
//! Output per op: connect -> 1 | kind -> 2 k | next_gate -> 3 h+1|0 | path_end -> 4 h+1|0 |
//!   path_iter -> 5 0 (transit) | 5 1 n (gate latency+1|0 bitrate){n} | send -> 6 | rule -> 14 | unknown gate -> 7 | panic -> 9 site
//! then, after running the simulation, one record per handled message sorted by (send number k, leg):
//!   11 k leg receiving-module now-ns sender-module receiver-module last_gate+1|0
//!   12 k leg 3  (send/send_at panicked: transit gate)
//! or the single number 10 when some gate mutex is poisoned (the simulation is not run),
//! and a trailing 13 if `run()` returned an error, 18 if events were left when the event budget (50000) ran out.
use des::net::gate::GateKind;
use des::net::module::ModuleId;
use des::prelude::*;
use implrun::Cur;
use std::panic::{catch_unwind, AssertUnwindSafe};
use std::sync::atomic::{AtomicBool, AtomicU64, Ordering};
use std::sync::{Arc, Mutex};

static PROGRESS: AtomicU64 = AtomicU64::new(0);
static BUSY: AtomicBool = AtomicBool::new(false);

fn main() {
    // A gate walk that does not terminate (the subject of C08's termination theorem) would
    // hang the runner: abort instead, so that the unanswered scripts count as crashes.
    std::thread::spawn(|| {
        let (mut last, mut stuck) = (0, 0);
        loop {
            std::thread::sleep(std::time::Duration::from_secs(1));
            let p = PROGRESS.load(Ordering::SeqCst);
            stuck = if BUSY.load(Ordering::SeqCst) && p == last { stuck + 1 } else { 0 };
            last = p;
            if stuck >= 20 {
                std::process::exit(3);
            }
        }
    });
    implrun::run_main(run_line)
}

fn run_line(nums: &[u64]) -> Vec<u64> {
    PROGRESS.fetch_add(1, Ordering::SeqCst);
    BUSY.store(true, Ordering::SeqCst);
    let r = catch_unwind(AssertUnwindSafe(|| run_script(nums)));
    BUSY.store(false, Ordering::SeqCst);
    match r {
        Ok(v) => v,
        Err(e) => std::panic::resume_unwind(e),
    }
}

#[derive(Clone)]
enum Stage {
    Spawn { rt: usize, caller: u64, target: u64, size: usize },
    Conn { rt: usize, caller: u64, a: usize, b: usize, l: u64, br: u64, q: u64 },
}

#[derive(Default)]
struct Shared {
    gates: Vec<GateRef>,
    /// declared owner of every gate (builder: the node named; spawner: the module the spawner belongs to)
    owners: Vec<u64>,
    mods: Vec<ModuleRef>,
    mod_ids: Vec<ModuleId>,
    /// (k, gate index, t, d, budget)
    sends: Vec<(u64, usize, u64, u64, u64)>,
    /// (arrival gate, out gate, delay)
    rules: Vec<(usize, usize, u64)>,
    stages: Vec<Stage>,
    /// record of every run-time operation
    rt_out: Vec<Vec<u64>>,
    poisoned: bool,
    log: Vec<Vec<u64>>,
}

struct Node {
    idx: u64,
    sh: Arc<Mutex<Shared>>,
}

/// every payload message is 72 bytes long (64 header + u64 content)
const MSG_BITS: u64 = 576;
const TRIGGER: u16 = 1;
const PAYLOAD: u16 = 2;

fn at(ns: u64) -> SimTime {
    SimTime::from_duration(Duration::from_nanos(ns))
}

fn mod_path(i: u64) -> String {
    if i >= 4 {
        format!("m{}.c{}", i - 4, i)
    } else {
        format!("m{i}")
    }
}

fn mk_channel(l: u64, br: u64, q: u64) -> Option<ChannelRef> {
    if l == 0 {
        None
    } else {
        Some(Channel::new(ChannelMetrics {
            bitrate: br as usize,
            latency: Duration::from_nanos(l - 1),
            jitter: Duration::ZERO,
            drop_behaviour: match q {
                0 => ChannelDropBehaviour::Drop,
                1 => ChannelDropBehaviour::Queue(None),
                _ => ChannelDropBehaviour::Queue(Some(q as usize - 2)),
            },
        }))
    }
}

fn do_connect(ga: GateRef, gb: GateRef, l: u64, br: u64, q: u64) -> Vec<u64> {
    let ch = mk_channel(l, br, q);
    match catch_unwind(AssertUnwindSafe(move || ga.connect(gb, ch))) {
        Ok(()) => vec![1],
        Err(e) => vec![9, site(&e, 5)],
    }
}

impl Node {
    fn do_send(&self, k: u64) {
        let (gate, t, d, b) = {
            let sh = self.sh.lock().unwrap();
            let s = sh.sends.iter().find(|s| s.0 == k).copied().unwrap();
            (sh.gates[s.1].clone(), s.2, s.3, s.4)
        };
        // content: relay budget << 8 | leg number
        let msg = Message::default().kind(PAYLOAD).id(k as u16).with_content(b << 8);
        if msg.length() as u64 * 8 != MSG_BITS {
            // the transmission times of the model assume this length
            self.sh.lock().unwrap().log.push(vec![k, 0, 15, msg.length() as u64]);
        }
        let r = catch_unwind(AssertUnwindSafe(|| {
            if d == 0 {
                send(msg, gate)
            } else {
                send_at(msg, gate, at(t + d))
            }
        }));
        if r.is_err() {
            self.sh.lock().unwrap().log.push(vec![k, 0, 12, 3]);
        }
    }

    /// one run-time wiring operation, executed by the module the script names
    fn do_stage(&self, st: Stage) {
        match st {
            Stage::Spawn { rt, caller, target, size } => {
                if caller != self.idx {
                    return;
                }
                let name = format!("r{rt}");
                let created: Vec<GateRef> = if target == self.idx {
                    let me = current();
                    me.spawner().gate(&name, size);
                    (0..size).map(|p| me.gate(&name, p).expect("spawned gate")).collect()
                } else {
                    // a parent reaches its child through `child(..)`, everybody else through a ModuleRef
                    let m = if target == self.idx + 4 {
                        current().child(&format!("c{target}")).expect("child module")
                    } else {
                        self.sh.lock().unwrap().mods[target as usize].clone()
                    };
                    m.spawner().gate(&name, size);
                    (0..size).map(|p| m.gate(&name, p).expect("spawned gate")).collect()
                };
                let mut sh = self.sh.lock().unwrap();
                for g in created {
                    sh.gates.push(g);
                    sh.owners.push(target);
                }
                sh.rt_out[rt] = vec![16];
            }
            Stage::Conn { rt, caller, a, b, l, br, q } => {
                if caller != self.idx {
                    return;
                }
                let (ga, gb) = {
                    let sh = self.sh.lock().unwrap();
                    (sh.gates[a].clone(), sh.gates[b].clone())
                };
                let r = do_connect(ga, gb, l, br, q);
                self.sh.lock().unwrap().rt_out[rt] = r;
            }
        }
    }
}

impl Module for Node {
    fn num_sim_start_stages(&self) -> usize {
        self.sh.lock().unwrap().stages.len() + 1
    }

    fn at_sim_start(&mut self, stage: usize) {
        let st = self.sh.lock().unwrap().stages.get(stage).cloned();
        if let Some(st) = st {
            self.do_stage(st);
            return;
        }
        // last stage: the wiring is complete.  A poisoned gate mutex makes every later use of
        // that gate panic: no messages are sent then.
        let gates = self.sh.lock().unwrap().gates.clone();
        if gates.iter().any(|g| catch_unwind(AssertUnwindSafe(|| g.kind())).is_err()) {
            self.sh.lock().unwrap().poisoned = true;
            return;
        }
        let mine: Vec<(u64, u64)> = {
            let sh = self.sh.lock().unwrap();
            sh.sends.iter().filter(|s| sh.owners[s.1] == self.idx).map(|s| (s.0, s.2)).collect()
        };
        for (k, t) in mine {
            if t == 0 {
                // sent directly from at_sim_start
                self.do_send(k);
            } else {
                schedule_at(Message::default().kind(TRIGGER).id(k as u16), at(t));
            }
        }
    }

    fn handle_message(&mut self, mut msg: Message) {
        let c = msg.try_content::<u64>().copied().unwrap_or(0);
        let (budget, leg) = (c >> 8, c & 255);
        let h = msg.header();
        let k = h.id as u64;
        if h.kind == TRIGGER {
            self.do_send(k);
            return;
        }
        let now = SimTime::now().as_nanos() as u64;
        let mut sh = self.sh.lock().unwrap();
        let midx = |id: ModuleId| sh.mod_ids.iter().position(|m| *m == id).map_or(999, |p| p as u64);
        let last = match &h.last_gate {
            Some(g) => sh.gates.iter().position(|x| Arc::ptr_eq(x, g)).map_or(9999, |p| p as u64 + 1),
            None => 0,
        };
        let rec = vec![k, leg, 11, self.idx, now, midx(h.sender_module_id), midx(h.receiver_module_id), last];
        sh.log.push(rec);
        // RELAY: send the received object on, if a rule names the gate it arrived through
        if budget == 0 || last == 0 || last == 9999 {
            return;
        }
        let Some(&(_, gout, dl)) = sh.rules.iter().find(|r| r.0 as u64 + 1 == last) else {
            return;
        };
        let gate = sh.gates[gout].clone();
        drop(sh);
        *msg.content_mut::<u64>() = ((budget - 1) << 8) | (leg + 1);
        let r = catch_unwind(AssertUnwindSafe(move || {
            if dl == 0 {
                send(msg, gate)
            } else {
                send_in(msg, gate, Duration::from_nanos(dl))
            }
        }));
        if r.is_err() {
            self.sh.lock().unwrap().log.push(vec![k, leg + 1, 12, 3]);
        }
    }
}

fn panic_text(e: &Box<dyn std::any::Any + Send>) -> String {
    if let Some(s) = e.downcast_ref::<&str>() {
        s.to_string()
    } else if let Some(s) = e.downcast_ref::<String>() {
        s.clone()
    } else {
        String::new()
    }
}

fn site(e: &Box<dyn std::any::Any + Send>, poison_site: u64) -> u64 {
    let t = panic_text(e);
    if t.contains("itself") {
        1
    } else if t.contains("multiple points") {
        2
    } else if t.starts_with("failed lock") || t.starts_with("failed to get lock") {
        poison_site
    } else {
        99
    }
}

enum Op {
    Conn { a: usize, b: usize, l: u64, br: u64, q: u64 },
    Query { tag: u64, g: usize },
    Send { g: usize, t: u64, d: u64, b: u64 },
    Rule { g: usize, g2: usize, d: u64 },
    Spawn { c: u64, m: u64, sz: usize },
    RConn { c: u64, a: usize, b: usize, l: u64, br: u64, q: u64 },
    Mask { m: u64 },
}

/// bitrates whose transmission time for the 72-byte message is not a whole number of ns are read as 0
fn norm_br(br: u64) -> u64 {
    if br != 0 && (MSG_BITS as u128 * 1_000_000_000) % br as u128 == 0 {
        br
    } else {
        0
    }
}

fn parse_ops(cur: &mut Cur, nm: u64) -> Vec<Op> {
    let mut ops = Vec::new();
    while !cur.done() {
        let tag = cur.peek().unwrap();
        let need = match tag {
            1 | 6 | 7 | 10 => 4,
            8 | 9 => 5,
            11 | 12 => 6,
            13 => 7,
            2..=5 | 14 => 2,
            _ => break,
        };
        if cur.left() < need {
            break;
        }
        cur.next();
        ops.push(match tag {
            1 => Op::Conn { a: cur.next() as usize, b: cur.next() as usize, l: cur.next(), br: 0, q: 0 },
            9 => Op::Conn { a: cur.next() as usize, b: cur.next() as usize, l: cur.next(), br: norm_br(cur.next()), q: 0 },
            12 => Op::Conn {
                a: cur.next() as usize,
                b: cur.next() as usize,
                l: cur.next(),
                br: norm_br(cur.next()),
                q: cur.next(),
            },
            14 => Op::Mask { m: cur.next() },
            2..=5 => Op::Query { tag, g: cur.next() as usize },
            6 => Op::Send { g: cur.next() as usize, t: cur.next(), d: cur.next(), b: 0 },
            8 => Op::Send { g: cur.next() as usize, t: cur.next(), d: cur.next(), b: cur.next().min(8) },
            7 => Op::Rule { g: cur.next() as usize, g2: cur.next() as usize, d: cur.next() },
            10 => Op::Spawn { c: cur.next() % nm, m: cur.next() % nm, sz: cur.next().clamp(1, 6) as usize },
            _ => Op::RConn {
                c: cur.next() % nm,
                a: cur.next() as usize,
                b: cur.next() as usize,
                l: cur.next(),
                br: norm_br(cur.next()),
                q: if tag == 13 { cur.next() } else { 0 },
            },
        });
    }
    ops
}

fn run_script(nums: &[u64]) -> Vec<u64> {
    if nums.is_empty() {
        return vec![7];
    }
    let mut cur = Cur::new(nums);
    let nm = cur.next().clamp(1, 8);
    let grp = cur.take_lp();

    let sh = Arc::new(Mutex::new(Shared::default()));
    let mut sim = Sim::new(());
    for i in 0..nm {
        sim.node(mod_path(i).as_str(), Node { idx: i, sh: sh.clone() });
    }
    let mut gates: Vec<GateRef> = Vec::new();
    let mut owners: Vec<u64> = Vec::new();
    for (gi, pair) in grp.chunks(2).enumerate() {
        if pair.len() < 2 {
            break;
        }
        let o = pair[0] % nm;
        let sz = pair[1].clamp(1, 6) as usize;
        let path = mod_path(o);
        let name = format!("g{gi}");
        if sz == 1 {
            gates.push(sim.gate(path.as_str(), &name));
            owners.push(o);
        } else {
            for g in sim.gates(path.as_str(), &name, sz) {
                gates.push(g);
                owners.push(o);
            }
        }
    }
    {
        let mut s = sh.lock().unwrap();
        for i in 0..nm {
            let m = sim.globals().get(&mod_path(i).as_str().into()).expect("module");
            s.mod_ids.push(m.id());
            s.mods.push(m);
        }
    }
    let gidx = |g: &GateRef| gates.iter().position(|x| Arc::ptr_eq(x, g)).map_or(9999, |p| p as u64);

    let ops = parse_ops(&mut cur, nm);
    let mut out: Vec<u64> = Vec::new();

    // ---- build time: connects and queries, in order
    for op in &ops {
        match *op {
            Op::Conn { a, b, l, br, q } => {
                if a >= gates.len() || b >= gates.len() {
                    out.push(7);
                    continue;
                }
                out.extend(do_connect(gates[a].clone(), gates[b].clone(), l, br, q));
            }
            Op::Query { tag, g } => {
                if g >= gates.len() {
                    out.push(7);
                    continue;
                }
                let gate = &gates[g];
                let opt = |o: Option<GateRef>| o.map_or(0, |h| gidx(&h) + 1);
                let r = catch_unwind(AssertUnwindSafe(|| match tag {
                    2 => vec![
                        2,
                        match gate.kind() {
                            GateKind::Standalone => 0,
                            GateKind::Endpoint => 1,
                            GateKind::Transit => 2,
                        },
                    ],
                    3 => vec![3, opt(gate.next_gate())],
                    4 => vec![4, opt(gate.path_end())],
                    _ => match gate.path_iter() {
                        None => vec![5, 0],
                        Some(it) => {
                            let cons: Vec<_> = it.collect();
                            let mut v = vec![5, 1, cons.len() as u64];
                            for c in cons {
                                v.push(gidx(&c.endpoint));
                                v.push(c.channel().map_or(0, |ch| ch.metrics().latency.as_nanos() as u64 + 1));
                                v.push(c.channel().map_or(0, |ch| ch.metrics().bitrate as u64));
                            }
                            v
                        }
                    },
                }));
                match r {
                    Ok(v) => out.extend(v),
                    Err(e) => out.extend([9, site(&e, 4)]),
                }
            }
            _ => {}
        }
    }

    // ---- run time: which gates exist when is known from the script alone (spawn sizes)
    let mut ng = gates.len();
    let mut rt_out: Vec<Vec<u64>> = Vec::new();
    let mut stages: Vec<Stage> = Vec::new();
    let mut sends: Vec<(usize, u64, u64, u64)> = Vec::new();
    let mut rules: Vec<(usize, usize, u64)> = Vec::new();
    let mut mask = false;
    for op in &ops {
        match *op {
            Op::Send { g, t, d, b } => {
                rt_out.push(vec![if g < ng { 6 } else { 7 }]);
                sends.push((g, t, d, b));
            }
            Op::Rule { g, g2, d } => {
                rt_out.push(vec![if g < ng && g2 < ng { 14 } else { 7 }]);
                rules.push((g, g2, d));
            }
            Op::Spawn { c, m, sz } => {
                stages.push(Stage::Spawn { rt: rt_out.len(), caller: c, target: m, size: sz });
                rt_out.push(vec![]);
                ng += sz;
            }
            Op::Mask { m } => {
                rt_out.push(vec![17]);
                mask |= m != 0;
            }
            Op::RConn { c, a, b, l, br, q } => {
                if a < ng && b < ng {
                    stages.push(Stage::Conn { rt: rt_out.len(), caller: c, a, b, l, br, q });
                    rt_out.push(vec![]);
                } else {
                    rt_out.push(vec![7]);
                }
            }
            _ => {}
        }
    }
    {
        // sends and rules count when their gates exist in the final table
        let mut s = sh.lock().unwrap();
        s.gates = gates.clone();
        s.owners = owners.clone();
        let mut k = 0;
        for (g, t, d, b) in sends {
            if g < ng {
                s.sends.push((k, g, t, d, b));
                k += 1;
            }
        }
        s.rules = rules.into_iter().filter(|r| r.0 < ng && r.1 < ng).collect();
        s.stages = stages;
        s.rt_out = rt_out;
    }

    // a message that never arrives (bouncing between gates) must not hang the runner: bound the number of events;
    // scripts need a few hundred at most
    let rt = Builder::seeded(1).quiet().max_itr(50_000).build(sim.freeze());
    let res = catch_unwind(AssertUnwindSafe(|| rt.run()));
    // the runtime installs and removes its own panic hook
    std::panic::set_hook(Box::new(|_| {}));
    let mut s = sh.lock().unwrap();
    for r in &s.rt_out {
        out.extend(r);
    }
    if s.poisoned {
        out.push(10);
    } else {
        let mut log = std::mem::take(&mut s.log);
        log.sort();
        for r in log {
            // [k, leg, tag, rest..] -> tag k leg rest..
            out.push(r[2]);
            out.push(r[0]);
            out.push(r[1]);
            if mask && r[2] == 11 {
                // a delivery: [.., module, now, sender, receiver, last]; the time is not reported
                out.push(r[3]);
                out.push(0);
                out.extend(&r[5..]);
                continue;
            }
            out.extend(&r[3..]);
        }
    }
    match res {
        Ok(Ok((_, _, prof))) => {
            if !prof.remaining.is_empty() {
                out.push(18); // event budget exhausted: some message is still travelling
            }
        }
        Ok(Err(_)) => out.push(13),
        Err(_) => out.push(666),
    }
    s.gates.clear();
    s.mods.clear();
    s.sends.clear();
    s.rules.clear();
    s.stages.clear();
    out
}
