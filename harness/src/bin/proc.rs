//! Processing stacks (C14): scripted `ProcessingElement`s, installed as the global default
//! stack (`SimBuilder::set_stack`) and per module (`Module::stack`), around a scripted module
//! handler, driven through the real `des` runtime.  Two modules "a" (0) and "b" (1); gate
//! "out" of each is connected to gate "in" of the other without a channel; gate "port" of each
//! is unconnected (messages injected onto it reach its owner).
//!
//! script := budget  nG blob*  mod mod  inj*
//! blob   := len x1 .. xlen
//! elem   := blob[ act k  lp(start emits) lp(in emits) lp(end emits) ]   act%3: 0 pass 1 modify(+k) 2 consume
//! emits  := (peer delay id)*        peer odd = send_in(.., "out", delay), even = schedule_in(.., delay)
//! mod    := mode nOwn blob*  blob[ handler ]    mode%4: 0 default stack, 1 default++own, 2 own, 3 own++default
//! handler:= stages(%4) xkind(%4: 0 none 1 timer 2 shutdown 3 caught panic) xa xb xc  lp(start) lp(msg) lp(end) lp(task)
//!          panic: the module's stereotype gets on_panic_catch; xb%3 = 0 handle_message of payload xa panics,
//!          1 at_sim_start(xa) panics, 2 at_sim_end panics (each after its sends), only from time xc on
//!          optional tail after the four lists (shutdown only): pf pst psince; pf odd = catching stereotype and
//!          at_sim_start(pst) panics from time psince on (psince > 0: a panic in a stage of a restart)
//! inj    := kind dst time id        kind odd = handle_message_on, even = add_message_onto(port)
//!
//! Output: the call log, 5 numbers per entry: module who hook a b
//!   who: 0 handler, 1 task, 2+i element at stack position i
//!   hook: 1 event_start(a=now) 2 incoming(a=payload) 3 event_end 4 handle_message(a=payload,b=now)
//!         5 at_sim_start(a=stage,b=now) 6 at_sim_end(a=now) 7 task resumed(a=now) 8 reset
//!         9 schedule_in(a=delay,b=id) 10 send_in(a=delay,b=id) 11 shutdown(a=1 iff restart, b=delay)
//!         12 the callback panics now
use des::net::module::Stereotyp;
use des::net::processing::ProcessingStack;
use des::prelude::*;
use implrun::Cur;
use std::cell::Cell;
use std::rc::Rc;
use std::sync::atomic::{AtomicU64, Ordering::SeqCst};
use std::sync::Mutex;

static LOG: Mutex<Vec<u64>> = Mutex::new(Vec::new());
static BUDGET: AtomicU64 = AtomicU64::new(0);

fn main() {
    implrun::run_main(run_line)
}

fn now() -> u64 {
    SimTime::now().as_nanos() as u64
}

fn log(m: u64, who: u64, hook: u64, a: u64, b: u64) {
    LOG.lock().unwrap().extend([m, who, hook, a, b]);
}

#[derive(Clone)]
struct Emit {
    peer: bool,
    delay: u64,
    id: u64,
}

#[derive(Clone)]
struct ElemCfg {
    act: u64,
    k: u64,
    start: Vec<Emit>,
    inc: Vec<Emit>,
    end: Vec<Emit>,
}

#[derive(Clone)]
struct HandlerCfg {
    stages: u64,
    xkind: u64,
    xa: u64,
    xb: u64,
    xc: u64,
    start: Vec<Emit>,
    msg: Vec<Emit>,
    end: Vec<Emit>,
    task: Vec<Emit>,
    pf: u64,
    pst: u64,
    psince: u64,
}

impl HandlerCfg {
    fn catches(&self) -> bool {
        self.xkind == 3 || (self.xkind == 2 && self.pf % 2 == 1)
    }
    /// does at_sim_start(stage) end in a panic now?
    fn start_panics(&self, stage: u64) -> bool {
        (self.xkind == 3 && self.xb % 3 == 1 && stage == self.xa && now() >= self.xc)
            || (self.xkind == 2 && self.pf % 2 == 1 && stage == self.pst && now() >= self.psince)
    }
}

#[derive(Clone)]
struct ModCfg {
    mode: u64,
    own: Vec<ElemCfg>,
    handler: HandlerCfg,
}

fn triples(v: &[u64]) -> Vec<Emit> {
    v.chunks_exact(3)
        .map(|c| Emit { peer: c[0] % 2 == 1, delay: c[1], id: c[2] })
        .collect()
}

fn blobs(c: &mut Cur) -> Vec<Vec<u64>> {
    let n = c.next();
    let mut out = Vec::new();
    for _ in 0..n {
        if c.done() {
            break;
        }
        out.push(c.take_lp());
    }
    out
}

fn dec_elem(b: &[u64]) -> ElemCfg {
    let mut c = Cur::new(b);
    let act = c.next() % 3;
    let k = c.next();
    let start = triples(&c.take_lp());
    let inc = triples(&c.take_lp());
    let end = triples(&c.take_lp());
    ElemCfg { act, k, start, inc, end }
}

fn dec_handler(b: &[u64]) -> HandlerCfg {
    let mut c = Cur::new(b);
    let stages = c.next() % 4;
    let xkind = c.next() % 4;
    let xa = c.next();
    let xb = c.next();
    let xc = c.next();
    let start = triples(&c.take_lp());
    let msg = triples(&c.take_lp());
    let end = triples(&c.take_lp());
    let task = triples(&c.take_lp());
    let pf = c.next();
    let pst = c.next();
    let psince = c.next();
    HandlerCfg { stages, xkind, xa, xb, xc, start, msg, end, task, pf, pst, psince }
}

fn dec_mod(c: &mut Cur) -> ModCfg {
    let mode = c.next() % 4;
    let own = blobs(c).iter().map(|b| dec_elem(b)).collect();
    let handler = dec_handler(&c.take_lp());
    ModCfg { mode, own, handler }
}

/// every send of the scripts draws on one budget, so that every run is finite
fn do_emits(m: u64, who: u64, list: &[Emit]) {
    for e in list {
        if BUDGET.load(SeqCst) == 0 {
            continue;
        }
        BUDGET.fetch_sub(1, SeqCst);
        let msg = Message::default().with_content(e.id);
        let d = Duration::from_nanos(e.delay);
        if e.peer {
            log(m, who, 10, e.delay, e.id);
            send_in(msg, "out", d);
        } else {
            log(m, who, 9, e.delay, e.id);
            schedule_in(msg, d);
        }
    }
}

struct ScriptElem {
    m: u64,
    pos: u64,
    cfg: ElemCfg,
}

impl ProcessingElement for ScriptElem {
    fn event_start(&mut self) {
        log(self.m, 2 + self.pos, 1, now(), 0);
        do_emits(self.m, 2 + self.pos, &self.cfg.start);
    }

    fn incoming(&mut self, mut msg: Message) -> Option<Message> {
        let x = *msg.content::<u64>();
        log(self.m, 2 + self.pos, 2, x, 0);
        do_emits(self.m, 2 + self.pos, &self.cfg.inc);
        match self.cfg.act {
            0 => Some(msg),
            1 => {
                *msg.content_mut::<u64>() = x.wrapping_add(self.cfg.k);
                Some(msg)
            }
            _ => None,
        }
    }

    fn event_end(&mut self) {
        log(self.m, 2 + self.pos, 3, 0, 0);
        do_emits(self.m, 2 + self.pos, &self.cfg.end);
    }
}

fn stack_of(m: u64, base: u64, els: &[ElemCfg]) -> ProcessingStack {
    let mut s = ProcessingStack::default();
    for (j, e) in els.iter().enumerate() {
        s.append(ScriptElem { m, pos: base + j as u64, cfg: e.clone() });
    }
    s
}

struct ScriptModule {
    m: u64,
    nglobal: u64,
    cfg: ModCfg,
}

impl Module for ScriptModule {
    fn stack(&self, default: ProcessingStack) -> ProcessingStack {
        match self.cfg.mode {
            0 => default,
            1 => {
                let mut s = default;
                s.append(stack_of(self.m, self.nglobal, &self.cfg.own));
                s
            }
            2 => stack_of(self.m, 0, &self.cfg.own),
            _ => {
                let mut s = stack_of(self.m, 0, &self.cfg.own);
                s.append(default);
                s
            }
        }
    }

    fn num_sim_start_stages(&self) -> usize {
        self.cfg.handler.stages as usize
    }

    fn at_sim_start(&mut self, stage: usize) {
        let h = &self.cfg.handler;
        log(self.m, 0, 5, stage as u64, now());
        do_emits(self.m, 0, &h.start);
        if stage == 0 && h.xkind == 1 {
            let m = self.m;
            let d = h.xa;
            let task = h.task.clone();
            tokio::spawn(async move {
                des::time::sleep(Duration::from_nanos(d + 1)).await;
                log(m, 1, 7, now(), 0);
                do_emits(m, 1, &task);
            });
        }
        if h.start_panics(stage as u64) {
            log(self.m, 0, 12, 0, 0);
            panic!("scripted panic in at_sim_start");
        }
    }

    fn handle_message(&mut self, msg: Message) {
        let h = &self.cfg.handler;
        let x = *msg.content::<u64>();
        log(self.m, 0, 4, x, now());
        do_emits(self.m, 0, &h.msg);
        if h.xkind == 2 && x == h.xa {
            if h.xb % 2 == 1 {
                log(self.m, 0, 11, 1, h.xc);
                current().shutdow_and_restart_in(Duration::from_nanos(h.xc));
            } else {
                log(self.m, 0, 11, 0, 0);
                current().shutdown();
            }
        }
        if h.xkind == 3 && h.xb % 3 == 0 && x == h.xa && now() >= h.xc {
            log(self.m, 0, 12, 0, 0);
            panic!("scripted panic in handle_message");
        }
    }

    fn at_sim_end(&mut self) -> Result<(), RuntimeError> {
        log(self.m, 0, 6, now(), 0);
        do_emits(self.m, 0, &self.cfg.handler.end);
        if self.cfg.handler.xkind == 3 && self.cfg.handler.xb % 3 == 2 && now() >= self.cfg.handler.xc {
            log(self.m, 0, 12, 0, 0);
            panic!("scripted panic in at_sim_end");
        }
        Ok(())
    }

    fn reset(&mut self) {
        log(self.m, 0, 8, 0, 0);
    }
}

fn run_line(nums: &[u64]) -> Vec<u64> {
    let mut c = Cur::new(nums);
    let budget = c.next();
    let global: Vec<ElemCfg> = blobs(&mut c).iter().map(|b| dec_elem(b)).collect();
    let mods = [dec_mod(&mut c), dec_mod(&mut c)];
    let mut inj = Vec::new();
    while c.left() >= 4 {
        let (k, d, t, x) = (c.next(), c.next(), c.next(), c.next());
        inj.push((k % 2 == 1, d % 2, t, x));
    }

    LOG.lock().unwrap().clear();
    BUDGET.store(budget, SeqCst);

    let mut sim = Sim::new(());
    {
        // the default stack is requested once per node, in creation order a, b; the position a
        // global element will occupy in the module's final stack follows from the module's mode
        let counter = Rc::new(Cell::new(0u64));
        let g = global.clone();
        let modes = [(mods[0].mode, mods[0].own.len() as u64), (mods[1].mode, mods[1].own.len() as u64)];
        sim.set_stack(move || {
            let m = counter.get();
            counter.set(m + 1);
            let (mode, nown) = modes[(m % 2) as usize];
            let base = if mode == 3 { nown } else { 0 };
            stack_of(m, base, &g)
        });
    }
    let names = ["a", "b"];
    for m in 0..2 {
        sim.node(names[m], ScriptModule { m: m as u64, nglobal: global.len() as u64, cfg: mods[m].clone() });
    }
    let a_out = sim.gate("a", "out");
    let a_in = sim.gate("a", "in");
    let b_out = sim.gate("b", "out");
    let b_in = sim.gate("b", "in");
    a_out.connect(b_in, None);
    b_out.connect(a_in, None);
    let ports = [sim.gate("a", "port"), sim.gate("b", "port")];
    let refs = [
        sim.get(&ObjectPath::from("a")).expect("module a"),
        sim.get(&ObjectPath::from("b")).expect("module b"),
    ];

    for m in 0..2 {
        if mods[m].handler.catches() {
            refs[m].set_stereotyp(Stereotyp { on_panic_catch: true, ..Stereotyp::HOST });
        }
    }

    let mut rt = Builder::seeded(1).quiet().build(sim.freeze());
    for (direct, dst, t, x) in inj {
        let msg = Message::default().with_content(x);
        let time = SimTime::from_duration(Duration::from_nanos(t));
        if direct {
            rt.handle_message_on(refs[dst as usize].clone(), msg, time);
        } else {
            rt.add_message_onto(ports[dst as usize].clone(), msg, time);
        }
    }
    let res = rt.run();
    let mut out = LOG.lock().unwrap().clone();
    if res.is_err() {
        out.push(9);
    }
    out
}
