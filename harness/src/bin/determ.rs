//! Determinism (C04): a seeded ring network with jittered channels, modules that draw random
//! numbers, and async tasks racing two equal-deadline sleeps in `tokio::select!`.
//!
//! script := seed k (lat jit)*k  nk (time dst ttl)*nk  rounds d  ntasks restarts  [oracle …]   (oracle: model only)
//!   module i forwards on gate "out" through a channel (latency lat_i ns, jitter jit_i ns, unlimited bitrate)
//!   to module (i+1) mod k.  handle_message(ttl, token): r = random::<u64>() % 4, log, and if ttl > 0 and
//!   r != 0 forward (ttl-1, token).  If rounds > 0 every module runs a task doing `rounds` times
//!   select!{ sleep(d) => 0, sleep(d) => 1 } and logs the winning branch.  A further module "aux" (not on the
//!   ring) runs `ntasks` such tasks side by side (equal deadlines in one module: wake order is observable through
//!   the random value each task draws after waking) and, if restarts > 0, a controller task that shuts the module
//!   down and restarts it (the restarted module spawns its tasks again on a freshly seeded tokio runtime).
//!
//! The simulation is executed THREE times with the same seed: twice in this process, once in a child
//! process.  Output:  eq12 eq13  n  (m now ttl token r jit)*n
//!   eq12 / eq13 = 1 iff the complete observable history of run 2 / of the child equals run 1
//!   (message log, task log with select branches, random values, end time, event count, result);
//!   the message log of run 1 follows (jit = now - sent_at - latency of the hop, 0 for injected kicks).
use des::prelude::*;
use implrun::Cur;
use std::io::{Read, Write};
use std::process::{Command, Stdio};
use std::sync::atomic::{AtomicU64, Ordering::SeqCst};
use std::sync::Mutex;

static MSGLOG: Mutex<Vec<u64>> = Mutex::new(Vec::new());
static TASKLOG: Mutex<Vec<u64>> = Mutex::new(Vec::new());

fn now() -> u64 {
    SimTime::now().as_nanos() as u64
}

static RESTARTS_LEFT: AtomicU64 = AtomicU64::new(0);

struct Aux {
    ntasks: u64,
    rounds: u64,
    d: u64,
}

impl Module for Aux {
    fn at_sim_start(&mut self, _stage: usize) {
        let (rounds, d) = (self.rounds.max(1), self.d);
        for t in 0..self.ntasks {
            tokio::spawn(async move {
                for rd in 0..rounds {
                    let dur = Duration::from_nanos(d);
                    let b = tokio::select! {
                        _ = des::time::sleep(dur) => 0u64,
                        _ = des::time::sleep(dur) => 1u64,
                    };
                    TASKLOG.lock().unwrap().extend([100 + t, now(), rd, b, random::<u64>() % 1000]);
                }
            });
        }
        if RESTARTS_LEFT.load(SeqCst) > 0 {
            RESTARTS_LEFT.fetch_sub(1, SeqCst);
            let wait = d * rounds / 2 + 1;
            tokio::spawn(async move {
                des::time::sleep(Duration::from_nanos(wait)).await;
                TASKLOG.lock().unwrap().extend([99, now(), 0, 0, 0]);
                current().shutdow_and_restart_in(Duration::from_nanos(1));
            });
        }
    }

    fn handle_message(&mut self, _msg: Message) {}
}

struct Ring {
    i: u64,
    lat: u64,
    rounds: u64,
    d: u64,
}

impl Module for Ring {
    fn at_sim_start(&mut self, _stage: usize) {
        if self.rounds > 0 {
            let (i, rounds, d) = (self.i, self.rounds, self.d);
            tokio::spawn(async move {
                for rd in 0..rounds {
                    let dur = Duration::from_nanos(d);
                    let b = tokio::select! {
                        _ = des::time::sleep(dur) => 0u64,
                        _ = des::time::sleep(dur) => 1u64,
                    };
                    TASKLOG.lock().unwrap().extend([i, now(), rd, b, random::<u64>() % 1000]);
                }
            });
        }
    }

    fn handle_message(&mut self, msg: Message) {
        let c = *msg.content::<[u64; 4]>();
        let (ttl, token, sent_at, hop_lat) = (c[0], c[1], c[2], c[3]);
        let r = random::<u64>() % 4;
        let jit = if sent_at == u64::MAX { 0 } else { now() - sent_at - hop_lat };
        MSGLOG.lock().unwrap().extend([self.i, now(), ttl, token, r, jit]);
        if ttl > 0 && r != 0 {
            send(Message::default().with_content([ttl - 1, token, now(), self.lat]), "out");
        }
    }

    fn at_sim_end(&mut self) -> Result<(), RuntimeError> {
        // a good-bye that is buffered but never dispatched: it must die with this simulation and must not
        // show up in a later simulation of the same process
        if self.i % 2 == 0 {
            schedule_in(Message::default().with_content([0u64, 900 + self.i, u64::MAX, 0]), Duration::from_nanos(7));
        }
        Ok(())
    }
}

struct Idle;
impl Module for Idle {}

/// one execution; returns (message log, everything else that is observable)
fn run_once(nums: &[u64]) -> (Vec<u64>, Vec<u64>) {
    let mut c = Cur::new(nums);
    let seed = c.next();
    let k = (c.next() % 6).max(1);
    let mut lat = Vec::new();
    let mut jit = Vec::new();
    for _ in 0..k {
        lat.push(c.next());
        jit.push(c.next());
    }
    let nk = c.next();
    let mut kicks = Vec::new();
    for _ in 0..nk {
        if c.left() < 3 {
            break;
        }
        kicks.push((c.next(), c.next() % k, c.next()));
    }
    let rounds = c.next() % 8;
    let d = c.next().max(1);
    let ntasks = c.next() % 5;
    let restarts = c.next() % 4;
    RESTARTS_LEFT.store(restarts, SeqCst);

    MSGLOG.lock().unwrap().clear();
    TASKLOG.lock().unwrap().clear();

    let mut sim = Sim::new(());
    for i in 0..k {
        sim.node(format!("n{i}"), Ring { i, lat: lat[i as usize], rounds, d });
    }
    if ntasks > 0 {
        sim.node("aux", Aux { ntasks, rounds, d });
    }
    for i in 0..k {
        let out = sim.gate(format!("n{i}"), "out");
        let inp = sim.gate(format!("n{}", (i + 1) % k), "in");
        let ch = Channel::new(ChannelMetrics {
            bitrate: 0,
            latency: Duration::from_nanos(lat[i as usize]),
            jitter: Duration::from_nanos(jit[i as usize]),
            drop_behaviour: ChannelDropBehaviour::default(),
        });
        out.connect(inp, Some(ch));
    }
    // a diamond beside the ring: src -> r0..r{p-1} -> dst, all paths of equal cost; which first hop a
    // shortest-path query reports must not depend on the process or on earlier simulations
    let p = 2 + (seed % 3) as usize;
    sim.node("src", Idle);
    sim.node("dst", Idle);
    let souts = sim.gates("src", "out", p);
    let dins = sim.gates("dst", "in", p);
    for i in 0..p {
        sim.node(format!("r{i}"), Idle);
        let a = sim.gate(format!("r{i}"), "a");
        let b = sim.gate(format!("r{i}"), "b");
        souts[i].clone().connect(a, None);
        b.connect(dins[i].clone(), None);
    }
    let refs: Vec<_> = (0..k)
        .map(|i| sim.get(&ObjectPath::from(format!("n{i}"))).expect("module"))
        .collect();
    let mut rt = Builder::seeded(seed).quiet().build(sim.freeze());
    for (token, (t, dst, ttl)) in kicks.iter().enumerate() {
        let msg = Message::default().with_content([*ttl % 16, token as u64, u64::MAX, 0]);
        rt.handle_message_on(
            refs[*dst as usize].clone(),
            msg,
            SimTime::from_duration(Duration::from_nanos(*t)),
        );
    }
    let res = rt.run();
    let mut rest = TASKLOG.lock().unwrap().clone();
    match res {
        Ok((app, time, profiler)) => {
            rest.extend([1, time.as_nanos() as u64, profiler.event_count as u64]);
            let topo = app.globals().topology();
            let dj = topo.dijkstra("src");
            let mut hops: Vec<(String, String)> = dj
                .iter()
                .map(|(dst, e)| (dst.as_str().to_string(), e.to.gate().owner().path().as_str().to_string()))
                .collect();
            hops.sort();
            for (dst, via) in hops {
                rest.push(dst.bytes().map(u64::from).sum::<u64>());
                rest.push(via.bytes().map(u64::from).sum::<u64>() * 1000 + via.len() as u64);
            }
        }
        Err(_) => rest.push(0),
    }
    (MSGLOG.lock().unwrap().clone(), rest)
}

fn run_line(nums: &[u64]) -> Vec<u64> {
    let (m1, r1) = run_once(nums);
    let (m2, r2) = run_once(nums);
    let eq12 = (m1 == m2 && r1 == r2) as u64;
    // third execution in a fresh process
    let line: Vec<String> = nums.iter().map(|x| x.to_string()).collect();
    let exe = std::env::current_exe().expect("exe");
    let mut child = Command::new(exe)
        .arg("--child")
        .stdin(Stdio::piped())
        .stdout(Stdio::piped())
        .stderr(Stdio::null())
        .spawn()
        .expect("spawn child");
    child.stdin.take().unwrap().write_all((line.join(" ") + "\n").as_bytes()).unwrap();
    let mut s = String::new();
    child.stdout.take().unwrap().read_to_string(&mut s).unwrap();
    let _ = child.wait();
    let got: Vec<u64> = s.split_whitespace().filter_map(|t| t.parse().ok()).collect();
    let mut want = vec![m1.len() as u64];
    want.extend(&m1);
    want.extend(&r1);
    let eq13 = (got == want) as u64;
    let mut out = vec![eq12, eq13, (m1.len() / 6) as u64];
    out.extend(m1);
    out
}

fn child_line(nums: &[u64]) -> Vec<u64> {
    let (m, r) = run_once(nums);
    let mut out = vec![m.len() as u64];
    out.extend(m);
    out.extend(r);
    out
}

fn main() {
    if std::env::args().any(|a| a == "--child") {
        implrun::run_main(child_line)
    } else {
        implrun::run_main(run_line)
    }
}
