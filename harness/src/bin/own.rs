//! Ownership / drop accounting of a whole network simulation (C20).  The script (format: see
//! coq/Own/Model.v) describes a module tree with nested children, gates, gate links with or
//! without a queueing channel (chains and closed rings), what every module does when it starts
//! (sends, self messages, tasks sleeping on a timer or blocked on a receive for ever), when it
//! shuts down / restarts / panics, messages injected from outside, and where the simulation is
//! stopped.  Everything the user can observe being dropped carries a drop counter: module state,
//! processing elements, task captures, message bodies.
//!
//! Script field `order`: bit 0 = the returned profiler is dropped before the Sim; bit 1 = everything alive at the
//! stopping point is dropped BY UNWINDING (a panic raised while the Sim / runtime / result is alive, caught by
//! catch_unwind) instead of normally.
//! Script field `hold`: bit 0 = the caller keeps its GateRefs / ModuleRefs; bit 1 = the reference counts include the
//! classes that need the hook of fixes/hook_own_counts.diff (the runner prints the single number 777 instead of a
//! record if it was built against sources without that hook).
//! Every record ends with `ncnt cnt*`: (strong, weak) reference counts read at the stopping point, before anything is
//! dropped, with the runner's own measuring handles subtracted (see `Meter`); nothing after an error result.
//! The simulation is executed THREE times in this process.  The records of the first two are printed:
//!   ok res nrem time  created(proc elem task msg)  once(proc elem task msg)  notonce alive  nlog log*
//! followed by one number: 1 iff the live heap (bytes or blocks, counted by a global allocator
//! wrapper, with this file's own bookkeeping released) is larger after the third execution than
//! after the second, i.e. an execution of this simulation leaves memory allocated for ever.
//!   log entry: time module kind payload   kind: 1 at_sim_start 2 handle_message 3 task finished
//!                                               4 at_sim_end 5 reset 6 task failed
//! Modules with (trig/4)%6 != 0 are built from the builder blocks of des/src/net/runtime/blocks.rs:
//! 1 AsyncFn::new, 2 AsyncFn::failable, 3 AsyncFn::io, 4 ModuleFn::failable, 5 HandlerFn::failable; what
//! their closures and futures capture is drop-counted (closure captures = module state, the
//! future's capture = task capture, ModuleFn's generated state = processing element class).
use des::net::blocks::{AsyncFn, FailabilityPolicy, HandlerFn, ModuleFn};
use des::net::channel::{Channel, ChannelDropBehaviour, ChannelMetrics};
use des::net::gate::GateKind;
use des::net::message::MessageBody;
use des::net::processing::ProcessingStack;
use des::prelude::*;
use implrun::Cur;
use std::cell::{Cell, RefCell};
use std::collections::HashSet;
use std::alloc::{GlobalAlloc, Layout, System};
use std::sync::atomic::{AtomicIsize, AtomicU64, Ordering::SeqCst};
use std::sync::Mutex;

/// counts what is currently allocated in this process
struct Counting;
static LIVE_BYTES: AtomicIsize = AtomicIsize::new(0);
static LIVE_BLOCKS: AtomicIsize = AtomicIsize::new(0);
unsafe impl GlobalAlloc for Counting {
    unsafe fn alloc(&self, l: Layout) -> *mut u8 {
        LIVE_BYTES.fetch_add(l.size() as isize, SeqCst);
        LIVE_BLOCKS.fetch_add(1, SeqCst);
        System.alloc(l)
    }
    unsafe fn dealloc(&self, p: *mut u8, l: Layout) {
        LIVE_BYTES.fetch_sub(l.size() as isize, SeqCst);
        LIVE_BLOCKS.fetch_sub(1, SeqCst);
        System.dealloc(p, l)
    }
    unsafe fn realloc(&self, p: *mut u8, l: Layout, new_size: usize) -> *mut u8 {
        LIVE_BYTES.fetch_add(new_size as isize - l.size() as isize, SeqCst);
        System.realloc(p, l, new_size)
    }
}
#[global_allocator]
static ALLOC: Counting = Counting;

/// live (bytes, blocks) with this file's own logs released
fn live_heap() -> (isize, isize) {
    *DROPS.lock().unwrap() = [Vec::new(), Vec::new(), Vec::new(), Vec::new()];
    *LOG.lock().unwrap() = Vec::new();
    *COUNTS.lock().unwrap() = Vec::new();
    (LIVE_BYTES.load(SeqCst), LIVE_BLOCKS.load(SeqCst))
}

static DROPS: Mutex<[Vec<u32>; 4]> = Mutex::new([Vec::new(), Vec::new(), Vec::new(), Vec::new()]);
static LOG: Mutex<Vec<[u64; 4]>> = Mutex::new(Vec::new());
static NMSG: AtomicU64 = AtomicU64::new(0);
static NTASK: AtomicU64 = AtomicU64::new(0);

const P: usize = 0; // module state
const E: usize = 1; // processing element
const T: usize = 2; // task capture
const M: usize = 3; // message body

fn main() {
    implrun::run_main(run_line)
}

#[derive(Debug)]
struct Tracked {
    class: usize,
    idx: usize,
}
impl Tracked {
    fn new(class: usize) -> Self {
        let mut d = DROPS.lock().unwrap();
        d[class].push(0);
        Tracked { class, idx: d[class].len() - 1 }
    }
}
impl Drop for Tracked {
    fn drop(&mut self) {
        DROPS.lock().unwrap()[self.class][self.idx] += 1;
    }
}

#[derive(Debug)]
struct Body {
    _t: Tracked,
    pay: u64,
}
impl Clone for Body {
    // a clone is a new user-visible value
    fn clone(&self) -> Self {
        Body { _t: Tracked::new(M), pay: self.pay }
    }
}
impl MessageBody for Body {
    fn byte_len(&self) -> usize {
        100
    }
}
#[derive(Debug, Clone)]
struct Probe;
impl MessageBody for Probe {
    fn byte_len(&self) -> usize {
        100
    }
}

fn now() -> u64 {
    SimTime::now().as_nanos() as u64
}
fn log(m: u64, kind: u64, pay: u64) {
    LOG.lock().unwrap().push([now(), m, kind, pay]);
}
fn fresh_msg() -> Message {
    let pay = NMSG.fetch_add(1, SeqCst);
    Message::default().with_content(Body { _t: Tracked::new(M), pay })
}

#[derive(Clone, Default)]
struct Cfg {
    parent: u64,
    npe: u64,
    nsend: u64,
    selfd: Vec<u64>,
    tasks: Vec<u64>,
    trig: u64,
    trign: u64,
    trigd: u64,
    ngates: u64,
    endsend: bool,
}

struct Elem {
    _t: Tracked,
}
impl ProcessingElement for Elem {}

struct ScriptModule {
    _t: Tracked,
    m: u64,
    cfg: Cfg,
    elems: RefCell<Vec<Elem>>,
    handled: u64,
    senders: Vec<tokio::sync::mpsc::Sender<()>>,
}

impl Module for ScriptModule {
    fn stack(&self, default: ProcessingStack) -> ProcessingStack {
        let mut s = default;
        for e in self.elems.borrow_mut().drain(..) {
            s.append(e);
        }
        s
    }

    fn at_sim_start(&mut self, _stage: usize) {
        log(self.m, 1, 0);
        for _ in 0..self.cfg.nsend {
            if let Some(g) = current().gate("g0", 0) {
                if g.kind() != GateKind::Transit {
                    send(fresh_msg(), g);
                }
            }
        }
        for d in &self.cfg.selfd {
            schedule_in(fresh_msg(), Duration::from_nanos(*d));
        }
        for d in self.cfg.tasks.clone() {
            let cap = NTASK.fetch_add(1, SeqCst);
            let t = Tracked::new(T);
            let m = self.m;
            if d == 0 {
                let (tx, mut rx) = tokio::sync::mpsc::channel::<()>(1);
                self.senders.push(tx);
                tokio::spawn(async move {
                    let _t = t;
                    let _ = rx.recv().await;
                    log(m, 3, cap);
                });
            } else {
                tokio::spawn(async move {
                    let _t = t;
                    des::time::sleep(Duration::from_nanos(d)).await;
                    log(m, 3, cap);
                });
            }
        }
    }

    fn handle_message(&mut self, msg: Message) {
        let pay = msg.content::<Body>().pay;
        log(self.m, 2, pay);
        drop(msg);
        self.handled += 1;
        if self.handled == self.cfg.trign {
            match self.cfg.trig % 4 {
                1 => current().shutdown(),
                2 => current().shutdow_and_restart_in(Duration::from_nanos(self.cfg.trigd)),
                3 => panic!("scripted panic"),
                _ => {}
            }
        }
    }

    fn at_sim_end(&mut self) -> Result<(), RuntimeError> {
        log(self.m, 4, 0);
        if self.cfg.endsend {
            schedule_in(fresh_msg(), Duration::from_nanos(1));
        }
        Ok(())
    }

    fn reset(&mut self) {
        log(self.m, 5, 0);
    }
}

#[derive(Debug)]
struct Scripted(&'static str);
impl std::fmt::Display for Scripted {
    fn fmt(&self, f: &mut std::fmt::Formatter<'_>) -> std::fmt::Result {
        write!(f, "{}", self.0)
    }
}
impl std::error::Error for Scripted {}

/// the body of an AsyncFn task: receive for ever; at the trign-th message end / fail / ask for a restart
async fn block_task(
    mut rx: tokio::sync::mpsc::Receiver<Message>,
    m: u64,
    cfg: Cfg,
    handled: std::sync::Arc<AtomicU64>,
    can_fail: bool,
) -> std::io::Result<()> {
    let cap = NTASK.fetch_add(1, SeqCst);
    let _t = Tracked::new(T);
    while let Some(msg) = rx.recv().await {
        let pay = msg.content::<Body>().pay;
        log(m, 2, pay);
        drop(msg);
        let n = handled.fetch_add(1, SeqCst) + 1;
        if n == cfg.trign {
            match cfg.trig % 4 {
                1 => {
                    log(m, 3, cap);
                    return Ok(());
                }
                2 => current().shutdow_and_restart_in(Duration::from_nanos(cfg.trigd)),
                3 => {
                    if can_fail {
                        log(m, 6, cap);
                        return Err(std::io::Error::new(std::io::ErrorKind::Other, "scripted failure"));
                    }
                    log(m, 3, cap);
                    return Ok(());
                }
                _ => {}
            }
        }
    }
    Ok(())
}

/// module i as a builder block (kind 1..5)
fn add_block(sim: &mut des::net::SimBuilder<()>, path: &str, i: u64, kind: u64, cfg: &Cfg) {
    let state = Tracked::new(P);
    let handled = std::sync::Arc::new(AtomicU64::new(0));
    let c = cfg.clone();
    match kind {
        1 => sim.node(
            path,
            AsyncFn::new(move |rx| {
                let _keep = &state;
                log(i, 1, 0);
                let (c, h) = (c.clone(), handled.clone());
                async move {
                    let _ = block_task(rx, i, c, h, false).await;
                }
            }),
        ),
        2 => sim.node(
            path,
            AsyncFn::failable(move |rx| {
                let _keep = &state;
                log(i, 1, 0);
                block_task(rx, i, c.clone(), handled.clone(), true)
            }),
        ),
        3 => sim.node(
            path,
            AsyncFn::io(move |rx| {
                let _keep = &state;
                log(i, 1, 0);
                block_task(rx, i, c.clone(), handled.clone(), true)
            }),
        ),
        4 => {
            let policy = match cfg.trig % 4 {
                2 => FailabilityPolicy::Restart,
                3 => FailabilityPolicy::Panic,
                _ => FailabilityPolicy::Continue,
            };
            let fails = cfg.trig % 4 != 0;
            sim.node(
                path,
                ModuleFn::failable(
                    move || {
                        let _keep = &state;
                        log(i, 1, 0);
                        Tracked::new(E)
                    },
                    move |_st: &mut Tracked, msg: Message| {
                        let pay = msg.content::<Body>().pay;
                        log(i, 2, pay);
                        drop(msg);
                        let n = handled.fetch_add(1, SeqCst) + 1;
                        if n == c.trign && fails {
                            Err(Scripted("scripted failure"))
                        } else {
                            Ok(())
                        }
                    },
                    policy,
                ),
            )
        }
        _ => {
            let policy = if cfg.trig % 4 == 3 { FailabilityPolicy::Panic } else { FailabilityPolicy::Continue };
            let fails = cfg.trig % 4 != 0;
            sim.node(
                path,
                HandlerFn::failable(
                    move |msg: Message| {
                        let _keep = &state;
                        let pay = msg.content::<Body>().pay;
                        log(i, 2, pay);
                        drop(msg);
                        let n = handled.fetch_add(1, SeqCst) + 1;
                        if n == c.trign && fails {
                            Err(Scripted("scripted failure"))
                        } else {
                            Ok(())
                        }
                    },
                    policy,
                ),
            )
        }
    }
}

fn dec_mod(c: &mut Cur) -> Cfg {
    let parent = c.next();
    let npe = c.next().min(2);
    let nsend = c.next().min(8);
    let mut selfd = c.take_lp();
    selfd.truncate(4);
    let mut tasks = c.take_lp();
    tasks.truncate(4);
    let trig = c.next();
    let trign = c.next();
    let trigd = c.next();
    let ngates = c.next().min(3);
    let endsend = c.next() % 2 == 1;
    Cfg { parent, npe, nsend, selfd, tasks, trig, trign, trigd, ngates, endsend }
}

struct Script {
    stop: u64,
    arg: u64,
    order: bool,
    unwind: bool,
    hold: bool,
    hooked: bool,
    mods: Vec<Cfg>,
    links: Vec<[u64; 5]>,
    injs: Vec<[u64; 3]>,
}

fn decode(nums: &[u64]) -> Script {
    let mut c = Cur::new(nums);
    let stop = c.next() % 6;
    let arg = c.next();
    let order_raw = c.next();
    let order = order_raw % 2 == 1;
    let unwind = (order_raw / 2) % 2 == 1;
    let hold_raw = c.next();
    let hold = hold_raw % 2 == 1;
    let hooked = (hold_raw / 2) % 2 == 1;
    let nmod = c.next().min(6);
    let mut mods = Vec::new();
    for _ in 0..nmod {
        if c.done() {
            break;
        }
        mods.push(dec_mod(&mut c));
    }
    let nlink = c.next().min(12);
    let mut links = Vec::new();
    for _ in 0..nlink {
        if c.done() {
            break;
        }
        links.push([c.next(), c.next(), c.next(), c.next(), c.next()]);
    }
    let ninj = c.next().min(6);
    let mut injs = Vec::new();
    for _ in 0..ninj {
        if c.done() {
            break;
        }
        injs.push([c.next(), c.next(), c.next()]);
    }
    Script { stop, arg, order, unwind, hold, hooked, mods, links, injs }
}

/// What the runner keeps in order to read reference counts at the stopping point: weak handles
/// only, so that nothing is kept alive and no strong count is changed.
#[derive(Default)]
struct Meter {
    globals: Option<std::sync::Weak<des::net::Globals>>,
    gates: Vec<std::sync::Weak<des::net::gate::Gate>>,
    channels: Vec<std::sync::Weak<Channel>>,
    #[cfg(des_own_counts)]
    probes: Vec<des::net::module::VerifOwnProbe>,
}

/// (strong, weak) of what `w` points to, without the handle made by upgrading and without `w` itself
fn sw<T>(w: &std::sync::Weak<T>) -> [u64; 2] {
    match w.upgrade() {
        Some(a) => [std::sync::Arc::strong_count(&a) as u64 - 1, std::sync::Arc::weak_count(&a) as u64 - 1],
        None => [0, 0],
    }
}

impl Meter {
    /// the channel stored in slot `slot` of `gate` (Connection::next_hop reads the slot opposite to `endpoint_id`)
    fn channel_in_slot(gate: &GateRef, slot: u64) -> Option<std::sync::Weak<Channel>> {
        let probe = des::net::gate::Connection {
            endpoint: gate.clone(),
            endpoint_id: if slot == 0 { 1 } else { 0 },
            channel: None,
        };
        probe.next_hop().and_then(|c| c.channel).map(|c| std::sync::Arc::downgrade(&c))
    }

    #[allow(unused_variables)]
    fn read(&self, hooked: bool) -> Vec<u64> {
        let mut out = Vec::new();
        out.extend(self.globals.as_ref().map_or([0, 0], sw));
        #[cfg(des_own_counts)]
        if hooked {
            match self.globals.as_ref().and_then(std::sync::Weak::upgrade) {
                Some(g) => {
                    let (s, w) = g.verif_tree_counts();
                    out.extend([s as u64, w as u64]);
                }
                None => out.extend([0, 0]),
            }
            for p in &self.probes {
                match p.counts() {
                    // ctx (s, w - probe), processor (s, w - probe), runtime, local set, queue s w n (slot s w)*
                    Some(c) => {
                        out.extend([c[0] as u64, c[1] as u64 - 1, c[2] as u64, c[3] as u64 - 1]);
                        out.extend(c[4..].iter().map(|&x| x as u64));
                    }
                    None => out.extend([0, 0, 0, 0, 0, 0, 0, 0, 0]),
                }
            }
        }
        for g in &self.gates {
            out.extend(sw(g));
        }
        for c in &self.channels {
            out.extend(sw(c));
        }
        out
    }
}

static COUNTS: Mutex<Vec<u64>> = Mutex::new(Vec::new());

fn run_once(sc: &Script) -> Vec<u64> {
    *DROPS.lock().unwrap() = [Vec::new(), Vec::new(), Vec::new(), Vec::new()];
    LOG.lock().unwrap().clear();
    *COUNTS.lock().unwrap() = Vec::new();
    NMSG.store(0, SeqCst);
    NTASK.store(0, SeqCst);

    let res = Cell::new(0u64);
    let nrem = Cell::new(0u64);
    let time = Cell::new(0u64);
    // the whole life of the simulation; with the `unwind` bit everything that is still alive at the
    // stopping point (the Sim / the runtime / the returned result, the caller's handles) is dropped
    // by a panic unwinding out of this closure instead of by leaving scopes normally
    let life = || {
        let unwind = sc.unwind;
        let mut sim = Sim::new(());
        let mut meter = Meter::default();
        meter.globals = Some(std::sync::Arc::downgrade(&sim.globals()));
        // modules; a parent index that does not name an earlier module means top level
        let mut paths: Vec<String> = Vec::new();
        for (i, cfg) in sc.mods.iter().enumerate() {
            let path = if cfg.parent != 0 && (cfg.parent as usize - 1) < i {
                format!("{}.m{}", paths[cfg.parent as usize - 1], i)
            } else {
                format!("m{i}")
            };
            paths.push(path.clone());
            let kind = (cfg.trig / 4) % 6;
            if kind != 0 {
                add_block(&mut sim, path.as_str(), i as u64, kind, cfg);
                continue;
            }
            let elems = (0..cfg.npe).map(|_| Elem { _t: Tracked::new(E) }).collect();
            sim.node(
                path.as_str(),
                ScriptModule {
                    _t: Tracked::new(P),
                    m: i as u64,
                    cfg: cfg.clone(),
                    elems: RefCell::new(elems),
                    handled: 0,
                    senders: Vec::new(),
                },
            );
        }
        let mut gates: Vec<Vec<GateRef>> = Vec::new();
        for (i, cfg) in sc.mods.iter().enumerate() {
            let mut v = Vec::new();
            for k in 0..cfg.ngates {
                v.push(sim.gate(paths[i].as_str(), &format!("g{k}")));
            }
            gates.push(v);
        }
        // links: exactly the calls that Gate::connect accepts (it panics on the others while
        // holding its locks)
        let mut nconn: Vec<Vec<u64>> = gates.iter().map(|v| vec![0; v.len()]).collect();
        let mut pairs: HashSet<((usize, usize), (usize, usize))> = HashSet::new();
        let msg_len = Message::default().with_content(Probe).length();
        for l in &sc.links {
            let (ma, ga, mb, gb) = (l[0] as usize, l[1] as usize, l[2] as usize, l[3] as usize);
            if ma >= gates.len() || mb >= gates.len() || ga >= gates[ma].len() || gb >= gates[mb].len() {
                continue;
            }
            if (ma, ga) == (mb, gb) || pairs.contains(&((ma, ga), (mb, gb))) {
                continue;
            }
            if nconn[ma][ga] >= 2 || nconn[mb][gb] >= 2 {
                continue;
            }
            let ch = if l[4] != 0 {
                Some(Channel::new(ChannelMetrics {
                    bitrate: msg_len * 8,
                    latency: Duration::from_millis(100),
                    jitter: Duration::ZERO,
                    drop_behaviour: ChannelDropBehaviour::Queue(None),
                }))
            } else {
                None
            };
            let with_channel = ch.is_some();
            gates[ma][ga].clone().connect(gates[mb][gb].clone(), ch);
            if with_channel {
                // the instance for the direction a -> b is stored at a, the other one at b
                meter.channels.extend(Meter::channel_in_slot(&gates[ma][ga], nconn[ma][ga]));
                meter.channels.extend(Meter::channel_in_slot(&gates[mb][gb], nconn[mb][gb]));
            }
            nconn[ma][ga] += 1;
            nconn[mb][gb] += 1;
            pairs.insert(((ma, ga), (mb, gb)));
            pairs.insert(((mb, gb), (ma, ga)));
        }
        let modrefs: Vec<ModuleRef> = paths
            .iter()
            .map(|p| sim.get(&ObjectPath::from(p.as_str())).expect("module"))
            .collect();
        meter.gates = gates.iter().flatten().map(std::sync::Arc::downgrade).collect();
        #[cfg(des_own_counts)]
        {
            meter.probes = modrefs.iter().map(ModuleRef::verif_own_probe).collect();
        }
        // handles the caller keeps: module refs first, then gates (release order of the model)
        let mut held_mods: Vec<ModuleRef> = Vec::new();
        let mut held_gates: Vec<GateRef> = Vec::new();
        if sc.hold {
            held_mods = modrefs.clone();
            held_gates = gates.iter().flatten().cloned().collect();
        }

        if sc.stop == 0 {
            let s = sim.freeze();
            drop(modrefs);
            drop(gates);
            *COUNTS.lock().unwrap() = meter.read(sc.hooked);
            if unwind {
                let _keep = s;
                panic!("drop by unwinding");
            }
            drop(s);
        } else {
            let mut b = Builder::seeded(1).quiet();
            if sc.stop == 2 {
                b = b.max_itr(sc.arg as usize);
            }
            if sc.stop == 3 {
                b = b.max_time(SimTime::from_duration(Duration::from_nanos(sc.arg)));
            }
            let mut rt = b.build(sim.freeze());
            for j in &sc.injs {
                let m = j[1] as usize;
                if m >= modrefs.len() {
                    continue;
                }
                let t = SimTime::from_duration(Duration::from_nanos(j[2]));
                if j[0] % 2 == 1 {
                    if let Some(g) = gates[m].first() {
                        if g.kind() != GateKind::Transit {
                            rt.add_message_onto(g.clone(), fresh_msg(), t);
                        }
                    }
                } else {
                    rt.handle_message_on(modrefs[m].clone(), fresh_msg(), t);
                }
            }
            drop(modrefs);
            drop(gates);
            match sc.stop {
                1 => {
                    nrem.set(rt.num_events_remaining() as u64);
                    time.set(rt.sim_time().as_nanos() as u64);
                    *COUNTS.lock().unwrap() = meter.read(sc.hooked);
                    if unwind {
                        let _keep = rt;
                        panic!("drop by unwinding");
                    }
                    drop(rt);
                }
                5 => {
                    rt.start();
                    rt.dispatch_n_events(sc.arg as usize);
                    nrem.set(rt.num_events_remaining() as u64);
                    time.set(rt.sim_time().as_nanos() as u64);
                    *COUNTS.lock().unwrap() = meter.read(sc.hooked);
                    if unwind {
                        let _keep = rt;
                        panic!("drop by unwinding");
                    }
                    drop(rt);
                }
                _ => match rt.run() {
                    Ok((sim, t, prof)) => {
                        res.set(1);
                        nrem.set(prof.remaining.len() as u64);
                        time.set(t.as_nanos() as u64);
                        *COUNTS.lock().unwrap() = meter.read(sc.hooked);
                        if unwind {
                            // e.g. an assertion on the result fails while it is still alive
                            if sc.order {
                                let _keep = (prof, sim);
                                panic!("drop by unwinding");
                            }
                            let _keep = (sim, prof);
                            panic!("drop by unwinding");
                        }
                        if sc.order {
                            drop(prof);
                            drop(sim);
                        } else {
                            drop(sim);
                            drop(prof);
                        }
                    }
                    Err(e) => {
                        res.set(2);
                        if unwind {
                            let _keep = e;
                            panic!("drop by unwinding");
                        }
                        drop(e);
                    }
                },
            }
        }
        if unwind {
            let _keep = (held_mods, held_gates);
            panic!("drop by unwinding");
        }
        drop(held_mods);
        drop(held_gates);
    };
    if sc.unwind {
        let r = std::panic::catch_unwind(std::panic::AssertUnwindSafe(life));
        assert!(r.is_err(), "the simulation was to be dropped by unwinding");
    } else {
        life();
    }
    let (res, nrem, time) = (res.get(), nrem.get(), time.get());

    // the record
    let d = DROPS.lock().unwrap();
    let mut out = vec![1, res, nrem, time];
    for c in 0..4 {
        out.push(d[c].len() as u64);
    }
    let mut notonce = 0u64;
    let mut alive = 0u64;
    for c in 0..4 {
        out.push(d[c].iter().filter(|&&x| x == 1).count() as u64);
        notonce += d[c].iter().filter(|&&x| x != 1).count() as u64;
        alive += d[c].iter().filter(|&&x| x == 0).count() as u64;
    }
    out.push(notonce);
    out.push(alive);
    // tasks that finish inside one executor turn are reported in capture order
    let mut lg = LOG.lock().unwrap().clone();
    let mut i = 0;
    while i < lg.len() {
        if lg[i][2] == 3 {
            let mut j = i;
            while j < lg.len() && lg[j][2] == 3 && lg[j][0] == lg[i][0] && lg[j][1] == lg[i][1] {
                j += 1;
            }
            lg[i..j].sort();
            i = j;
        } else {
            i += 1;
        }
    }
    out.push(lg.len() as u64);
    for e in lg {
        out.extend(e);
    }
    let cnts = COUNTS.lock().unwrap().clone();
    out.push(cnts.len() as u64);
    out.extend(cnts);
    out
}

fn run_line(nums: &[u64]) -> Vec<u64> {
    let sc = decode(nums);
    #[cfg(not(des_own_counts))]
    if sc.hooked {
        // built against sources without fixes/hook_own_counts.diff
        return vec![777];
    }
    let mut out = run_once(&sc);
    // a second simulation in the same process
    let second = run_once(&sc);
    let (b2, n2) = live_heap();
    // and a third: whatever an execution of this simulation leaves allocated shows as growth
    drop(run_once(&sc));
    let (b3, n3) = live_heap();
    out.extend(second);
    out.push(u64::from(b3 > b2 || n3 > n2));
    out
}
