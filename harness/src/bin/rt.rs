//! Generic runtime (C02, C10, C11): drives the real `Runtime<App>` over the real
//! calendar queue.  Script (see coq/Runtime/Model.v):
//!   n t u start budget cbk cbt  nb {bcall}  K {na {action}}  np {time label}  {sop}
//!     bcall  = 1 n (max_itr) | 2 T (max_time) | 3 tree (limit)
//!     tree   = 0 | 1 n | 2 T | 3 tree tree (And) | 4 tree tree (Or)
//!     action = kind x label   (kind 0: add_event_in(label, x ns); else add_event(label, x ns))
//!     sop    = 1 k (dispatch_n_events) | 2 T (dispatch_events_until) | 3 time label (add_event)
//! Every time (start, limits, delays, absolute times, step arguments) is given in units of u ns
//! (u = 0 means 1) and printed divided by u; n, t are plain nanoseconds.
//! cbk/cbt: "concurrent build" -- when cbk > 0 the handler of the cbk-th dispatched event of each run first spawns a
//! thread that calls `Builder::..start_time(cbt).build(..)` and waits until that thread has reached the simulation
//! lock; on the unchanged crate the thread just blocks there and nothing observable happens.
//! Three runs of the same program are printed one after the other: without a limit
//! (`run()`), with the configured limit (`run()`), and stepped (`start()`, the schedule,
//! `dispatch_all()`, `finish()`) with the configured limit.  Records:
//!   1 | 9 1                         add_event accepted | rejected with a panic
//!   3 dispatched remaining now nadds   after a dispatch_n_events / dispatch_events_until
//!   4 event_count end_time  nlog {label now}  nadds {time label now ctx ok}  nrem {time label}
//! ctx = 0 for a call from outside (before the run / while paused), i for a call inside the
//! handler of the i-th dispatched event.
//! Every add_event / add_event_in (before the run, inside handlers, while paused) runs
//! under catch_unwind and is recorded with `SimTime::now()` read just before the call.
use des::prelude::*;
use des::runtime::{Profiler, RuntimeLimit};
use implrun::Cur;
use std::panic::{catch_unwind, AssertUnwindSafe};

fn main() {
    implrun::run_main(run_line)
}

struct App {
    table: Vec<Vec<(u64, u64, u64)>>,
    budget: u64,
    /// concurrent build: (dispatch number at which another thread calls Builder::build, its start time)
    cb: Option<(u64, u64)>,
    log: Vec<(u64, u64)>,
    adds: Vec<(u64, u64, u64, u64, bool)>,
}

struct Ev {
    label: u64,
}

impl Application for App {
    type EventSet = Ev;
    type Lifecycle = ();
}

/// the script's time unit in ns (set once per script; scripts run one after the other)
static UNIT: std::sync::atomic::AtomicU64 = std::sync::atomic::AtomicU64::new(1);

fn unit() -> u128 {
    UNIT.load(std::sync::atomic::Ordering::Relaxed) as u128
}

/// x units -> Duration (exact, also beyond 2^64 ns)
fn dur(x: u64) -> Duration {
    let ns = x as u128 * unit();
    Duration::new((ns / 1_000_000_000) as u64, (ns % 1_000_000_000) as u32)
}

fn st(x: u64) -> SimTime {
    SimTime::from_duration(dur(x))
}

/// SimTime -> units
fn ns(t: SimTime) -> u64 {
    (t.as_nanos() / unit()) as u64
}

/// `add_event` under catch_unwind, recorded in `app.adds`
fn add_abs(rt: &mut Runtime<App>, time: u64, label: u64, ctx: u64) -> bool {
    let now = ns(SimTime::now());
    let ok = catch_unwind(AssertUnwindSafe(|| rt.add_event(Ev { label }, st(time)))).is_ok();
    rt.app.adds.push((time, label, now, ctx, ok));
    ok
}

/// the thread of the "concurrent build" dimension, joined once the main runtime is gone
static INTRUDER: std::sync::Mutex<Option<std::thread::JoinHandle<()>>> = std::sync::Mutex::new(None);

/// Another thread builds a second runtime while this one is dispatching.  It must block on the
/// simulation lock without touching the process-global clock; we wait until it had ample time to get there.
fn concurrent_build(start: u64) {
    use std::sync::atomic::{AtomicBool, Ordering};
    use std::sync::Arc;
    let reached = Arc::new(AtomicBool::new(false));
    let r2 = reached.clone();
    let h = std::thread::spawn(move || {
        let b = Builder::seeded(2).quiet().start_time(st(start));
        r2.store(true, Ordering::SeqCst);
        let rt = b.build(App { table: Vec::new(), budget: 0, cb: None, log: Vec::new(), adds: Vec::new() });
        drop(rt);
    });
    while !reached.load(Ordering::SeqCst) {
        std::thread::yield_now();
    }
    std::thread::sleep(std::time::Duration::from_millis(3));
    *INTRUDER.lock().unwrap_or_else(|p| p.into_inner()) = Some(h);
}

fn join_intruder() {
    let h = INTRUDER.lock().unwrap_or_else(|p| p.into_inner()).take();
    if let Some(h) = h {
        let _ = h.join();
    }
}

impl Event<App> for Ev {
    fn handle(self, rt: &mut Runtime<App>) {
        if let Some((k, start)) = rt.app.cb {
            if k == rt.num_events_dispatched() as u64 {
                concurrent_build(start);
            }
        }
        let now = ns(SimTime::now());
        rt.app.log.push((self.label, now));
        let ctx = rt.num_events_dispatched() as u64;
        let acts = rt.app.table.get(self.label as usize).cloned().unwrap_or_default();
        for (kind, x, label) in acts {
            if rt.app.budget == 0 {
                break;
            }
            rt.app.budget -= 1;
            if kind == 0 {
                let ok = catch_unwind(AssertUnwindSafe(|| {
                    rt.add_event_in(Ev { label }, dur(x))
                }))
                .is_ok();
                rt.app.adds.push((now + x, label, now, ctx, ok));
            } else {
                add_abs(rt, x, label, ctx);
            }
        }
    }
}

fn dec_lim(c: &mut Cur) -> RuntimeLimit {
    match c.next() {
        1 => RuntimeLimit::EventCount(c.next() as usize),
        2 => RuntimeLimit::SimTime(st(c.next())),
        3 => {
            let a = dec_lim(c);
            let b = dec_lim(c);
            RuntimeLimit::CombinedAnd(Box::new(a), Box::new(b))
        }
        4 => {
            let a = dec_lim(c);
            let b = dec_lim(c);
            RuntimeLimit::CombinedOr(Box::new(a), Box::new(b))
        }
        _ => RuntimeLimit::None,
    }
}

#[derive(Clone)]
enum BCall {
    MaxItr(u64),
    MaxTime(u64),
    Limit(RuntimeLimit),
}

fn dec_counted<T>(c: &mut Cur, mut f: impl FnMut(&mut Cur) -> T) -> Vec<T> {
    let mut k = c.next();
    let mut v = Vec::new();
    while k > 0 && !c.done() {
        v.push(f(c));
        k -= 1;
    }
    v
}

struct Script {
    n: usize,
    t: u64,
    start: u64,
    budget: u64,
    cb: Option<(u64, u64)>,
    calls: Vec<BCall>,
    table: Vec<Vec<(u64, u64, u64)>>,
    pre: Vec<(u64, u64)>,
    sched: Vec<(u64, u64, u64)>,
}

fn build(sc: &Script, limited: bool) -> Runtime<App> {
    let mut b = Builder::seeded(1).quiet().start_time(st(sc.start));
    // without the calendar queue (harness_heap) the event set has no parameters; n and t are ignored
    #[cfg(feature = "cqueue")]
    {
        b = b.cqueue_options(sc.n, Duration::from_nanos(sc.t));
    }
    if limited {
        for c in &sc.calls {
            b = match c {
                BCall::MaxItr(n) => b.max_itr(*n as usize),
                BCall::MaxTime(t) => b.max_time(st(*t)),
                BCall::Limit(l) => b.limit(l.clone()),
            };
        }
    }
    b.build(App { table: sc.table.clone(), budget: sc.budget, cb: sc.cb, log: Vec::new(), adds: Vec::new() })
}

fn fin(res: Result<(App, SimTime, Profiler<Ev>), des::runtime::RuntimeError>, out: &mut Vec<u64>) {
    let (app, time, prof) = match res {
        Ok(x) => x,
        Err(_) => {
            out.extend([6]);
            return;
        }
    };
    out.extend([4, prof.event_count as u64, ns(time)]);
    out.push(app.log.len() as u64);
    for (l, t) in &app.log {
        out.extend([*l, *t]);
    }
    out.push(app.adds.len() as u64);
    for (t, l, now, ctx, ok) in &app.adds {
        out.extend([*t, *l, *now, *ctx, *ok as u64]);
    }
    // canonical form of Profiler::remaining: sorted by (time, label)
    let mut rem: Vec<(u64, u64)> = prof.remaining.iter().map(|(e, t)| (ns(*t), e.label)).collect();
    rem.sort();
    out.push(rem.len() as u64);
    for (t, l) in rem {
        out.extend([t, l]);
    }
}

fn pre_adds(rt: &mut Runtime<App>, sc: &Script, out: &mut Vec<u64>) {
    for (t, l) in &sc.pre {
        if add_abs(rt, *t, *l, 0) {
            out.push(1);
        } else {
            out.extend([9, 1]);
        }
    }
}

fn run_line(nums: &[u64]) -> Vec<u64> {
    if nums.len() < 3 || nums[0] == 0 || nums[1] == 0 {
        return vec![7];
    }
    UNIT.store(if nums[2] == 0 { 1 } else { nums[2] }, std::sync::atomic::Ordering::Relaxed);
    let mut c = Cur::new(&nums[3..]);
    let start = c.next();
    let budget = c.next();
    let (cbk, cbt) = (c.next(), c.next());
    let cb = if cbk > 0 { Some((cbk, cbt)) } else { None };
    let calls = dec_counted(&mut c, |c| match c.next() {
        1 => BCall::MaxItr(c.next()),
        2 => BCall::MaxTime(c.next()),
        _ => BCall::Limit(dec_lim(c)),
    });
    let table = dec_counted(&mut c, |c| dec_counted(c, |c| (c.next(), c.next(), c.next())));
    let pre = dec_counted(&mut c, |c| (c.next(), c.next()));
    let mut sched = Vec::new();
    while !c.done() {
        match c.next() {
            1 => sched.push((1, c.next(), 0)),
            2 => sched.push((2, c.next(), 0)),
            3 => sched.push((3, c.next(), c.next())),
            _ => break,
        }
    }
    let sc = Script { n: nums[0] as usize, t: nums[1], start, budget, cb, calls, table, pre, sched };
    let mut out = Vec::new();

    // (U) no limit, (A) configured limit: Runtime::run()
    for limited in [false, true] {
        let mut rt = build(&sc, limited);
        pre_adds(&mut rt, &sc, &mut out);
        fin(rt.run(), &mut out);
        join_intruder();
    }

    // (B) stepped, configured limit
    let mut rt = build(&sc, true);
    pre_adds(&mut rt, &sc, &mut out);
    rt.start();
    for (kind, a, b) in &sc.sched {
        match kind {
            1 | 2 => {
                if *kind == 1 {
                    rt.dispatch_n_events(*a as usize);
                } else {
                    rt.dispatch_events_until(st(*a));
                }
                out.extend([
                    3,
                    rt.num_events_dispatched() as u64,
                    rt.num_events_remaining() as u64,
                    ns(rt.sim_time()),
                    rt.app.adds.len() as u64,
                ]);
            }
            _ => {
                if add_abs(&mut rt, *a, *b, 0) {
                    out.push(1);
                } else {
                    out.extend([9, 1]);
                }
            }
        }
    }
    rt.dispatch_all();
    fin(rt.finish(), &mut out);
    join_intruder();
    out
}
