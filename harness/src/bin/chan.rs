//! Channels (C07): two modules `a` and `b` joined by `nl` links `a.g{i} <-> b.h{i}`, driven through the
//! public API.  Channel 2i is the forward direction of link i (a sends into g{i}), channel 2i+1 the
//! reverse direction (b sends into h{i}); `Gate::connect` creates both instances from one template.
//!
//! script: `seed nl (brk br lat jit pol lim mode){nl'}  ntx (link len tx)*  norc (c j)*  (t c len)*`
//!   seed: Builder::seeded; nl' = clamp(nl, 1, 3) links, each described by its metrics -- bitrate = br
//!   (brk = 0) | usize::MAX (brk = 1); latency/jitter in ns; pol: 0 Drop | 1 Queue(None) | 2 Queue(Some(lim)) --
//!   and its mode: 0 connected before the run with its own `Channel::new(metrics)`; 1 connected before the run
//!   with a clone of ONE shared template handle (built from the metrics of the first mode-1 link); 2 connected
//!   at run time, inside the handler that first sends on the link (either direction), with `g0.channel()` -- the
//!   live forward channel of link 0 -- as template (link 0 itself: mode 2 = mode 0); 3 | 4 connected before the run
//!   with a handle that has a HISTORY: a tiny prior simulation with the link's metrics is run and stopped by a time
//!   limit while its link is transmitting a header-only message (4: with two more messages offered behind it, queued
//!   under a Queue policy), `gate.channel()` of that link is taken, the prior simulation is dropped completely, and
//!   the handle is moved (not cloned) into `connect` (Channel::dup copies metrics only: the state of a template,
//!   whatever its history, must not matter).  Both instances of a link
//!   get the metrics of its template (Channel::dup);
//!   the tx table and the jitter oracle are inputs of the model only (the table's (link, length) pairs are
//!   answered here with ChannelMetrics::calculate_busy, the oracle is ignored: the real rng draws);
//!   offers: message `m` (script position) of total length max(64, len) is `send`t at time t into channel
//!   c mod 2nl'; consecutive offers with the same time and the same sending module are sent from one
//!   handler invocation (a burst), woken by a `schedule_at` issued in at_sim_start (a's bursts, then b's).
//! output: `7 n (link len calculate_busy(len))*` then, chronologically,
//!   1 c m t            transmission of m started at t on channel c (ChannelProbe::on_message_transmit)
//!   2 c m t            m handled by the receiving module at t
//!   3 c t busy finish pk by   Channel::is_busy / transmission_finish_time / queue size as printed by the
//!                      channel's Debug impl while busy (0 0 when idle) of channel c; taken before and after
//!                      every send into c, after every arrival from c, and for every channel in at_sim_end
//!   4 c m f            fate of the send just issued: 0 started | 1 dropped (Drop) | 2 dropped (queue
//!                      cannot hold it) | 3 queued   (3 iff the queue grew by one packet)
//! a trailing 13 if `run()` returned an error.
//!
//! probe script (nl = 0): `seed 0 brk br lat jit  ntx (len tx)*  nw (hi lo)*` -- no simulation: the public
//!   `ChannelMetrics::calculate_duration(&msg, &mut dyn RngCore)` is called for every listed length with a generator
//!   that returns the word hi * 2^32 + lo for every draw; output `7 n (len calculate_busy)*` and, per length and word,
//!   `5 len hi lo j` with j = duration - latency - calculate_busy (saturating at 0; 2^40 + x if the duration is x
//!   short of latency + calculate_busy).
use des::net::channel::ChannelProbe;
use des::net::message::MessageBody;
use des::prelude::*;
use implrun::Cur;
use std::panic::{catch_unwind, AssertUnwindSafe};
use std::sync::{Arc, Mutex};

fn main() {
    implrun::run_main(run_line)
}

const WAKE: u16 = 1;
const DATA: u16 = 100;
const HDR: u64 = 64;

#[derive(Clone, Debug)]
struct Blob(usize);
impl MessageBody for Blob {
    fn byte_len(&self) -> usize {
        self.0
    }
}

fn data_msg(c: u64, m: u64, len: u64) -> Message {
    let body = (len.max(HDR) - HDR) as usize;
    let msg = Message::default().kind(DATA + c as u16).id(m as u16);
    if body == 0 {
        msg
    } else {
        msg.with_content(Blob(body))
    }
}

/// one burst: (time, side (false = module a), [(channel, msg, len)])
type Burst = (u64, bool, Vec<(u64, u64, u64)>);

#[derive(Default)]
struct Shared {
    bursts: Vec<Burst>,
    /// policy of each link's effective metrics (0 Drop, else Queue)
    pols: Vec<u64>,
    ga: Vec<GateRef>,
    hb: Vec<GateRef>,
    connected: Vec<bool>,
    /// live channel instance per channel index, once its link is connected
    chans: Vec<Option<ChannelRef>>,
    log: Vec<u64>,
    started: u64,
}

type Sh = Arc<Mutex<Shared>>;

fn at(ns: u64) -> SimTime {
    SimTime::from_duration(Duration::from_nanos(ns))
}

fn now_ns() -> u64 {
    SimTime::now().as_nanos() as u64
}

/// `bytes: N, packets: M` of the Debug output (present while busy)
fn queue_of(ch: &ChannelRef) -> (u64, u64) {
    let s = format!("{ch:?}");
    let num = |key: &str| -> u64 {
        s.find(key).map_or(0, |p| {
            s[p + key.len()..]
                .chars()
                .take_while(|c| c.is_ascii_digit())
                .collect::<String>()
                .parse()
                .unwrap_or(0)
        })
    };
    (num("packets: "), num("bytes: "))
}

fn sample(sh: &Sh, c: u64) {
    let ch = sh.lock().unwrap().chans[c as usize].clone();
    let rec = match ch {
        None => [3, c, now_ns(), 0, 0, 0, 0],
        Some(ch) => {
            let busy = ch.is_busy();
            let fin = ch.transmission_finish_time().as_nanos() as u64;
            let (pk, by) = if busy { queue_of(&ch) } else { (0, 0) };
            [3, c, now_ns(), busy as u64, fin, pk, by]
        }
    };
    sh.lock().unwrap().log.extend(rec);
}

struct Probe(u64, Sh);
impl ChannelProbe for Probe {
    fn on_message_transmit(&mut self, _: &ChannelMetrics, msg: &Message) {
        let mut sh = self.1.lock().unwrap();
        sh.started += 1;
        let id = msg.header().id as u64;
        sh.log.extend([1, self.0, id, now_ns()]);
    }
}

/// `g{i}.connect(h{i}, template)`, then look the two instances up and attach the probes.
/// An instance that already serves an earlier channel (the same Arc) keeps its first probe.
fn connect_link(sh: &Sh, i: usize, template: ChannelRef) {
    let (g, h) = {
        let s = sh.lock().unwrap();
        (s.ga[i].clone(), s.hb[i].clone())
    };
    g.clone().connect(h.clone(), Some(template));
    let fwd = g.channel();
    let rev = h.channel();
    for (c, ch) in [(2 * i, fwd), (2 * i + 1, rev)] {
        if let Some(ch) = ch {
            let known = sh.lock().unwrap().chans.iter().flatten().any(|o| Arc::ptr_eq(o, &ch));
            if !known {
                ch.attach_probe(Probe(c as u64, sh.clone()));
            }
            sh.lock().unwrap().chans[c] = Some(ch);
        }
    }
    sh.lock().unwrap().connected[i] = true;
}

struct Node(bool, Sh);
impl Module for Node {
    fn at_sim_start(&mut self, _stage: usize) {
        let times: Vec<(usize, u64)> = {
            let sh = self.1.lock().unwrap();
            sh.bursts.iter().enumerate().filter(|(_, b)| b.1 == self.0).map(|(k, b)| (k, b.0)).collect()
        };
        for (k, t) in times {
            schedule_at(Message::default().kind(WAKE).id(k as u16), at(t));
        }
    }

    fn handle_message(&mut self, msg: Message) {
        let kind = msg.header().kind;
        if kind >= DATA {
            let c = (kind - DATA) as u64;
            let id = msg.header().id as u64;
            self.1.lock().unwrap().log.extend([2, c, id, now_ns()]);
            sample(&self.1, c);
            return;
        }
        if kind != WAKE {
            return;
        }
        let k = msg.header().id as usize;
        let (offs, pols) = {
            let sh = self.1.lock().unwrap();
            (sh.bursts[k].2.clone(), sh.pols.clone())
        };
        for (c, m, len) in offs {
            let link = (c / 2) as usize;
            if !self.1.lock().unwrap().connected[link] {
                // run-time connect: the template is the handle of link 0's live forward channel
                let template = self.1.lock().unwrap().ga[0].channel().unwrap();
                connect_link(&self.1, link, template);
            }
            let ch = self.1.lock().unwrap().chans[c as usize].clone().unwrap();
            sample(&self.1, c);
            let started0 = self.1.lock().unwrap().started;
            let pk0 = if ch.is_busy() { queue_of(&ch).0 } else { 0 };
            let gate = {
                let sh = self.1.lock().unwrap();
                if c % 2 == 0 { sh.ga[link].clone() } else { sh.hb[link].clone() }
            };
            send(data_msg(c, m, len), gate);
            let started1 = self.1.lock().unwrap().started;
            let fate = if started1 != started0 {
                0
            } else if ch.is_busy() && queue_of(&ch).0 == pk0 + 1 {
                3
            } else if pols[link] == 0 {
                1
            } else {
                2
            };
            self.1.lock().unwrap().log.extend([4, c, m, fate]);
            sample(&self.1, c);
        }
    }

    fn at_sim_end(&mut self) -> Result<(), RuntimeError> {
        if !self.0 {
            let n = self.1.lock().unwrap().chans.len() as u64;
            for c in 0..n {
                sample(&self.1, c);
            }
        }
        Ok(())
    }
}

/// module of the prior simulation: the sender offers `1` messages to its port in at_sim_start
struct Prior(u64);
impl Module for Prior {
    fn at_sim_start(&mut self, _stage: usize) {
        for i in 0..self.0 {
            send(Message::default().id(i as u16), "port");
        }
    }
    fn handle_message(&mut self, _msg: Message) {}
}

/// A channel handle with a history: the forward channel of a link of a simulation that was stopped by a time
/// limit in the middle of a transmission and then dropped completely.
fn handle_with_history(seed: u64, metrics: ChannelMetrics, backlog: bool) -> ChannelRef {
    let tx = metrics.calculate_busy(&Message::default()).as_nanos() as u64;
    let mut sim = Sim::new(());
    sim.node("p", Prior(if backlog { 3 } else { 1 }));
    sim.node("q", Prior(0));
    let gp = sim.gate("p", "port");
    let gq = sim.gate("q", "port");
    gp.clone().connect(gq, Some(Channel::new(metrics)));
    let handle = gp.channel().expect("link has a channel");
    drop(gp);
    let mut builder = Builder::seeded(seed).quiet().max_time(at(tx.saturating_sub(1)));
    if tx / 4 > 2_500_000 {
        builder = builder.cqueue_options(1028, Duration::from_nanos(tx / 4));
    }
    let res = catch_unwind(AssertUnwindSafe(|| builder.build(sim.freeze()).run()));
    std::panic::set_hook(Box::new(|_| {}));
    drop(res);
    handle
}

fn metrics_of(brk: u64, br: u64, lat: u64, jit: u64, pol: u64, lim: u64) -> ChannelMetrics {
    ChannelMetrics {
        bitrate: if brk == 1 { usize::MAX } else { br as usize },
        latency: Duration::from_nanos(lat),
        jitter: Duration::from_nanos(jit),
        drop_behaviour: match pol {
            0 => ChannelDropBehaviour::Drop,
            1 => ChannelDropBehaviour::Queue(None),
            _ => ChannelDropBehaviour::Queue(Some(lim as usize)),
        },
    }
}

/// a generator whose every draw is one fixed word
struct Fixed(u64);
impl rand::RngCore for Fixed {
    fn next_u32(&mut self) -> u32 {
        (self.0 >> 32) as u32
    }
    fn next_u64(&mut self) -> u64 {
        self.0
    }
    fn fill_bytes(&mut self, dst: &mut [u8]) {
        let b = self.0.to_le_bytes();
        for (i, d) in dst.iter_mut().enumerate() {
            *d = b[i % 8];
        }
    }
}

fn probe_line(nums: &[u64]) -> Vec<u64> {
    let mut cur = Cur::new(&nums[2..]);
    let (brk, br, lat, jit) = (cur.next(), cur.next(), cur.next(), cur.next());
    let metrics = metrics_of(brk, br, lat, jit, 0, 0);
    let tb = cur.take_lp();
    let wb = cur.take_lp();
    let lens: Vec<u64> = tb.chunks(2).filter(|p| p.len() == 2).map(|p| p[0]).collect();
    let words: Vec<(u64, u64)> = wb.chunks(2).filter(|p| p.len() == 2).map(|p| (p[0], p[1])).collect();
    let mut out: Vec<u64> = vec![7, lens.len() as u64];
    for l in &lens {
        out.push(*l);
        out.push(metrics.calculate_busy(&data_msg(0, 0, *l)).as_nanos() as u64);
    }
    for l in &lens {
        let msg = data_msg(0, 0, *l);
        let base = (metrics.latency + metrics.calculate_busy(&msg)).as_nanos() as u64;
        for (hi, lo) in &words {
            let mut rng = Fixed((hi << 32).wrapping_add(*lo));
            let d = metrics.calculate_duration(&msg, &mut rng).as_nanos() as u64;
            let j = if d >= base { d - base } else { (1 << 40) + (base - d) };
            out.extend([5, *l, *hi, *lo, j]);
        }
    }
    out
}

fn run_line(nums: &[u64]) -> Vec<u64> {
    if nums.len() < 2 {
        return vec![8];
    }
    if nums[1] == 0 {
        return probe_line(nums);
    }
    let mut cur = Cur::new(nums);
    let seed = cur.next();
    let nl = cur.next().clamp(1, 3) as usize;
    let mut own: Vec<ChannelMetrics> = Vec::new();
    let mut own_pol: Vec<u64> = Vec::new();
    let mut modes: Vec<u64> = Vec::new();
    for _ in 0..nl {
        let (brk, br, lat, jit, pol, lim, mode) =
            (cur.next(), cur.next(), cur.next(), cur.next(), cur.next(), cur.next(), cur.next());
        own.push(metrics_of(brk, br, lat, jit, pol, lim));
        own_pol.push(pol);
        modes.push(mode);
    }
    // the metrics both instances of link i end up with: those of the template it is connected with
    let first_shared = modes.iter().position(|m| *m == 1);
    let eff_idx: Vec<usize> = (0..nl)
        .map(|i| match modes[i] {
            1 => first_shared.unwrap_or(i),
            2 if i != 0 => 0,
            _ => i,
        })
        .collect();
    let eff: Vec<ChannelMetrics> = eff_idx.iter().map(|j| own[*j]).collect();
    let pols: Vec<u64> = eff_idx.iter().map(|j| own_pol[*j]).collect();
    if modes[0] == 2 {
        modes[0] = 0;
    }
    let tb = cur.take_lp();
    let _oracle = cur.take_lp();
    let k = 2 * nl as u64;
    let mut offers: Vec<(u64, u64, u64)> = Vec::new();
    while cur.left() >= 3 {
        let t = cur.next();
        let c = cur.next() % k;
        let len = cur.next().max(HDR);
        offers.push((t, c, len));
    }
    // consecutive offers with the same time and the same sending module form one burst
    let mut grouped: Vec<Burst> = Vec::new();
    for (m, (t, c, len)) in offers.iter().enumerate() {
        let side = c % 2 == 1;
        match grouped.last_mut() {
            Some(b) if b.0 == *t && b.1 == side => b.2.push((*c, m as u64, *len)),
            _ => grouped.push((*t, side, vec![(*c, m as u64, *len)])),
        }
    }
    // module a schedules its wake-ups first, then module b: burst indices follow that order
    let mut bursts: Vec<Burst> = grouped.iter().filter(|b| !b.1).cloned().collect();
    bursts.extend(grouped.iter().filter(|b| b.1).cloned());

    let horizon: u64 = offers.iter().map(|o| o.0).max().unwrap_or(0)
        + offers
            .iter()
            .map(|o| eff[(o.1 / 2) as usize].calculate_busy(&data_msg(0, 0, o.2)).as_nanos() as u64)
            .sum::<u64>()
        + eff.iter().map(|m| (m.latency + m.jitter).as_nanos() as u64).max().unwrap_or(0);
    let mut out: Vec<u64> = vec![7, (tb.len() / 3) as u64];
    for p in tb.chunks(3) {
        if p.len() == 3 {
            let busy = match eff.get(p[0] as usize) {
                Some(m) => m.calculate_busy(&data_msg(0, 0, p[1])).as_nanos() as u64,
                None => 0,
            };
            out.extend([p[0], p[1], busy]);
        }
    }

    // templates with a history come from prior simulations that are gone before the scripted one is built
    let mut histories: Vec<Option<ChannelRef>> = modes
        .iter()
        .enumerate()
        .map(|(i, m)| match m {
            3 | 4 => Some(handle_with_history(seed, own[i], *m == 4)),
            _ => None,
        })
        .collect();

    let sh: Sh = Arc::new(Mutex::new(Shared::default()));
    let mut sim = Sim::new(());
    sim.node("a", Node(false, sh.clone()));
    sim.node("b", Node(true, sh.clone()));
    {
        let mut s = sh.lock().unwrap();
        for i in 0..nl {
            s.ga.push(sim.gate("a", &format!("g{i}")));
            s.hb.push(sim.gate("b", &format!("h{i}")));
        }
        s.connected = vec![false; nl];
        s.chans = vec![None; 2 * nl];
        s.bursts = bursts;
        s.pols = pols;
    }
    let shared_template = first_shared.map(|j| Channel::new(own[j]));
    for (i, mode) in modes.iter().enumerate() {
        match mode {
            1 => connect_link(&sh, i, shared_template.clone().unwrap()),
            2 => {}
            3 | 4 => connect_link(&sh, i, histories[i].take().unwrap()),
            _ => connect_link(&sh, i, Channel::new(own[i])),
        }
    }
    drop(shared_template);
    // The calendar queue scans bucket by bucket (default width 2.5 ms): keep the number of buckets a run
    // walks over bounded by widening them for long horizons (C01: results do not depend on (n, t)).
    let mut builder = Builder::seeded(seed).quiet();
    let width = horizon / 2048;
    if width > 2_500_000 {
        builder = builder.cqueue_options(1028, Duration::from_nanos(width));
    }
    let rt = builder.build(sim.freeze());
    let res = catch_unwind(AssertUnwindSafe(|| rt.run()));
    std::panic::set_hook(Box::new(|_| {}));
    let mut s = sh.lock().unwrap();
    out.extend(std::mem::take(&mut s.log));
    s.chans.clear();
    s.ga.clear();
    s.hb.clear();
    s.bursts.clear();
    match res {
        Ok(Ok(_)) => {}
        Ok(Err(_)) => out.push(13),
        Err(_) => out.push(666),
    }
    out
}
