//! Channels (C07): two modules `tx` and `rx`, `tx.out --channel--> rx.in`, driven through the public API.
//!
//! script: `seed brk br lat jit pol lim  ntx (len tx)*  norc j*  (t len)*`
//!   seed: Builder::seeded; bitrate = br (brk = 0) | usize::MAX (brk = 1); latency/jitter in ns;
//!   pol: 0 Drop | 1 Queue(None) | 2 Queue(Some(lim));
//!   the tx table and the jitter oracle are inputs of the model only (the table's lengths are
//!   answered here with ChannelMetrics::calculate_busy, the oracle is ignored: the real rng draws);
//!   offers: message `m` (script position) of total length max(64, len) is `send`t at time t;
//!   consecutive offers with the same time are sent from one handler invocation (a burst), woken by
//!   a `schedule_at` issued in at_sim_start.
//! output: `7 n (len calculate_busy(len))*` then, chronologically,
//!   1 m t              transmission of m started at t (ChannelProbe::on_message_transmit)
//!   2 m t              m handled by the receiver at t
//!   3 t busy finish pk by   Channel::is_busy / transmission_finish_time / queue size as printed by
//!                      the channel's Debug impl while busy (0 0 when idle); taken on entry of a sender
//!                      handler, after every send, after every arrival, and in at_sim_end
//!   4 m f              fate of the send just issued: 0 started | 1 dropped (Drop) | 2 dropped (queue
//!                      cannot hold it) | 3 queued   (3 iff the queue grew by one packet)
//! a trailing 13 if `run()` returned an error.
use des::net::channel::ChannelProbe;
use des::net::message::MessageBody;
use des::prelude::*;
use implrun::Cur;
use std::panic::{catch_unwind, AssertUnwindSafe};
use std::sync::{Arc, Mutex};

fn main() {
    implrun::run_main(run_line)
}

const WAKE: u16 = 1;
const DATA: u16 = 2;
const HDR: u64 = 64;

#[derive(Clone, Debug)]
struct Blob(usize);
impl MessageBody for Blob {
    fn byte_len(&self) -> usize {
        self.0
    }
}

fn data_msg(m: u64, len: u64) -> Message {
    let body = (len.max(HDR) - HDR) as usize;
    let msg = Message::default().kind(DATA).id(m as u16);
    if body == 0 {
        msg
    } else {
        msg.with_content(Blob(body))
    }
}

#[derive(Default)]
struct Shared {
    bursts: Vec<(u64, Vec<(u64, u64)>)>,
    chan: Option<ChannelRef>,
    pol: u64,
    log: Vec<u64>,
    started: u64,
}

type Sh = Arc<Mutex<Shared>>;

fn at(ns: u64) -> SimTime {
    SimTime::from_duration(Duration::from_nanos(ns))
}

fn now_ns() -> u64 {
    SimTime::now().as_nanos() as u64
}

/// `bytes: N, packets: M` of the Debug output (present while busy)
fn queue_of(ch: &ChannelRef) -> (u64, u64) {
    let s = format!("{ch:?}");
    let num = |key: &str| -> u64 {
        s.find(key).map_or(0, |p| {
            s[p + key.len()..]
                .chars()
                .take_while(|c| c.is_ascii_digit())
                .collect::<String>()
                .parse()
                .unwrap_or(0)
        })
    };
    (num("packets: "), num("bytes: "))
}

fn sample(sh: &Sh) {
    let ch = sh.lock().unwrap().chan.clone().unwrap();
    let busy = ch.is_busy();
    let fin = ch.transmission_finish_time().as_nanos() as u64;
    let (pk, by) = if busy { queue_of(&ch) } else { (0, 0) };
    sh.lock().unwrap().log.extend([3, now_ns(), busy as u64, fin, pk, by]);
}

struct Probe(Sh);
impl ChannelProbe for Probe {
    fn on_message_transmit(&mut self, _: &ChannelMetrics, msg: &Message) {
        let mut sh = self.0.lock().unwrap();
        sh.started += 1;
        let id = msg.header().id as u64;
        sh.log.extend([1, id, now_ns()]);
    }
}

struct Sender(Sh);
impl Module for Sender {
    fn at_sim_start(&mut self, _stage: usize) {
        let (ch, times): (ChannelRef, Vec<u64>) = {
            let sh = self.0.lock().unwrap();
            (sh.chan.clone().unwrap(), sh.bursts.iter().map(|b| b.0).collect())
        };
        ch.attach_probe(Probe(self.0.clone()));
        for (k, t) in times.iter().enumerate() {
            schedule_at(Message::default().kind(WAKE).id(k as u16), at(*t));
        }
    }

    fn handle_message(&mut self, msg: Message) {
        if msg.header().kind != WAKE {
            return;
        }
        let k = msg.header().id as usize;
        let (ch, offs, pol) = {
            let sh = self.0.lock().unwrap();
            (sh.chan.clone().unwrap(), sh.bursts[k].1.clone(), sh.pol)
        };
        sample(&self.0);
        for (m, len) in offs {
            let started0 = self.0.lock().unwrap().started;
            let pk0 = if ch.is_busy() { queue_of(&ch).0 } else { 0 };
            send(data_msg(m, len), "out");
            let started1 = self.0.lock().unwrap().started;
            let fate = if started1 != started0 {
                0
            } else if ch.is_busy() && queue_of(&ch).0 == pk0 + 1 {
                3
            } else if pol == 0 {
                1
            } else {
                2
            };
            self.0.lock().unwrap().log.extend([4, m, fate]);
            sample(&self.0);
        }
    }

    fn at_sim_end(&mut self) -> Result<(), RuntimeError> {
        sample(&self.0);
        Ok(())
    }
}

struct Receiver(Sh);
impl Module for Receiver {
    fn handle_message(&mut self, msg: Message) {
        let id = msg.header().id as u64;
        self.0.lock().unwrap().log.extend([2, id, now_ns()]);
        sample(&self.0);
    }
}

fn run_line(nums: &[u64]) -> Vec<u64> {
    if nums.len() < 7 {
        return vec![8];
    }
    let mut cur = Cur::new(nums);
    let seed = cur.next();
    let brk = cur.next();
    let br = cur.next();
    let lat = cur.next();
    let jit = cur.next();
    let pol = cur.next();
    let lim = cur.next();
    let tb = cur.take_lp();
    let _oracle = cur.take_lp();
    let mut offers: Vec<(u64, u64)> = Vec::new();
    while cur.left() >= 2 {
        let t = cur.next();
        let len = cur.next().max(HDR);
        offers.push((t, len));
    }
    // consecutive offers with the same time form one burst
    let mut bursts: Vec<(u64, Vec<(u64, u64)>)> = Vec::new();
    for (m, (t, len)) in offers.iter().enumerate() {
        match bursts.last_mut() {
            Some(b) if b.0 == *t => b.1.push((m as u64, *len)),
            _ => bursts.push((*t, vec![(m as u64, *len)])),
        }
    }

    let metrics = ChannelMetrics {
        bitrate: if brk == 1 { usize::MAX } else { br as usize },
        latency: Duration::from_nanos(lat),
        jitter: Duration::from_nanos(jit),
        drop_behaviour: match pol {
            0 => ChannelDropBehaviour::Drop,
            1 => ChannelDropBehaviour::Queue(None),
            _ => ChannelDropBehaviour::Queue(Some(lim as usize)),
        },
    };

    let horizon: u64 = offers.iter().map(|o| o.0).max().unwrap_or(0)
        + offers
            .iter()
            .map(|o| metrics.calculate_busy(&data_msg(0, o.1)).as_nanos() as u64)
            .sum::<u64>()
        + lat
        + jit;
    let mut out: Vec<u64> = vec![7, (tb.len() / 2) as u64];
    for p in tb.chunks(2) {
        if p.len() == 2 {
            out.push(p[0]);
            out.push(metrics.calculate_busy(&data_msg(0, p[0])).as_nanos() as u64);
        }
    }

    let sh: Sh = Arc::new(Mutex::new(Shared::default()));
    let mut sim = Sim::new(());
    sim.node("tx", Sender(sh.clone()));
    sim.node("rx", Receiver(sh.clone()));
    let g_out = sim.gate("tx", "out");
    let g_in = sim.gate("rx", "in");
    g_out.clone().connect(g_in, Some(Channel::new(metrics)));
    {
        let mut s = sh.lock().unwrap();
        s.chan = g_out.channel();
        s.bursts = bursts;
        s.pol = pol;
    }
    drop(g_out);

    // The calendar queue scans bucket by bucket (default width 2.5 ms): keep the number of buckets a run
    // walks over bounded by widening them for long horizons (C01: results do not depend on (n, t)).
    let mut builder = Builder::seeded(seed).quiet();
    let width = horizon / 2048;
    if width > 2_500_000 {
        builder = builder.cqueue_options(1028, Duration::from_nanos(width));
    }
    let rt = builder.build(sim.freeze());
    let res = catch_unwind(AssertUnwindSafe(|| rt.run()));
    std::panic::set_hook(Box::new(|_| {}));
    let mut s = sh.lock().unwrap();
    out.extend(std::mem::take(&mut s.log));
    s.chan = None;
    s.bursts.clear();
    match res {
        Ok(Ok(_)) => {}
        Ok(Err(_)) => out.push(13),
        Err(_) => out.push(666),
    }
    out
}
