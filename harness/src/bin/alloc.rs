//! Page allocator of the calendar queue (C15).  Addresses are printed as `page-index offset`
//! relative to the pages the run itself acquired (999999 addr = outside every page).
//!
//! mode 0: `0` -> constants `0 nsz nal syspage (ptype payload_size node_size node_align hasdrop)*`
//!
//! mode 1: `1 page nsz nal op*` drives `CQueueLLAllocatorInner::with_page_size(page)` directly;
//!   op = 1 size align (allocate) | 2 k (deallocate the k-th live block, k mod #live) | 3 (dump).
//!   Output: alloc -> 1 pg off size align npages allocated_mem nfree | Err -> 3 | free -> 2 pg off size npages mem nfree |
//!   nothing live -> 4 | invalid layout -> 6 | dump -> 5 nfree (pg off size)* nlive (pg off size)* |
//!   8 = the observer's watchdog stopped an allocate call that had added more than FUEL pages (script ends).
//!
//! mode 2: `2 ptype hasdrop page nsz nal nsize nalign n t op*` drives the public `CQueue<P>` API;
//!   op = 1 dt (add at time()+dt, payload id = number of adds so far) | 2 k (cancel k-th handle) | 3 (fetch).
//!   Records: new -> 20 EVS TAIL | add -> 1 EVS TAIL D | cancel -> 5 EVS TAIL D | fetch -> 2 id time ok EVS TAIL D |
//!   fetch on empty -> 9 | drop of the queue (always last) -> 10 EVS shadow_mem shadow_live D 11 drops_ok safe paired
//!   EVS = k (kind pg off)*, kind 1 alloc 2 free; TAIL = allocated_mem npages links_ok len;
//!   D = 0 | k id* (sorted ids whose destructor ran during the call; 0 for types without Drop);
//!   drops_ok = every payload's destructor ran exactly once; safe = the shadow map saw no overlap / foreign release;
//!   paired = every block was released before the allocator went away.
use des_cqueue::verif::{set_alloc_observer, AllocEvent, CQueueLLAllocatorInner};
use des_cqueue::{CQueue, EventHandle};
use implrun::Cur;
use std::alloc::Layout;
use std::cell::RefCell;
use std::collections::BTreeMap;
use std::panic::{catch_unwind, AssertUnwindSafe};
use std::ptr::NonNull;
use std::rc::Rc;
use std::time::Duration;

/// Same bound as `FUEL` in coq/Alloc/Model.v.
const FUEL: usize = 4;
/// Under Miri (thorough tier, supporting evidence) the inspection hooks are not called: only the
/// crate's own pointer accesses are checked, and the output is not compared with the model.
const MIRI: bool = cfg!(miri);

fn main() {
    implrun::run_main(run_line)
}

// ------------------------------------------------------------------ observer
#[derive(Default)]
struct Obs {
    events: Vec<AllocEvent>,
    pages: Vec<(usize, usize)>,
    pages_this_call: usize,
    /// shadow map of live blocks: addr -> size
    shadow: BTreeMap<usize, usize>,
    /// allocation handed out twice / release of something not live / overlap
    shadow_bad: bool,
    oracle_bad: bool,
}

impl Obs {
    fn loc(&self, addr: usize) -> [u64; 2] {
        for (i, (b, l)) in self.pages.iter().enumerate() {
            if *b <= addr && addr < b + l {
                return [i as u64, (addr - b) as u64];
            }
        }
        [999_999, addr as u64]
    }
}

fn install() -> Rc<RefCell<Obs>> {
    let obs = Rc::new(RefCell::new(Obs::default()));
    let o2 = obs.clone();
    set_alloc_observer(Some(Box::new(move |e| {
        let mut o = o2.borrow_mut();
        o.events.push(e);
        match e {
            AllocEvent::Page { addr, len } => {
                if len == 0 || addr % len != 0 || o.pages.iter().any(|(b, l)| addr < b + l && *b < addr + len) {
                    o.oracle_bad = true;
                }
                o.pages.push((addr, len));
                o.pages_this_call += 1;
                if o.pages_this_call > FUEL {
                    drop(o);
                    panic!("watchdog: allocate keeps adding pages");
                }
            }
            AllocEvent::Alloc { addr, size, .. } => {
                let before = o.shadow.range(..=addr).next_back().map(|(a, s)| a + s > addr).unwrap_or(false);
                let after = o.shadow.range(addr..).next().map(|(a, _)| *a < addr + size).unwrap_or(false);
                if before || after {
                    o.shadow_bad = true;
                }
                o.shadow.insert(addr, size);
                // the watchdog bounds the pages added by ONE allocate call
                o.pages_this_call = 0;
            }
            AllocEvent::Free { addr, size } => {
                if o.shadow.remove(&addr) != Some(size) {
                    o.shadow_bad = true;
                }
            }
        }
    })));
    obs
}

struct Uninstall;
impl Drop for Uninstall {
    fn drop(&mut self) {
        set_alloc_observer(None);
    }
}

/// (size_of ListNode, align_of ListNode): the alignment is what a 1-byte-aligned request is raised to
fn node_consts() -> (u64, u64) {
    let obs = install();
    let _u = Uninstall;
    let mut inner = Box::new(CQueueLLAllocatorInner::with_page_size(4096));
    let mut h = inner.handle();
    let l = Layout::from_size_align(1, 1).unwrap();
    let p = h.allocate(l).unwrap();
    unsafe { h.deallocate(NonNull::new(p).unwrap(), l) };
    let al = obs
        .borrow()
        .events
        .iter()
        .find_map(|e| if let AllocEvent::Alloc { align, .. } = e { Some(*align) } else { None })
        .unwrap();
    (CQueueLLAllocatorInner::verif_node_size() as u64, al as u64)
}

// ------------------------------------------------------------------ mode 1
fn run_alloc(c: &mut Cur) -> Vec<u64> {
    let page = c.next();
    let nsz = c.next();
    let nal = c.next();
    if nsz == 0 || !nal.is_power_of_two() {
        return vec![7];
    }
    if !page.is_power_of_two() || page < nsz {
        return vec![7];
    }
    let (rsz, ral) = node_consts();
    if (rsz, ral) != (nsz, nal) {
        return vec![7, 7, rsz, ral];
    }
    let obs = install();
    let _u = Uninstall;
    let mut inner = Box::new(CQueueLLAllocatorInner::with_page_size(page as usize));
    let mut h = inner.handle();
    let mut live: Vec<(*mut u8, Layout, usize)> = Vec::new();
    let mut out = Vec::new();
    #[allow(clippy::borrowed_box)]
    let tail = |inner: &Box<CQueueLLAllocatorInner>, obs: &Rc<RefCell<Obs>>, out: &mut Vec<u64>| {
        out.push(obs.borrow().pages.len() as u64);
        if MIRI {
            // reading the allocator through `&inner` while a handle (raw pointer) is in use is itself an
            // aliasing-model violation; the Miri run checks the allocator's own accesses only
            out.extend([0, 0]);
            return;
        }
        out.push(inner.verif_allocated_mem() as u64);
        out.push(inner.verif_free_list().len() as u64);
    };
    while !c.done() {
        match c.peek() {
            Some(1) if c.left() >= 3 => {
                c.next();
                let size = c.next() as usize;
                let align = c.next() as usize;
                let Ok(l) = Layout::from_size_align(size, align) else {
                    out.push(6);
                    continue;
                };
                let mark = obs.borrow().events.len();
                obs.borrow_mut().pages_this_call = 0;
                match catch_unwind(AssertUnwindSafe(|| h.allocate(l))) {
                    Err(_) => {
                        let wd = obs.borrow().pages_this_call > FUEL;
                        out.push(if wd { 8 } else { 9 });
                        break;
                    }
                    Ok(Err(())) => out.push(3),
                    Ok(Ok(p)) => {
                        let o = obs.borrow();
                        let ev = o.events[mark..].iter().find_map(|e| match e {
                            AllocEvent::Alloc { addr, size, align, requested_size, requested_align } => {
                                Some((*addr, *size, *align, *requested_size, *requested_align))
                            }
                            _ => None,
                        });
                        let (addr, asz, aal, rs, ra) = ev.expect("allocate reported no event");
                        assert!(addr == p as usize && rs == size && ra == align, "event does not describe the call");
                        // the block must be usable: write all of it (Miri checks this access)
                        unsafe { std::ptr::write_bytes(p, 0xA5, size) };
                        out.push(1);
                        out.extend(o.loc(addr));
                        out.extend([asz as u64, aal as u64]);
                        drop(o);
                        tail(&inner, &obs, &mut out);
                        live.push((p, l, asz));
                    }
                }
            }
            Some(2) if c.left() >= 2 => {
                c.next();
                let k = c.next();
                if live.is_empty() {
                    out.push(4);
                    continue;
                }
                let (p, l, _) = live.remove((k % live.len() as u64) as usize);
                let mark = obs.borrow().events.len();
                match catch_unwind(AssertUnwindSafe(|| unsafe { h.deallocate(NonNull::new(p).unwrap(), l) })) {
                    Err(_) => {
                        out.push(9);
                        break;
                    }
                    Ok(()) => {
                        let o = obs.borrow();
                        let ev = o.events[mark..].iter().find_map(|e| match e {
                            AllocEvent::Free { addr, size } => Some((*addr, *size)),
                            _ => None,
                        });
                        let (addr, sz) = ev.expect("deallocate reported no event");
                        assert!(addr == p as usize);
                        out.push(2);
                        out.extend(o.loc(addr));
                        out.push(sz as u64);
                        drop(o);
                        tail(&inner, &obs, &mut out);
                    }
                }
            }
            Some(3) => {
                c.next();
                let o = obs.borrow();
                let fl = if MIRI { Vec::new() } else { inner.verif_free_list() };
                out.extend([5, fl.len() as u64]);
                for (a, s) in fl {
                    out.extend(o.loc(a));
                    out.push(s as u64);
                }
                out.push(live.len() as u64);
                for (p, _, s) in &live {
                    out.extend(o.loc(*p as usize));
                    out.push(*s as u64);
                }
            }
            _ => break,
        }
    }
    if obs.borrow().oracle_bad {
        out.extend([7, 8]);
    }
    if obs.borrow().shadow_bad {
        out.extend([7, 9]);
    }
    drop(inner);
    out
}

// ------------------------------------------------------------------ mode 2: payload types
thread_local! {
    static DROPS: RefCell<Vec<u64>> = const { RefCell::new(Vec::new()) };
}
fn dropped(id: u64) {
    DROPS.with(|d| d.borrow_mut().push(id));
}
fn take_drops() -> Vec<u64> {
    let mut v = DROPS.with(|d| std::mem::take(&mut *d.borrow_mut()));
    v.sort_unstable();
    v
}
fn pat(id: u64, i: usize) -> u8 {
    (id.wrapping_mul(31).wrapping_add(i as u64 * 7).wrapping_add(3) & 0xff) as u8
}

trait Payload: Sized + 'static {
    const HAS_DROP: bool;
    fn make(id: u64) -> Self;
    /// the id stored in the payload (modulo what fits)
    fn pid(&self) -> u64;
    /// every byte is what `make(id)` put there
    fn check(&self, id: u64) -> bool;
}

impl Payload for u8 {
    const HAS_DROP: bool = false;
    fn make(id: u64) -> Self { id as u8 }
    fn pid(&self) -> u64 { *self as u64 }
    fn check(&self, id: u64) -> bool { *self == id as u8 }
}
impl Payload for u64 {
    const HAS_DROP: bool = false;
    fn make(id: u64) -> Self { id }
    fn pid(&self) -> u64 { *self }
    fn check(&self, id: u64) -> bool { *self == id }
}

struct D1(u8);
impl Drop for D1 {
    fn drop(&mut self) { dropped(self.0 as u64) }
}
impl Payload for D1 {
    const HAS_DROP: bool = true;
    fn make(id: u64) -> Self { D1(id as u8) }
    fn pid(&self) -> u64 { self.0 as u64 }
    fn check(&self, id: u64) -> bool { self.0 == id as u8 }
}

struct D24 { id: u64, a: u64, b: u64 }
impl Drop for D24 {
    fn drop(&mut self) { dropped(self.id) }
}
impl Payload for D24 {
    const HAS_DROP: bool = true;
    fn make(id: u64) -> Self { D24 { id, a: !id, b: id.wrapping_mul(0x9E37_79B9_7F4A_7C15) } }
    fn pid(&self) -> u64 { self.id }
    fn check(&self, id: u64) -> bool { self.id == id && self.a == !id && self.b == id.wrapping_mul(0x9E37_79B9_7F4A_7C15) }
}

macro_rules! bytes_payload {
    ($name:ident, $n:expr, $drop:expr $(, #[$attr:meta])?) => {
        $(#[$attr])?
        struct $name { id: u64, bytes: [u8; $n] }
        impl Payload for $name {
            const HAS_DROP: bool = $drop;
            fn make(id: u64) -> Self {
                let mut bytes = [0u8; $n];
                for (i, b) in bytes.iter_mut().enumerate() { *b = pat(id, i); }
                $name { id, bytes }
            }
            fn pid(&self) -> u64 { self.id }
            fn check(&self, id: u64) -> bool {
                self.id == id && self.bytes.iter().enumerate().all(|(i, b)| *b == pat(id, i))
            }
        }
    };
}
bytes_payload!(B256, 248, true);
bytes_payload!(B1K, 1000, true);
bytes_payload!(B2K, 2040, true);
bytes_payload!(A16, 1, true, #[repr(align(16))]);
bytes_payload!(A16N, 100, false, #[repr(align(16))]);
impl Drop for B256 { fn drop(&mut self) { dropped(self.id) } }
impl Drop for B1K { fn drop(&mut self) { dropped(self.id) } }
impl Drop for B2K { fn drop(&mut self) { dropped(self.id) } }
impl Drop for A16 { fn drop(&mut self) { dropped(self.id) } }

const NPTYPES: u64 = 9;

fn enc_evs(obs: &Rc<RefCell<Obs>>, mark: usize, out: &mut Vec<u64>) {
    let o = obs.borrow();
    let evs: Vec<(u64, usize)> = o.events[mark..]
        .iter()
        .filter_map(|e| match e {
            AllocEvent::Alloc { addr, .. } => Some((1, *addr)),
            AllocEvent::Free { addr, .. } => Some((2, *addr)),
            AllocEvent::Page { .. } => None,
        })
        .collect();
    out.push(evs.len() as u64);
    for (k, a) in evs {
        out.push(k);
        out.extend(o.loc(a));
    }
}

fn enc_drops<P: Payload>(out: &mut Vec<u64>, tally: &mut BTreeMap<u64, u32>) {
    let d = take_drops();
    for id in &d {
        *tally.entry(*id).or_insert(0) += 1;
    }
    if P::HAS_DROP {
        out.push(d.len() as u64);
        out.extend(d);
    } else {
        out.push(0);
    }
}

fn run_queue<P: Payload>(c: &mut Cur, probe: bool) -> Vec<u64> {
    let hasdrop = c.next() != 0;
    let page = c.next();
    let nsz = c.next();
    let nal = c.next();
    let nsize = c.next();
    let nalign = c.next();
    let n = c.next();
    let t = c.next();
    if !probe {
        if nsz == 0 || !nal.is_power_of_two() || !nalign.is_power_of_two() {
            return vec![7];
        }
        if !page.is_power_of_two() || page < nsz || n == 0 || t == 0 {
            return vec![7];
        }
        let (rsz, ral) = node_consts();
        if (rsz, ral) != (nsz, nal) || hasdrop != P::HAS_DROP {
            return vec![7, 7, rsz, ral, P::HAS_DROP as u64];
        }
    }
    take_drops();
    let obs = install();
    let _u = Uninstall;
    let mut out = Vec::new();
    let mut tally: BTreeMap<u64, u32> = BTreeMap::new();
    let tail = |q: &CQueue<P>, obs: &Rc<RefCell<Obs>>, out: &mut Vec<u64>| {
        out.push(if MIRI { 0 } else { q.verif_alloc().verif_allocated_mem() as u64 });
        out.push(obs.borrow().pages.len() as u64);
        out.push(if MIRI { 1 } else { q.verif_snapshot().links_ok as u64 });
        out.push(q.len() as u64);
    };
    obs.borrow_mut().pages_this_call = 0;
    let q = catch_unwind(AssertUnwindSafe(|| CQueue::<P>::new(n as usize, Duration::from_nanos(t))));
    let Ok(mut q) = q else { return vec![8] };
    {
        // the declared constants must be those of the run
        let o = obs.borrow();
        let pg = o.pages.first().map(|p| p.1 as u64).unwrap_or(0);
        let first = o.events.iter().find_map(|e| match e {
            AllocEvent::Alloc { requested_size, requested_align, .. } => Some((*requested_size as u64, *requested_align as u64)),
            _ => None,
        });
        let (rs, ra) = first.unwrap_or((0, 0));
        if probe {
            return vec![std::mem::size_of::<P>() as u64, rs, ra, P::HAS_DROP as u64, pg];
        }
        if pg != page || (rs, ra) != (nsize, nalign) {
            return vec![7, 7, 7, pg, rs, ra];
        }
    }
    out.push(20);
    enc_evs(&obs, 0, &mut out);
    tail(&q, &obs, &mut out);
    let mut handles: Vec<EventHandle<P>> = Vec::new();
    let mut nadds: u64 = 0;
    let mut aborted = false;
    while !c.done() {
        let mark = obs.borrow().events.len();
        obs.borrow_mut().pages_this_call = 0;
        match c.peek() {
            Some(1) if c.left() >= 2 => {
                c.next();
                let dt = c.next();
                let time = q.time() + Duration::from_nanos(dt);
                let id = nadds;
                nadds += 1;
                match catch_unwind(AssertUnwindSafe(|| q.add(time, P::make(id)))) {
                    Ok(h) => handles.push(h),
                    Err(_) => {
                        aborted = true;
                        break;
                    }
                }
                out.push(1);
                enc_evs(&obs, mark, &mut out);
                tail(&q, &obs, &mut out);
                enc_drops::<P>(&mut out, &mut tally);
            }
            Some(2) if c.left() >= 2 => {
                c.next();
                let k = c.next();
                if !handles.is_empty() {
                    let idx = (k % handles.len() as u64) as usize;
                    // EventHandle is a plain (id, time) record without Clone; a bitwise copy lets a
                    // script cancel the same handle more than once
                    let h: EventHandle<P> = unsafe { std::ptr::read(&handles[idx]) };
                    q.cancel(h);
                }
                out.push(5);
                enc_evs(&obs, mark, &mut out);
                tail(&q, &obs, &mut out);
                enc_drops::<P>(&mut out, &mut tally);
            }
            Some(3) => {
                c.next();
                if q.is_empty() {
                    out.push(9);
                    continue;
                }
                let (p, time) = q.fetch_next();
                let id = p.pid();
                out.extend([2, id, time.as_nanos() as u64, p.check(id) as u64]);
                enc_evs(&obs, mark, &mut out);
                tail(&q, &obs, &mut out);
                enc_drops::<P>(&mut out, &mut tally);
                // the caller owns the payload now and drops it: counted, but not part of the record
                drop(p);
                for id in take_drops() {
                    *tally.entry(id).or_insert(0) += 1;
                }
            }
            _ => break,
        }
    }
    if aborted {
        return vec![8];
    }
    let mark = obs.borrow().events.len();
    drop(q);
    out.push(10);
    enc_evs(&obs, mark, &mut out);
    {
        let o = obs.borrow();
        out.push(o.shadow.values().sum::<usize>() as u64);
        out.push(o.shadow.len() as u64);
    }
    enc_drops::<P>(&mut out, &mut tally);
    let o = obs.borrow();
    // safe: no block handed out twice / overlapping a live one / released while not live, pages sane;
    // paired: every block handed out was released before the allocator went away
    let safe = !o.shadow_bad && !o.oracle_bad;
    let paired = o.shadow.is_empty();
    let mut drops_ok = true;
    if P::HAS_DROP {
        // ids are stored modulo what the payload can hold
        let m = if std::mem::size_of::<P>() == 1 { 256 } else { u64::MAX };
        let mut want: BTreeMap<u64, u32> = BTreeMap::new();
        for id in 0..nadds {
            *want.entry(id % m).or_insert(0) += 1;
        }
        drops_ok = want == tally;
    }
    out.extend([11, drops_ok as u64, safe as u64, paired as u64]);
    out
}

fn dispatch(pt: u64, c: &mut Cur, probe: bool) -> Vec<u64> {
    match pt {
        0 => run_queue::<u8>(c, probe),
        1 => run_queue::<u64>(c, probe),
        2 => run_queue::<D24>(c, probe),
        3 => run_queue::<D1>(c, probe),
        4 => run_queue::<B256>(c, probe),
        5 => run_queue::<B2K>(c, probe),
        6 => run_queue::<A16>(c, probe),
        7 => run_queue::<A16N>(c, probe),
        8 => run_queue::<B1K>(c, probe),
        _ => vec![7],
    }
}

fn run_line(nums: &[u64]) -> Vec<u64> {
    let mut c = Cur::new(nums);
    match c.next() {
        0 if nums.len() == 1 => {
            let (nsz, nal) = node_consts();
            let mut out = vec![0, nsz, nal];
            let mut rows = Vec::new();
            let mut pg = 0;
            for pt in 0..NPTYPES {
                let hdr = [0, 0, 0, 0, 0, 0, 1, 1];
                let mut c = Cur::new(&hdr);
                let r = dispatch(pt, &mut c, true);
                pg = r[4];
                rows.extend([pt, r[0], r[1], r[2], r[3]]);
            }
            out.push(pg);
            out.extend(rows);
            out
        }
        1 => run_alloc(&mut c),
        2 if nums.len() >= 10 => {
            let pt = c.next();
            dispatch(pt, &mut c, false)
        }
        _ => vec![7],
    }
}
