//! implrun: runs scripts against the real PetrichorIT/des crates.
//!
//! `implrun <model>` reads one script per line from stdin (decimal integers
//! separated by blanks, the same lines `modelrun/<model>` reads) and prints one
//! line of integers per script.  A panic that escapes a script's own handling
//! prints the single number 666.
use std::io::{BufRead, Write};
use std::panic::{catch_unwind, AssertUnwindSafe};

mod cq;

fn dispatch(model: &str) -> fn(&[u64]) -> Vec<u64> {
    match model {
        "cq" => cq::run_line,
        _ => {
            eprintln!("unknown model {model}");
            std::process::exit(2);
        }
    }
}

fn main() {
    let args: Vec<String> = std::env::args().collect();
    if args.len() < 2 {
        eprintln!("usage: implrun <model>");
        std::process::exit(2);
    }
    let f = dispatch(&args[1]);
    // scripts provoke panics on purpose; keep stderr quiet
    std::panic::set_hook(Box::new(|_| {}));
    let stdin = std::io::stdin();
    let stdout = std::io::stdout();
    let mut out = std::io::BufWriter::new(stdout.lock());
    for line in stdin.lock().lines() {
        let line = line.expect("read");
        let nums: Vec<u64> = line
            .split_whitespace()
            .map(|t| t.parse::<u64>().expect("integer"))
            .collect();
        let res = catch_unwind(AssertUnwindSafe(|| f(&nums)));
        let res = res.unwrap_or_else(|_| vec![666]);
        let strs: Vec<String> = res.iter().map(|x| x.to_string()).collect();
        writeln!(out, "{}", strs.join(" ")).unwrap();
    }
    out.flush().unwrap();
}
